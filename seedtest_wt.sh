#!/bin/bash
# usage: seedtest_wt.sh <seed-id> [tier]  -- tests a stored seeded change WITHOUT touching /repo: the patch is applied to
# the scratch worktree /tmp/wt-seed (git -C /repo worktree add --detach /tmp/wt-seed HEAD) and the harness copies
# /tmp/mcseed0 (= committed /verif/mc) and /tmp/mcseed (= development copy), whose rs-matter dependency points into
# that worktree, are rebuilt and run with MC_OUT_DIR set, so nothing under /verif/evidence or /verif/replays changes.
# Set-up (once per session; removed again at its end):
#   git -C /repo worktree add --detach /tmp/wt-seed HEAD
#   rsync -a --exclude target /verif/mc/ /tmp/mcseed/
#   sed -i 's|path = "/repo/rs-matter"|path = "/tmp/wt-seed/rs-matter"|' /tmp/mcseed/Cargo.toml
#   sed -i 's|/verif/mc/target|/tmp/mcseed/target|' /tmp/mcseed/.cargo/config.toml   # (else it builds into /verif/mc/target)
#   after editing /verif/mc/src: rsync -a --exclude target /verif/mc/src/ /tmp/mcseed/src/
s=$1; tier=${2:-quick}; prop=${s%%-*}
cd /tmp/wt-seed || exit 2
git checkout -q -- . && git clean -fdq rs-matter rs-matter-macros
git apply /verif/seeded/$s/patch.diff || { echo "$s: patch does not apply"; exit 2; }
for h in mcseed0 mcseed; do
  [ -d /tmp/$h ] || continue
  (cd /tmp/$h && CARGO_NET_OFFLINE=true cargo build --release --offline 2>&1 | grep -E "^error" -A6 | head -20)
  mkdir -p /tmp/$h-out; rm -rf /tmp/$h-out/replays
  out=$(cd /verif && MC_OUT_DIR=/tmp/$h-out timeout 1500 /tmp/$h/target/release/mc $prop --tier $tier 2>&1); code=$?
  echo "$out" | grep -E "signature=|tier=" | cut -c1-330 | head -12
  if [ $code -eq 1 ]; then echo "== $s [$h]: DETECTED (exit 1)"; elif [ $code -eq 0 ]; then echo "== $s [$h]: MISSED (exit 0)"; else echo "== $s [$h]: MACHINERY exit $code"; echo "$out" | tail -5; fi
done
git checkout -q -- .
