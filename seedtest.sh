#!/bin/bash
# usage: seedtest.sh <seed-id> [<seed-id> ...]  -- applies the seeded patches to /repo, runs the quick check of
# each seed's property, reverts /repo. Prints DETECTED / MISSED per seed.
cd /repo || exit 2
if [ -n "$(git status --porcelain)" ]; then echo "/repo not clean"; exit 2; fi
for s in "$@"; do git apply /verif/seeded/$s/patch.diff || { echo "$s: patch does not apply"; git checkout -- .; exit 2; }; done
cd /verif
before=$(ls /verif/replays/C*-*.json 2>/dev/null)
for s in "$@"; do
  prop=${s%%-*}
  out=$(./check $prop --tier ${TIER:-quick} 2>&1); code=$?
  echo "$out" | grep -E "signature=|VIOLATION|tier=" | cut -c1-400
  if [ $code -eq 1 ]; then echo "== $s: DETECTED (exit 1)"; elif [ $code -eq 0 ]; then echo "== $s: MISSED (exit 0)"; else echo "== $s: MACHINERY exit $code"; echo "$out" | tail -5; fi
done
git -C /repo checkout -- .
for f in /verif/replays/C*-*.json; do case "$before" in *"$f"*) ;; *) rm -f "$f";; esac; done
