#![recursion_limit = "512"]
mod common;
mod props;

use std::path::PathBuf;
use std::time::Instant;

use common::{Ctx, Tier};

fn usage() -> ! {
    eprintln!("usage: mc <Cxx> [--tier quick|thorough] [--replay <file>] [extra...]");
    std::process::exit(2);
}

struct VLog;
impl log::Log for VLog {
    fn enabled(&self, _: &log::Metadata) -> bool {
        true
    }
    fn log(&self, r: &log::Record) {
        eprintln!("[{:>12.6}] {:5} {}: {}", common::vclock::now() as f64 / 1e6, r.level(), r.target(), r.args());
    }
    fn flush(&self) {}
}
static VLOG: VLog = VLog;

fn main() {
    if let Ok(l) = std::env::var("MC_LOG") {
        let _ = log::set_logger(&VLOG);
        log::set_max_level(match l.as_str() {
            "trace" => log::LevelFilter::Trace,
            "debug" => log::LevelFilter::Debug,
            _ => log::LevelFilter::Info,
        });
    }
    let args: Vec<String> = std::env::args().skip(1).collect();
    if args.is_empty() {
        usage();
    }
    let prop = args[0].clone();
    let mut tier = match std::env::var("VERIF_TIER").ok().as_deref() {
        Some("thorough") => Tier::Thorough,
        _ => Tier::Quick,
    };
    let seed = std::env::var("VERIF_SEED")
        .ok()
        .and_then(|s| s.parse::<u64>().ok())
        .unwrap_or(1);
    let mut replay = None;
    let mut extra = Vec::new();
    let mut i = 1;
    while i < args.len() {
        match args[i].as_str() {
            "--tier" => {
                i += 1;
                tier = match args.get(i).map(|s| s.as_str()) {
                    Some("quick") => Tier::Quick,
                    Some("thorough") => Tier::Thorough,
                    _ => usage(),
                };
            }
            "--replay" => {
                i += 1;
                replay = Some(PathBuf::from(args.get(i).cloned().unwrap_or_else(|| usage())));
            }
            other => extra.push(other.to_string()),
        }
        i += 1;
    }
    // checks whose complete catalog takes seconds run it in the quick tier as well; their thorough tier
    // adds the extended sweeps (Ctx::deep)
    let label = tier;
    if tier == Tier::Quick && replay.is_none() && ["C02", "C03", "C05", "C06", "C14", "C17"].contains(&prop.as_str()) {
        tier = Tier::Thorough;
    }
    let ctx = Ctx {
        prop: prop.clone(),
        tier,
        label,
        seed,
        replay,
        start: Instant::now(),
        extra,
    };
    common::quiet_panics();
    // a run that does not come back is a machinery failure, not a verdict (e.g. an endless loop inside
    // one execution, which no exploration bound can interrupt)
    {
        let cap_s: u64 = std::env::var("MC_WALL_CAP_S").ok().and_then(|v| v.parse().ok()).unwrap_or(if ctx.label == common::Tier::Quick { 900 } else { 6 * 3600 });
        let prop = ctx.prop.clone();
        std::thread::spawn(move || {
            std::thread::sleep(std::time::Duration::from_secs(cap_s));
            eprintln!("MACHINERY: {} did not finish within the wall-clock cap of {} s", prop, cap_s);
            std::process::exit(2);
        });
    }
    let code = match prop.as_str() {
        "C01" => props::c01::run_check(&ctx),
        "C02" => props::c02::run_check(&ctx),
        "C03" => props::c03::run_check(&ctx),
        "C04" => props::c04::run(&ctx),
        "C05" => props::c05::run(&ctx),
        "C06" => props::c06::run_check(&ctx),
        "C07" => props::c07::run_check(&ctx),
        "C08" => props::c08::run_check(&ctx),
        "C09" | "C15" => props::c09::run(&ctx),
        "C10" => props::c10::run_check(&ctx),
        "C17" => props::c17::run_check(&ctx),
        "C19" => props::c19::run_check(&ctx),
        "C11" => props::c11::run_check(&ctx),
        "C12" => props::c12::run(&ctx),
        "C13" => props::c13::run(&ctx),
        "C14" => props::c14::run_check(&ctx),
        "C16" => props::c16::run(&ctx),
        "C18" => props::c18::run(&ctx),
        "C20" => props::c20::run_check(&ctx),
        // the events world on its own (debugging aid; not a registered check)
        "EVW" if ctx.replay.is_some() => {
            let doc: serde_json::Value = serde_json::from_str(&std::fs::read_to_string(ctx.replay.as_ref().unwrap()).expect("replay file")).expect("json");
            match props::evw::replay(&doc["replay"]) {
                Ok(o) => {
                    println!("{}", o.class);
                    for (sig, what) in o.violations {
                        println!("  {} {}", sig, what);
                    }
                    0
                }
                Err(e) => {
                    eprintln!("MACHINERY: {}", e);
                    2
                }
            }
        }
        "EVW" => match props::evw::explore(ctx.tier, "EVW", |_| true) {
            Ok((report, st)) => {
                println!("scenarios {} events delivered {} messages {} multi-chunk {} classes {}", st.scenarios, st.events_delivered, st.messages, st.multi_chunk, st.classes);
                for v in report.violations.values() {
                    println!("  {} x{}: {}", v.signature, v.count, v.what.chars().take(700).collect::<String>());
                }
                0
            }
            Err(e) => {
                eprintln!("MACHINERY: {}", e);
                2
            }
        },
        _ => {
            eprintln!("MACHINERY: unknown property {}", prop);
            2
        }
    };
    std::process::exit(code);
}
