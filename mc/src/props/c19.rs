//! C19 — a certificate chain is accepted exactly when it is valid under the Matter rules.
//!
//! Bounded exhaustive enumeration: (valid base chains over a parameter catalog) x (every single
//! defect of the catalog, plus "none") on four real entry points:
//!   P  `CertRef::verify_chain_start .. add_cert .. finalise` (the verifier itself),
//!   A  `FailSafe::add_trusted_root_cert` + `add_csr_req` + `add_noc` (credential installation),
//!   U  `FailSafe::update_csr_req` + `update_noc`,
//!   H  a real CASE handshake between two nodes in which one side presents the chain.
//! The chains come from the harness's own certificate writer (every field a parameter); the
//! oracle is a predicate on the generator parameters: accept <=> no defect applied.

use core::num::NonZeroU8;

use std::cell::RefCell;
use std::rc::Rc;

use embassy_futures::select::select;
use rayon::prelude::*;
use serde_json::{json, Value};

use rs_matter::cert::CertRef;
use rs_matter::crypto::{CanonAeadKey, CanonPkcPublicKey, CanonPkcSecretKey, Crypto, PublicKey, SecretKey, SigningSecretKey};
use rs_matter::dm::clusters::decl::time_synchronization::{GranularityEnum, TimeSourceEnum};
use rs_matter::dm::clusters::time_sync::UtcTime;
use rs_matter::error::Error;
use rs_matter::respond::Responder;
use rs_matter::sc::case::CaseInitiator;
use rs_matter::sc::SecureChannel;
use rs_matter::tlv::TLVElement;
use rs_matter::transport::exchange::Exchange;
use rs_matter::transport::network::NoNetwork;
use rs_matter::transport::session::{NocCatIds, SessionMode};
use rs_matter::Matter;

use crate::common::certw::{self, CertSpec, KeyPair};
use crate::common::nodes;
use crate::common::rng::SeededRng;
use crate::common::sim::{addr_of, Exec, Net, Owned};
use crate::common::{self, vclock, Ctx, Evidence, Report, Tier};

/// the nodes' UTC time, Matter epoch seconds
const NOW_S: u64 = 1_000_000_000;
const FABRIC: u64 = 0x0000_00FA_B000_0001;
const OTHER_FABRIC: u64 = 0x0000_00FA_B000_0002;
const I_NODE: u64 = 0x0000_0000_0001_1111;
const R_NODE: u64 = 0x0000_0000_0002_2222;

#[derive(Clone, Copy, Debug, PartialEq, Eq, Hash)]
enum Which {
    Noc,
    Icac,
    Rcac,
}

#[derive(Clone, Copy, Debug, PartialEq, Eq, Hash)]
struct Base {
    icac: bool,
    icac_fabric: bool,
    rcac_fabric: bool,
    cats: u8,
    /// 0 forever, 1 a window around now, 2 a window that starts and ends exactly now
    validity: u8,
    /// the root carries pathLenConstraint 1
    rcac_path1: bool,
    /// a non-critical unknown extension on this certificate
    benign_ext: Option<Which>,
    /// extra, harmless key usage bits on every certificate
    extra_ku: bool,
    clock_reliable: bool,
}

#[derive(Clone, Copy, Debug, PartialEq, Eq, Hash)]
enum Defect {
    None,
    /// one bit of the signature: bit index 0..511 over r || s
    SigBit(Which, u16),
    /// the issuer name carries another authority id than the issuing certificate's subject
    IssuerCaId(Which),
    /// the NOC's issuer name says "root CA id" although an intermediate issued it (or vice versa)
    IssuerKind,
    /// the issuer name carries another fabric id than the issuing certificate's subject
    IssuerFabric(Which),
    /// the issuer name is the issuing certificate's subject name without its last attribute / with no attribute at all
    IssuerShorter(Which),
    IssuerEmpty(Which),
    /// ... with one more attribute at the end / with its first two attributes swapped
    IssuerLonger(Which),
    IssuerReordered(Which),
    /// authority key id does not name the issuing certificate's key
    Akid(Which),
    /// subject key id of an authority changed (children then point elsewhere; the root is no longer self-issued)
    Skid(Which),
    NotYetValid(Which),
    Expired(Which),
    /// validity starts one second after / ended one second before the node's time
    NotYetValidByOne(Which),
    ExpiredByOne(Which),
    LeafIsCa,
    LeafNoBasic,
    LeafKuNoDigSig,
    LeafNoKu,
    LeafEkuNoServer,
    LeafEkuNoClient,
    /// the leaf's extended key usage lacks a mandatory purpose and lists other entries instead:
    /// 0 = [server, server], 1 = [client, client], 2 = [client, code signing, client], 3 = [server, OCSP, e-mail]
    LeafEkuLacksOne(u8),
    LeafNoEku,
    CaNotCa(Which),
    CaNoBasic(Which),
    CaKuNoCertSign(Which),
    CaNoKu(Which),
    /// the root allows no intermediate, yet there is one
    RootPathLen0,
    CriticalExt(Which),
    /// the critical unknown extension sits in the third `future-extensions` element, after harmless ones
    CriticalExtInLaterElement(Which),
    /// one element carrying a harmless extension followed by a critical one
    CriticalExtLaterInBlob(Which),
    NocNoNodeId,
    NocNoFabricId,
    /// the leaf is a certificate of another fabric of the same authority
    NocFabricOther,
    IcacFabricOther,
    RcacFabricOther,
    /// intermediate and leaf presented in each other's place
    Swapped,
    /// the leaf presented as its own authority
    LeafAsAuthority,
    /// the intermediate presented as the leaf
    AuthorityAsLeaf,
    /// the root presented as the intermediate
    IcacIsRoot,
    /// a look-alike root (same names, other key) issued the chain
    WrongRoot,
    /// the (trusted / offered) root's own signature is broken
    RootSelfSigBroken,
    /// installation: the leaf's key is not the one generated for the request
    NocKeyNotCsr,
    /// installation: the fabric (root key + fabric id) exists already
    FabricExists,
}

#[derive(Clone, Copy, Debug, PartialEq, Eq, Hash)]
enum Entry {
    Verifier,
    AddNoc,
    UpdateNoc,
    CaseInitiatorPresents,
    CaseResponderPresents,
}

/// Issuer name = the issuing certificate's subject name cut short / emptied / extended / reordered.
/// False when the shape does not exist for this name (e.g. nothing to cut from a one-attribute name).
fn reshape_issuer(issuer: &mut Vec<(u8, u64)>, d: Defect) -> bool {
    match d {
        Defect::IssuerShorter(_) => {
            if issuer.len() < 2 {
                return false;
            }
            issuer.pop();
            true
        }
        Defect::IssuerEmpty(_) => {
            issuer.clear();
            true
        }
        Defect::IssuerLonger(_) => {
            // one more attribute of a kind the name does not have yet
            let extra = if issuer.iter().any(|a| a.0 == certw::DN_FABRIC_ID) { (certw::DN_NOC_CAT, 0x0001_0001) } else { (certw::DN_FABRIC_ID, 0x0BAD) };
            issuer.push(extra);
            true
        }
        Defect::IssuerReordered(_) => {
            if issuer.len() < 2 || issuer[0] == issuer[1] {
                return false;
            }
            issuer.swap(0, 1);
            true
        }
        _ => false,
    }
}

/// `Some(true)` must be rejected, `Some(false)` must be accepted, `None` not judged (the property does not say).
fn must_reject(b: &Base, d: Defect, e: Entry) -> Option<bool> {
    use Defect::*;
    let has = |w: Which| w != Which::Icac || b.icac;
    Some(match d {
        None => false,
        SigBit(w, _) | Akid(w) | Skid(w) | Expired(w) | ExpiredByOne(w) | CriticalExt(w) | CriticalExtInLaterElement(w) | CriticalExtLaterInBlob(w) => {
            if !has(w) {
                return Option::None;
            }
            true
        }
        IssuerCaId(w) | IssuerFabric(w) | IssuerShorter(w) | IssuerEmpty(w) | IssuerLonger(w) | IssuerReordered(w) => {
            if !has(w) {
                return Option::None;
            }
            true
        }
        IssuerKind => true,
        NotYetValid(w) | NotYetValidByOne(w) => {
            if !has(w) {
                return Option::None;
            }
            // without a reliable clock only the not-after bound can be judged (Matter: last known good time)
            b.clock_reliable
        }
        LeafIsCa | LeafNoBasic | LeafKuNoDigSig | LeafNoKu | LeafEkuNoServer | LeafEkuNoClient | LeafEkuLacksOne(_) | LeafNoEku => true,
        CaNotCa(w) | CaNoBasic(w) | CaKuNoCertSign(w) | CaNoKu(w) => {
            if !has(w) {
                return Option::None;
            }
            true
        }
        RootPathLen0 => {
            if !b.icac {
                return Some(false);
            }
            true
        }
        NocNoNodeId | NocNoFabricId => match e {
            Entry::Verifier => return Option::None,
            _ => true,
        },
        NocFabricOther => match e {
            // the verifier does not know the fabric; AddNOC defines the fabric by the leaf
            Entry::Verifier | Entry::AddNoc => return Option::None,
            _ => true,
        },
        // the property speaks of the leaf's fabric id only (observed, not judged: CASE refuses an
        // intermediate of another fabric, AddNOC / UpdateNOC accept it)
        IcacFabricOther | RcacFabricOther => return Option::None,
        Swapped | LeafAsAuthority | AuthorityAsLeaf => {
            if !b.icac && d != LeafAsAuthority {
                return Option::None;
            }
            // the bare verifier is also the API that validates a stand-alone root, so it cannot
            // insist on a non-CA certificate at depth 0; the real entry points must
            if d == AuthorityAsLeaf && e == Entry::Verifier {
                return Option::None;
            }
            true
        }
        // every certificate is signed by the next and the root is the trusted one: not judged
        IcacIsRoot => return Option::None,
        WrongRoot => true,
        RootSelfSigBroken => true,
        NocKeyNotCsr | FabricExists => match e {
            Entry::AddNoc => true,
            Entry::UpdateNoc => {
                if d == FabricExists {
                    return Option::None;
                }
                true
            }
            _ => return Option::None,
        },
    })
}

struct Keys {
    root: KeyPair,
    root2: KeyPair,
    ica: KeyPair,
    node: KeyPair,
}

struct Chain {
    noc: Vec<u8>,
    icac: Option<Vec<u8>>,
    /// the root the verifying side trusts
    trusted_root: Vec<u8>,
}

fn flip_sig(cert: &mut [u8], idx: u16) {
    let off = certw::signature_offset(cert);
    cert[off + (idx / 8) as usize] ^= 1 << (idx % 8);
}

fn other_dn(dn: &mut Vec<(u8, u64)>, tag: u8) -> bool {
    for a in dn.iter_mut() {
        if a.0 == tag {
            a.1 ^= 0x1000;
            return true;
        }
    }
    false
}

/// Build the chain for (base, defect); `leaf` is the key pair the leaf certifies. `None` = the
/// defect does not apply to this base.
fn build_chain<C: Crypto>(c: &C, k: &Keys, leaf: &KeyPair, node_id: u64, b: &Base, d: Defect) -> Result<Option<Chain>, Error> {
    use Defect::*;
    let now = NOW_S as u32;
    let (nb, na) = match b.validity {
        0 => (1u32, 0u32),
        1 => (now - 1000, now + 1000),
        _ => (now, now),
    };
    let apply_common = |s: &mut CertSpec, w: Which| {
        s.not_before = nb;
        s.not_after = na;
        if b.extra_ku {
            s.key_usage = s.key_usage.map(|k| k | 0x0002 | 0x0080);
        }
        if b.benign_ext == Some(w) {
            s.future = vec![certw::FUTURE_NON_CRITICAL.to_vec(), [certw::FUTURE_NON_CRITICAL, certw::FUTURE_NON_CRITICAL].concat()];
        }
        match d {
            NotYetValid(x) if x == w => {
                s.not_before = now + 1000;
                s.not_after = 0;
            }
            Expired(x) if x == w => {
                s.not_before = 1;
                s.not_after = now - 1000;
            }
            NotYetValidByOne(x) if x == w => {
                s.not_before = now + 1;
                s.not_after = 0;
            }
            ExpiredByOne(x) if x == w => {
                s.not_before = 1;
                s.not_after = now - 1;
            }
            CriticalExt(x) if x == w => s.future = vec![certw::FUTURE_CRITICAL.to_vec()],
            CriticalExtInLaterElement(x) if x == w => s.future = vec![certw::FUTURE_NON_CRITICAL.to_vec(), certw::FUTURE_NON_CRITICAL.to_vec(), certw::FUTURE_CRITICAL.to_vec()],
            CriticalExtLaterInBlob(x) if x == w => s.future = vec![[certw::FUTURE_NON_CRITICAL, certw::FUTURE_CRITICAL].concat()],
            _ => {}
        }
    };
    // ---- root
    let signing_root = if d == WrongRoot { &k.root2 } else { &k.root };
    let mut rc = certw::rcac_spec(&k.root, 1, b.rcac_fabric.then_some(FABRIC));
    if b.rcac_path1 {
        rc.basic = Some((true, Some(1)));
    }
    apply_common(&mut rc, Which::Rcac);
    let mut rc_subject_for_children = rc.subject.clone();
    match d {
        CaNotCa(Which::Rcac) => rc.basic = Some((false, Option::None)),
        CaNoBasic(Which::Rcac) => rc.basic = Option::None,
        CaKuNoCertSign(Which::Rcac) => rc.key_usage = Some(certw::KU_CRL_SIGN),
        CaNoKu(Which::Rcac) => rc.key_usage = Option::None,
        RootPathLen0 => rc.basic = Some((true, Some(0))),
        Skid(Which::Rcac) => rc.skid = Some(vec![0x5a; 20]),
        Akid(Which::Rcac) => rc.akid = Some(vec![0x5a; 20]),
        RcacFabricOther => {
            if !other_dn(&mut rc.subject, certw::DN_FABRIC_ID) {
                return Ok(Option::None);
            }
            rc.issuer = rc.subject.clone();
            rc_subject_for_children = rc.subject.clone();
        }
        IssuerCaId(Which::Rcac) => {
            other_dn(&mut rc.issuer, certw::DN_ROOT_CA_ID);
        }
        IssuerShorter(Which::Rcac) | IssuerEmpty(Which::Rcac) | IssuerLonger(Which::Rcac) | IssuerReordered(Which::Rcac) => {
            if !reshape_issuer(&mut rc.issuer, d) {
                return Ok(Option::None);
            }
        }
        IssuerFabric(Which::Rcac) => {
            if !other_dn(&mut rc.issuer, certw::DN_FABRIC_ID) {
                return Ok(Option::None);
            }
        }
        _ => {}
    }
    let mut trusted_root = certw::sign(c, &rc, &k.root.secret)?;
    match d {
        SigBit(Which::Rcac, i) => flip_sig(&mut trusted_root, i),
        RootSelfSigBroken => flip_sig(&mut trusted_root, 7),
        _ => {}
    }
    // the look-alike root: same names, other key
    let rc_for_children = {
        let mut s = rc.clone();
        s.subject = rc_subject_for_children;
        s
    };
    // ---- intermediate
    let (parent_spec, parent_kp, icac) = if b.icac {
        let mut ic = certw::icac_spec(&k.ica, &rc_for_children, signing_root, 2, b.icac_fabric.then_some(FABRIC));
        apply_common(&mut ic, Which::Icac);
        let subject_for_children = ic.subject.clone();
        match d {
            CaNotCa(Which::Icac) => ic.basic = Some((false, Option::None)),
            CaNoBasic(Which::Icac) => ic.basic = Option::None,
            CaKuNoCertSign(Which::Icac) => ic.key_usage = Some(certw::KU_CRL_SIGN),
            CaNoKu(Which::Icac) => ic.key_usage = Option::None,
            Skid(Which::Icac) => ic.skid = Some(vec![0x5a; 20]),
            Akid(Which::Icac) => ic.akid = Some(vec![0x5a; 20]),
            IssuerCaId(Which::Icac) => {
                other_dn(&mut ic.issuer, certw::DN_ROOT_CA_ID);
            }
            IssuerShorter(Which::Icac) | IssuerEmpty(Which::Icac) | IssuerLonger(Which::Icac) | IssuerReordered(Which::Icac) => {
                if !reshape_issuer(&mut ic.issuer, d) {
                    return Ok(Option::None);
                }
            }
            IssuerFabric(Which::Icac) => {
                if !other_dn(&mut ic.issuer, certw::DN_FABRIC_ID) {
                    return Ok(Option::None);
                }
            }
            IcacFabricOther => {
                if !other_dn(&mut ic.subject, certw::DN_FABRIC_ID) {
                    return Ok(Option::None);
                }
            }
            _ => {}
        }
        let mut bytes = certw::sign(c, &ic, &signing_root.secret)?;
        if let SigBit(Which::Icac, i) = d {
            flip_sig(&mut bytes, i);
        }
        let mut for_children = ic.clone();
        if d != IcacFabricOther {
            for_children.subject = subject_for_children;
        }
        (for_children, &k.ica, Some(bytes))
    } else {
        if matches!(d, SigBit(Which::Icac, _) | IssuerCaId(Which::Icac) | IssuerFabric(Which::Icac) | IssuerShorter(Which::Icac) | IssuerEmpty(Which::Icac) | IssuerLonger(Which::Icac) | IssuerReordered(Which::Icac) | Akid(Which::Icac) | Skid(Which::Icac) | NotYetValid(Which::Icac) | Expired(Which::Icac) | NotYetValidByOne(Which::Icac) | ExpiredByOne(Which::Icac) | CaNotCa(Which::Icac) | CaNoBasic(Which::Icac) | CaKuNoCertSign(Which::Icac) | CaNoKu(Which::Icac) | CriticalExt(Which::Icac) | CriticalExtInLaterElement(Which::Icac) | CriticalExtLaterInBlob(Which::Icac) | IcacFabricOther | Swapped | AuthorityAsLeaf | IcacIsRoot) {
            return Ok(Option::None);
        }
        (rc_for_children.clone(), signing_root, Option::None)
    };
    // ---- leaf
    let cats: Vec<u32> = (0..b.cats as u32).map(|i| 0xABCD_0001 + (i << 16)).collect();
    let mut nc = certw::noc_spec(leaf, &parent_spec, parent_kp, node_id, if d == NocFabricOther { OTHER_FABRIC } else { FABRIC }, &cats);
    apply_common(&mut nc, Which::Noc);
    match d {
        LeafIsCa => nc.basic = Some((true, Option::None)),
        LeafNoBasic => nc.basic = Option::None,
        LeafKuNoDigSig => nc.key_usage = Some(0x0002),
        LeafNoKu => nc.key_usage = Option::None,
        LeafEkuNoServer => nc.eku = Some(vec![2]),
        LeafEkuNoClient => nc.eku = Some(vec![1]),
        LeafEkuLacksOne(k) => nc.eku = Some(match k {
            0 => vec![1, 1],
            1 => vec![2, 2],
            2 => vec![2, 3, 2],
            _ => vec![1, 6, 4],
        }),
        LeafNoEku => nc.eku = Option::None,
        NocNoNodeId => nc.subject.retain(|a| a.0 != certw::DN_NODE_ID),
        NocNoFabricId => nc.subject.retain(|a| a.0 != certw::DN_FABRIC_ID),
        Akid(Which::Noc) => nc.akid = Some(vec![0x5a; 20]),
        Skid(Which::Noc) => return Ok(Option::None),
        IssuerCaId(Which::Noc) => {
            other_dn(&mut nc.issuer, if b.icac { certw::DN_ICA_ID } else { certw::DN_ROOT_CA_ID });
        }
        IssuerShorter(Which::Noc) | IssuerEmpty(Which::Noc) | IssuerLonger(Which::Noc) | IssuerReordered(Which::Noc) => {
            if !reshape_issuer(&mut nc.issuer, d) {
                return Ok(Option::None);
            }
        }
        IssuerFabric(Which::Noc) => {
            if !other_dn(&mut nc.issuer, certw::DN_FABRIC_ID) {
                return Ok(Option::None);
            }
        }
        IssuerKind => {
            for a in nc.issuer.iter_mut() {
                if a.0 == certw::DN_ICA_ID {
                    a.0 = certw::DN_ROOT_CA_ID;
                } else if a.0 == certw::DN_ROOT_CA_ID {
                    a.0 = certw::DN_ICA_ID;
                }
            }
        }
        CaNotCa(Which::Noc) | CaNoBasic(Which::Noc) | CaKuNoCertSign(Which::Noc) | CaNoKu(Which::Noc) => return Ok(Option::None),
        _ => {}
    }
    let mut noc = certw::sign(c, &nc, &parent_kp.secret)?;
    if let SigBit(Which::Noc, i) = d {
        flip_sig(&mut noc, i);
    }
    let chain = match d {
        Swapped => Chain { noc: icac.clone().unwrap(), icac: Some(noc), trusted_root },
        LeafAsAuthority => Chain { noc: noc.clone(), icac: Some(noc), trusted_root },
        AuthorityAsLeaf => Chain { noc: icac.clone().unwrap(), icac: Option::None, trusted_root },
        IcacIsRoot => {
            // the leaf is issued by the root directly, the root is offered as the intermediate as well
            let mut nc2 = certw::noc_spec(leaf, &rc_for_children, signing_root, node_id, FABRIC, &cats);
            apply_common(&mut nc2, Which::Noc);
            Chain { noc: certw::sign(c, &nc2, &signing_root.secret)?, icac: Some(trusted_root.clone()), trusted_root }
        }
        _ => Chain { noc, icac, trusted_root },
    };
    Ok(Some(chain))
}

fn utc(b: &Base) -> UtcTime {
    if b.clock_reliable {
        UtcTime::Reliable(NOW_S * 1_000_000)
    } else {
        UtcTime::LastKnown(NOW_S * 1_000_000)
    }
}

fn keypair_of<C: Crypto>(c: &C, secret: &CanonPkcSecretKey) -> Result<KeyPair, Error> {
    let mut public = CanonPkcPublicKey::new();
    c.secret_key(secret.reference())?.pub_key()?.write_canon(&mut public)?;
    let public = public.access().to_vec();
    let key_id = certw::key_id(c, &public)?;
    Ok(KeyPair { secret: secret.clone(), public, key_id })
}

// ------------------------------------------------------------------------------------ entry P

fn entry_verifier<C: Crypto>(c: &C, ch: &Chain, b: &Base) -> Result<(), String> {
    let mut buf = vec![0u8; 2048];
    let noc = CertRef::new(TLVElement::new(&ch.noc));
    let root = CertRef::new(TLVElement::new(&ch.trusted_root));
    let r: Result<(), Error> = (|| {
        let mut v = noc.verify_chain_start(c, utc(b));
        let icac_ref;
        if let Some(icac) = &ch.icac {
            icac_ref = CertRef::new(TLVElement::new(icac));
            v = v.add_cert(&icac_ref, &mut buf)?;
            return v.add_cert(&root, &mut buf)?.finalise(&mut buf);
        }
        v.add_cert(&root, &mut buf)?.finalise(&mut buf)
    })();
    r.map_err(|e| format!("{:?}", e.code()))
}

// ------------------------------------------------------------------------------------ entries A / U

fn entry_install(k: &Keys, b: &Base, d: Defect, update: bool, seed: u64) -> Result<Option<Result<(), String>>, String> {
    vclock::reset(1_000_000_000);
    let c = nodes::crypto(SeededRng::new(seed));
    let m = nodes::new_matter();
    let ipk = [0xA1u8; 16];
    let mut buf = vec![0u8; 4096];
    let e2s = |e: Error| format!("{:?}", e.code());
    // an existing fabric of the same authority (for UpdateNOC, and for the 'exists already' defect)
    let preinstalled: Option<NonZeroU8> = if update || d == Defect::FabricExists {
        let valid = Base { clock_reliable: true, ..*b };
        let mut ch = build_chain(&c, k, &k.node, R_NODE, &valid, Defect::None).map_err(e2s)?.unwrap();
        if update {
            // UpdateNOC verifies against the root the fabric holds: that is the root of the chain under test
            if let Some(bad) = build_chain(&c, k, &k.node, R_NODE, b, d).map_err(e2s)? {
                ch.trusted_root = bad.trusted_root;
            }
        }
        let mut key = CanonAeadKey::new();
        key.load_from_array(&ipk);
        let idx = m
            .with_state(|s| s.fabrics.add(&c, k.node.secret.reference(), &ch.trusted_root, &ch.noc, ch.icac.as_deref().unwrap_or(&[]), Some(key.reference()), 0xFFF1, I_NODE).map(|f| f.fab_idx()))
            .map_err(|e| format!("harness: installing the existing fabric failed: {:?}", e.code()))?;
        Some(idx)
    } else {
        None
    };
    let mode = if update { SessionMode::Case { fab_idx: preinstalled.unwrap(), cat_ids: NocCatIds::default() } } else { SessionMode::Pase { fab_idx: 0 } };
    let time = utc(b);
    let out: Result<Option<Result<(), String>>, String> = m.with_state(|s| {
        let (fs, fabrics, pase) = s.verif_failsafe_and_fabrics();
        fs.arm(60, 0, &mode, pase).map_err(|e| format!("harness: arm failed: {:?}", e.code()))?;
        // the key the node generates for this request
        let secret: CanonPkcSecretKey = {
            let r = if update { fs.update_csr_req(&c, &mode) } else { fs.add_csr_req(&c, &mode) };
            let r = r.map_err(|e| format!("harness: CSR request failed: {:?}", e.code()))?;
            let mut sk = CanonPkcSecretKey::new();
            sk.load(r);
            sk
        };
        let csr_kp = keypair_of(&c, &secret).map_err(e2s)?;
        let leaf = if d == Defect::NocKeyNotCsr { &k.node } else { &csr_kp };
        let Some(ch) = build_chain(&c, k, leaf, R_NODE, b, d).map_err(e2s)? else {
            return Ok(None);
        };
        if !update {
            // (AddTrustedRootCertificate must come after the CSR request is not required; order as commissioners do)
            if let Err(e) = fs.add_trusted_root_cert(&c, time, &mode, &ch.trusted_root, &mut buf) {
                return Ok(Some(Err(format!("root:{:?}", e.code()))));
            }
            let r = fs.add_noc(&c, time, fabrics, &mode, 0xFFF1, ch.icac.as_deref(), &ch.noc, &ipk, I_NODE, &mut buf, || {});
            Ok(Some(r.map(|_| ()).map_err(|e| format!("{:?}", e.code()))))
        } else {
            let r = fs.update_noc(&c, time, fabrics, &mode, ch.icac.as_deref(), &ch.noc, &mut buf, || {});
            Ok(Some(r.map(|_| ()).map_err(|e| format!("{:?}", e.code()))))
        }
    });
    out
}

// ------------------------------------------------------------------------------------ entry H

fn set_clock(m: &Matter<'_>) {
    m.with_rtc(|rtc| {
        rtc.set_utc_time(NOW_S * 1_000_000, GranularityEnum::MicrosecondsGranularity, TimeSourceEnum::Admin, &());
    });
}

struct KeysH {
    i: KeyPair,
    r: KeyPair,
}

/// One CASE handshake in which `presenter` (0 = initiator, 1 = responder) holds the chain of
/// (base, defect); the other side holds a valid chain. Returns (accepted, detail).
fn entry_case(k: &Keys, kh: &KeysH, b: &Base, d: Defect, presenter: usize, seed: u64) -> Result<Option<(bool, String)>, String> {
    vclock::reset(9_000_000_000);
    let c = nodes::crypto(SeededRng::new(seed));
    let e2s = |e: Error| format!("{:?}", e.code());
    let valid = Base { clock_reliable: true, ..*b };
    let chains: [Chain; 2] = [build_chain(&c, k, &kh.i, I_NODE, &valid, Defect::None).map_err(e2s)?.unwrap(), build_chain(&c, k, &kh.r, R_NODE, &valid, Defect::None).map_err(e2s)?.unwrap()];
    let (leaf, node_id) = if presenter == 0 { (&kh.i, I_NODE) } else { (&kh.r, R_NODE) };
    let Some(bad) = build_chain(&c, k, leaf, node_id, b, d).map_err(e2s)? else {
        return Ok(None);
    };
    let net = Net::new(2);
    let mi = Owned::from_box(nodes::new_matter());
    let mr = Owned::from_box(nodes::new_matter());
    let (i, r) = (mi.get(), mr.get());
    if b.clock_reliable {
        set_clock(i);
        set_clock(r);
    } else {
        // last known good time only
        for m in [i, r] {
            let mut map = std::collections::BTreeMap::new();
            let mut v = vec![0x07u8];
            v.extend_from_slice(&(NOW_S * 1_000_000).to_le_bytes());
            map.insert(rs_matter::persist::LKG_UTC_KEY, v);
            let kv = crate::common::kv::RecKv::from_map(map);
            let mut buf = [0u8; 64];
            m.with_rtc(|rtc| rtc.load_persist(kv, &mut buf)).map_err(|e| format!("harness: rtc load: {:?}", e.code()))?;
            if !matches!(m.with_rtc(|rtc| rtc.utc_time()), UtcTime::LastKnown(t) if t == NOW_S * 1_000_000) {
                return Err("harness: last-known-good time not in effect".into());
            }
        }
    }
    let mut key = CanonAeadKey::new();
    key.load_from_array(&[0xA1; 16]);
    let mut idx = [NonZeroU8::new(1).unwrap(); 2];
    for (n, m) in [i, r].iter().enumerate() {
        let kp = if n == 0 { &kh.i } else { &kh.r };
        let mut ch = Chain { noc: chains[n].noc.clone(), icac: chains[n].icac.clone(), trusted_root: chains[n].trusted_root.clone() };
        if n != presenter {
            // the verifying side's trust anchor is the root of the chain under test
            ch.trusted_root = bad.trusted_root.clone();
        }
        let ch = &ch;
        idx[n] = m
            .with_state(|s| s.fabrics.add(&c, kp.secret.reference(), &ch.trusted_root, &ch.noc, ch.icac.as_deref().unwrap_or(&[]), Some(key.reference()), 0xFFF1, I_NODE).map(|f| f.fab_idx()))
            .map_err(|e| format!("harness: installing node {} failed: {:?}", n, e.code()))?;
    }
    // the presenter now offers the chain under test (its own trust anchor stays the real root)
    {
        let m = if presenter == 0 { i } else { r };
        m.with_state(|s| s.fabrics.fabric_mut(idx[presenter]).and_then(|f| f.verif_set_certs(&bad.noc, bad.icac.as_deref().unwrap_or(&[])))).map_err(|e| format!("harness: set certs: {:?}", e.code()))?;
    }
    let obs: Rc<RefCell<Option<Result<(), String>>>> = Rc::new(RefCell::new(None));
    let mut exec = Exec::new();
    {
        let (send, recv) = (net.end(1), net.end(1));
        exec.spawn("R", async move {
            let c = nodes::crypto(SeededRng::new(seed + 20));
            let sc = SecureChannel::new(&c, &());
            let responder = Responder::new("R", sc, r, 0);
            let _ = select(r.run(&c, send, recv, NoNetwork), responder.run::<2>()).await;
        });
    }
    {
        let (send, recv) = (net.end(0), net.end(0));
        let obs2 = obs.clone();
        let fab = idx[0];
        exec.spawn("I", async move {
            let c = nodes::crypto(SeededRng::new(seed + 10));
            let client = async {
                let res: Result<(), Error> = async {
                    let exchange = Exchange::initiate_plaintext(i, &c, addr_of(1)).await?;
                    CaseInitiator::perform(exchange, &c, fab, R_NODE).await
                }
                .await;
                *obs2.borrow_mut() = Some(res.map_err(|e| format!("{:?}", e.code())));
                core::future::pending::<()>().await
            };
            let _ = select(i.run(&c, send, recv, NoNetwork), client).await;
        });
    }
    exec.run()?;
    let mut quiet: Option<u64> = None;
    for _ in 0..5000 {
        let now = vclock::now();
        if obs.borrow().is_some() && net.inflight_len() == 0 {
            let q = *quiet.get_or_insert(now);
            if now > q + 2_000_000 {
                break;
            }
        }
        if net.inflight_len() > 0 {
            vclock::advance_by_ms(1);
            net.deliver(0, false);
        } else if let Some(t) = vclock::next_deadline() {
            if t > 9_000_000_000 + 120_000_000 {
                break;
            }
            vclock::advance_to(t);
        } else {
            break;
        }
        exec.run()?;
    }
    let case_sessions = |m: &Matter<'_>| m.with_state(|s| s.verif_sessions().iter().filter(|x| matches!(x.get_session_mode(), SessionMode::Case { .. }) && !x.verif_flags().0).count());
    let (si, sr) = (case_sessions(i), case_sessions(r));
    let res = obs.borrow().clone();
    let accepted = si > 0 || sr > 0 || matches!(res, Some(Ok(())));
    let detail = format!("initiator result {:?}, operational sessions initiator/responder {}/{}", res, si, sr);
    if accepted && !(si == 1 && sr == 1 && matches!(res, Some(Ok(())))) {
        return Ok(Some((true, format!("HALF-OPEN: {}", detail))));
    }
    drop(exec);
    Ok(Some((accepted, detail)))
}

// ------------------------------------------------------------------------------------ catalogs

fn bases(tier: Tier) -> Vec<Base> {
    let mut v = Vec::new();
    let std = Base { icac: false, icac_fabric: false, rcac_fabric: true, cats: 0, validity: 0, rcac_path1: false, benign_ext: None, extra_ku: false, clock_reliable: true };
    for icac in [false, true] {
        for clock_reliable in [true, false] {
            for validity in [0u8, 1, 2] {
                for (icac_fabric, rcac_fabric) in [(true, true), (false, true), (true, false), (false, false)] {
                    if !icac && icac_fabric {
                        continue;
                    }
                    let thorough_only = validity == 2 || (!icac_fabric && !rcac_fabric) || (icac && icac_fabric && !rcac_fabric);
                    if tier == Tier::Quick && thorough_only {
                        continue;
                    }
                    v.push(Base { icac, icac_fabric, rcac_fabric, validity, clock_reliable, ..std });
                }
            }
            // one-off variations
            v.push(Base { icac, clock_reliable, cats: 3, ..std });
            v.push(Base { icac, clock_reliable, cats: 1, rcac_path1: true, icac_fabric: icac, ..std });
            v.push(Base { icac, clock_reliable, extra_ku: true, benign_ext: Some(Which::Noc), ..std });
            if tier == Tier::Thorough {
                v.push(Base { icac, clock_reliable, benign_ext: Some(Which::Rcac), icac_fabric: icac, ..std });
                if icac {
                    v.push(Base { icac, clock_reliable, benign_ext: Some(Which::Icac), icac_fabric: true, ..std });
                }
            }
        }
    }
    v
}

fn defects(all_sig_bits: bool) -> Vec<Defect> {
    use Defect::*;
    let mut v = vec![None];
    for w in [Which::Noc, Which::Icac, Which::Rcac] {
        if all_sig_bits {
            for i in 0..512 {
                v.push(SigBit(w, i));
            }
        } else {
            for i in [0, 31 * 8 + 7, 32 * 8, 63 * 8 + 7] {
                v.push(SigBit(w, i));
            }
        }
        v.extend([IssuerShorter(w), IssuerEmpty(w), IssuerLonger(w), IssuerReordered(w)]);
        v.extend([IssuerCaId(w), IssuerFabric(w), Akid(w), NotYetValid(w), Expired(w), NotYetValidByOne(w), ExpiredByOne(w), CriticalExt(w), CriticalExtInLaterElement(w), CriticalExtLaterInBlob(w)]);
        if w != Which::Noc {
            v.extend([Skid(w), CaNotCa(w), CaNoBasic(w), CaKuNoCertSign(w), CaNoKu(w)]);
        }
    }
    v.extend([IssuerKind, LeafIsCa, LeafNoBasic, LeafKuNoDigSig, LeafNoKu, LeafEkuNoServer, LeafEkuNoClient, LeafEkuLacksOne(0), LeafEkuLacksOne(1), LeafEkuLacksOne(2), LeafEkuLacksOne(3), LeafNoEku, RootPathLen0, NocNoNodeId, NocNoFabricId, NocFabricOther, IcacFabricOther, RcacFabricOther, Swapped, LeafAsAuthority, AuthorityAsLeaf, IcacIsRoot, WrongRoot, RootSelfSigBroken, NocKeyNotCsr, FabricExists]);
    v
}

fn entries() -> [Entry; 5] {
    [Entry::Verifier, Entry::AddNoc, Entry::UpdateNoc, Entry::CaseInitiatorPresents, Entry::CaseResponderPresents]
}

fn make_keys(seed: u64) -> (Keys, KeysH) {
    let c = nodes::crypto(SeededRng::new(seed));
    let k = Keys { root: certw::keypair(&c).unwrap(), root2: certw::keypair(&c).unwrap(), ica: certw::keypair(&c).unwrap(), node: certw::keypair(&c).unwrap() };
    let kh = KeysH { i: certw::keypair(&c).unwrap(), r: certw::keypair(&c).unwrap() };
    (k, kh)
}

/// Run one (base, defect, entry); `Ok(None)` = combination does not exist.
fn run_case(b: &Base, d: Defect, e: Entry) -> Result<Option<(bool, String)>, String> {
    let (k, kh) = make_keys(77);
    match e {
        Entry::Verifier => {
            if matches!(d, Defect::NocKeyNotCsr | Defect::FabricExists) {
                return Ok(None);
            }
            let c = nodes::crypto(SeededRng::new(5));
            let Some(ch) = build_chain(&c, &k, &k.node, R_NODE, b, d).map_err(|e| format!("{:?}", e.code()))? else {
                return Ok(None);
            };
            let r = entry_verifier(&c, &ch, b);
            Ok(Some((r.is_ok(), format!("{:?}", r))))
        }
        Entry::AddNoc | Entry::UpdateNoc => {
            let r = entry_install(&k, b, d, e == Entry::UpdateNoc, 6)?;
            Ok(r.map(|r| (r.is_ok(), format!("{:?}", r))))
        }
        Entry::CaseInitiatorPresents | Entry::CaseResponderPresents => {
            if matches!(d, Defect::NocKeyNotCsr | Defect::FabricExists) {
                return Ok(None);
            }
            entry_case(&k, &kh, b, d, if e == Entry::CaseInitiatorPresents { 0 } else { 1 }, 7)
        }
    }
}

fn label(b: &Base, d: Defect, e: Entry) -> Value {
    json!({"base": format!("{:?}", b), "defect": format!("{:?}", d), "entry": format!("{:?}", e)})
}

pub fn run_check(ctx: &Ctx) -> i32 {
    let all_bases = bases(ctx.tier);
    let all_defects = defects(false);
    if let Some(p) = &ctx.replay {
        let doc: Value = serde_json::from_str(&std::fs::read_to_string(p).expect("replay file")).expect("json");
        let r = &doc["replay"];
        std::env::set_var("MC_SHOW_PANICS", "1");
        let mut report = Report::new();
        let mut found = false;
        for b in bases(Tier::Thorough) {
            for d in defects(true).iter() {
                for e in entries() {
                    if label(&b, *d, e) == *r {
                        found = true;
                        match run_case(&b, *d, e) {
                            Err(m) => {
                                eprintln!("MACHINERY: {}", m);
                                return 2;
                            }
                            Ok(None) => println!("combination does not exist"),
                            Ok(Some((accepted, detail))) => {
                                println!("accepted={} {}", accepted, detail);
                                judge(&b, *d, e, accepted, &detail, &mut report);
                            }
                        }
                    }
                }
            }
        }
        if !found {
            eprintln!("MACHINERY: replay does not name a combination of the catalog");
            return 2;
        }
        return common::finish(ctx, report, Evidence::new("exploration"));
    }
    let mut combos = Vec::new();
    for b in all_bases.iter() {
        for d in all_defects.iter() {
            for e in entries() {
                combos.push((*b, *d, e));
            }
        }
    }
    if ctx.tier == Tier::Thorough {
        // every single bit of every signature
        for b in all_bases.iter() {
            for d in defects(true).iter().filter(|d| matches!(d, Defect::SigBit(..)) && !all_defects.contains(d)) {
                for e in entries() {
                    combos.push((*b, *d, e));
                }
            }
        }
    }
    let results: Vec<Result<Option<(bool, String)>, String>> = combos
        .par_iter()
        .map(|(b, d, e)| match common::catch(|| run_case(b, *d, *e)) {
            Ok(r) => r,
            Err(p) => Ok(Some((true, format!("PANIC {} {}", p.class(), p)))),
        })
        .collect();
    let mut report = Report::new();
    let (mut runs, mut judged, mut accepted_n, mut rejected_n, mut na) = (0u64, 0u64, 0u64, 0u64, 0u64);
    let mut unjudged: std::collections::BTreeMap<String, (u64, u64)> = Default::default();
    let mut per_entry: std::collections::BTreeMap<String, u64> = Default::default();
    let mut reject_codes: std::collections::BTreeSet<String> = Default::default();
    for ((b, d, e), r) in combos.iter().zip(results) {
        match r {
            Err(m) => {
                eprintln!("MACHINERY: {:?} {:?} {:?}: {}", b, d, e, m);
                return 2;
            }
            Ok(None) => na += 1,
            Ok(Some((accepted, detail))) => {
                runs += 1;
                *per_entry.entry(format!("{:?}", e)).or_default() += 1;
                if accepted {
                    accepted_n += 1;
                } else {
                    rejected_n += 1;
                    reject_codes.insert(detail.chars().take(40).collect());
                }
                if must_reject(b, *d, *e).is_some() {
                    judged += 1;
                } else {
                    let u = unjudged.entry(format!("{:?}@{:?}", d, e)).or_default();
                    if accepted {
                        u.0 += 1;
                    } else {
                        u.1 += 1;
                    }
                }
                judge(b, *d, *e, accepted, &detail, &mut report);
            }
        }
    }
    let mut ev = Evidence::new("exploration");
    ev.set("evaluations", json!(runs))
        .set("distinct_nontrivial", json!(reject_codes.len() as u64 + 1))
        .set("rule", json!("accepted at an entry point <=> the chain was generated with no defect (a predicate on the generator parameters); entry points: bare verifier, AddTrustedRootCertificate+CSRRequest+AddNOC, CSRRequest+UpdateNOC, CASE with the chain presented by the initiator / by the responder"))
        .set("inputs_enumerated", json!(runs))
        .set("bound", json!(format!("{} valid base chains x {} defects x 5 entry points ({} combinations do not exist)", all_bases.len(), all_defects.len(), na)))
        .set("exhaustive_within_bound", json!(true))
        .set("judged", json!(judged))
        .set("accepted", json!(accepted_n))
        .set("rejected", json!(rejected_n))
        .set("per_entry", json!(per_entry))
        .set("not_judged_accepted_rejected", json!(unjudged))
        .set("vacuity", json!({"distinct_rejection_outcomes": reject_codes.len(), "accepted": accepted_n, "rejected": rejected_n}))
        .set("samples", json!([label(&all_bases[0], Defect::None, Entry::Verifier), label(&all_bases[1], Defect::IssuerCaId(Which::Noc), Entry::CaseInitiatorPresents)]));
    ev.assume("the to-be-signed encoding is the repo's own Matter-TLV -> X.509 conversion (the same one the verifier uses); a defect in that conversion common to signing and verifying is C17's subject");
    ev.assume("name attributes are Matter-specific ids only (no text attributes); one defect per chain");
    if report.violations.is_empty() && (accepted_n == 0 || rejected_n == 0 || reject_codes.len() < 3) {
        eprintln!("MACHINERY: vacuous C19 run (accepted {}, rejected {})", accepted_n, rejected_n);
        return 2;
    }
    common::finish(ctx, report, ev)
}

fn judge(b: &Base, d: Defect, e: Entry, accepted: bool, detail: &str, report: &mut Report) {
    if detail.starts_with("PANIC") {
        report.violation(format!("C19:panic:{:?}:{:?}", e, d), format!("{:?} {:?} {:?}: {}", b, d, e, detail), label(b, d, e));
        return;
    }
    if detail.starts_with("HALF-OPEN") {
        report.violation(format!("C19:half-open-session:{:?}:{:?}", e, d), format!("{:?}: {}", b, detail), label(b, d, e));
        return;
    }
    match must_reject(b, d, e) {
        Some(true) if accepted => report.violation(format!("C19:invalid-chain-accepted:{:?}:{:?}", e, strip(d)), format!("{:?} with defect {:?} was accepted at {:?}: {}", b, d, e, detail), label(b, d, e)),
        Some(false) if !accepted => report.violation(format!("C19:valid-chain-rejected:{:?}:{:?}", e, strip(d)), format!("{:?} with {:?} (which leaves the chain valid) was rejected at {:?}: {}", b, d, e, detail), label(b, d, e)),
        _ => {}
    }
}

/// signature class of a defect (the bit index does not make a different finding)
fn strip(d: Defect) -> String {
    match d {
        Defect::SigBit(w, _) => format!("SigBit({:?})", w),
        d => format!("{:?}", d),
    }
}

/// The single-defect certificate catalog presented through a real CASE handshake, for C01's
/// credential dimension: (signature suffix, description, replay label) of every combination
/// whose outcome contradicts the reference predicate, plus the number of handshakes run.
pub fn case_catalog(tier: Tier) -> Result<(Vec<(String, String, Value)>, u64, u64), String> {
    let std = Base { icac: false, icac_fabric: false, rcac_fabric: true, cats: 0, validity: 0, rcac_path1: false, benign_ext: None, extra_ku: false, clock_reliable: true };
    let mut bs = vec![std, Base { icac: true, icac_fabric: true, cats: 2, ..std }];
    if tier == Tier::Thorough {
        bs.push(Base { icac: true, icac_fabric: false, ..std });
        bs.push(Base { icac: true, icac_fabric: true, rcac_fabric: false, validity: 1, ..std });
        bs.push(Base { validity: 1, cats: 3, ..std });
    }
    let mut combos = Vec::new();
    for b in bs {
        for d in defects(false) {
            for e in [Entry::CaseInitiatorPresents, Entry::CaseResponderPresents] {
                combos.push((b, d, e));
            }
        }
    }
    let results: Vec<Result<Option<(bool, String)>, String>> = combos
        .par_iter()
        .map(|(b, d, e)| match common::catch(|| run_case(b, *d, *e)) {
            Ok(r) => r,
            Err(p) => Ok(Some((true, format!("PANIC {} {}", p.class(), p)))),
        })
        .collect();
    let mut out = Vec::new();
    let (mut runs, mut sessions) = (0u64, 0u64);
    for ((b, d, e), r) in combos.iter().zip(results) {
        if let Some((accepted, detail)) = r? {
            runs += 1;
            if accepted {
                sessions += 1;
            }
            let mut rep = Report::new();
            judge(b, *d, *e, accepted, &detail, &mut rep);
            for (sig, what) in rep.classes() {
                out.push((sig, what, label(b, *d, *e)));
            }
        }
    }
    Ok((out, runs, sessions))
}

/// Replay one combination named by a label (used by C01's replay).
pub fn replay_label(r: &Value) -> Result<Vec<(String, String)>, String> {
    for b in bases(Tier::Thorough).into_iter().chain(case_catalog_bases()) {
        for d in defects(true) {
            for e in entries() {
                if label(&b, d, e) == *r {
                    let mut rep = Report::new();
                    if let Some((accepted, detail)) = run_case(&b, d, e)? {
                        println!("accepted={} {}", accepted, detail);
                        judge(&b, d, e, accepted, &detail, &mut rep);
                    }
                    return Ok(rep.classes());
                }
            }
        }
    }
    Err("label does not name a combination of the catalog".into())
}

fn case_catalog_bases() -> Vec<Base> {
    let std = Base { icac: false, icac_fabric: false, rcac_fabric: true, cats: 0, validity: 0, rcac_path1: false, benign_ext: None, extra_ku: false, clock_reliable: true };
    vec![std, Base { icac: true, icac_fabric: true, cats: 2, ..std }, Base { icac: true, icac_fabric: false, ..std }, Base { icac: true, icac_fabric: true, rcac_fabric: false, validity: 1, ..std }, Base { validity: 1, cats: 3, ..std }]
}
