//! C06 — every Interaction Model operation is mediated by the access check.
//!
//! A real device (`Matter` + `InteractionModel` + responder) over a fully parameterised,
//! instrumented data model; a client node with pre-established CASE (two fabrics) and PASE
//! sessions sends raw IM requests. Enumerated exhaustively within the catalogs: node compositions
//! x access-control configurations (privilege level x target shape) x requesters x operations
//! (read / write / invoke; every path of the catalog incl. wildcards, absent elements, global
//! attributes; lists of two paths; with / without / expired / mismatched timed request; fabric
//! filtered or not). The oracle is a reference written from the property text: the data returned,
//! the writes and invocations observed by the handlers, and the statuses of concrete paths.

use core::num::NonZeroU8;
use std::cell::RefCell;
use std::collections::BTreeMap;
use std::rc::Rc;

use embassy_futures::select::{select, select3};
use rayon::prelude::*;
use serde_json::{json, Value};

use rs_matter::acl::{AclEntry, AuthMode, Target};
use rs_matter::dm::clusters::net_comm::DummyNetworks;
use rs_matter::dm::{Access, Privilege, Quality};
use rs_matter::im::{InteractionModel, InteractionModelState};
use rs_matter::respond::Responder;
use rs_matter::transport::exchange::{Exchange, MatterBuffers};
use rs_matter::transport::network::NoNetwork;
use rs_matter::Matter;

use crate::common::imdrv::{self, Answer, AttrSpec, ClusterSpec, CmdSpec, EndpointSpec, Item, NodeSpec, Op, Path, TestDm, Val};
use crate::common::kv::RecKv;
use crate::common::nodes::{self, SessKind};
use crate::common::rng::SeededRng;
use crate::common::sim::{addr_of, Exec, Net, Owned};
use crate::common::{self, vclock, Ctx, Evidence, Report, Tier};

const NODE_D: u64 = 0xD0D0;
const NODE_A: u64 = 0xA0A0;
const NODE_A2: u64 = 0xA2A2;
const CL_A: u32 = 0xFFF1_FC01;
const CL_B: u32 = 0xFFF1_FC02;
const CL_Z: u32 = 0xFFF1_FC0F;
const PASSCODE: u32 = 20202021;

// attribute ids
const A_RV: u32 = 1;
const A_RA: u32 = 2;
const W_VO: u32 = 3;
const W_VM: u32 = 4;
const W_VA: u32 = 5;
const T_VO: u32 = 6;
const WO_M: u32 = 7;
const F_LIST: u32 = 8;
const A_ABSENT: u32 = 0x99;
const ATTR_LIST: u32 = 0xFFFB;
// command ids
const C_O: u32 = 1;
const C_M: u32 = 2;
const C_A: u32 = 3;
const C_T: u32 = 4;
const C_F: u32 = 5;
const C_ABSENT: u32 = 0x99;

fn rw(need_read: Access, need_write: Access) -> Access {
    Access::READ | Access::WRITE | need_read | need_write
}

fn cluster_a() -> ClusterSpec {
    ClusterSpec {
        id: CL_A,
        attrs: vec![
            AttrSpec { id: A_RV, access: Access::RV, quality: Quality::NONE, value: Val::U32(0x1111) },
            AttrSpec { id: A_RA, access: Access::RA, quality: Quality::NONE, value: Val::U32(0x2222) },
            AttrSpec { id: W_VO, access: rw(Access::NEED_VIEW, Access::NEED_OPERATE), quality: Quality::NONE, value: Val::U32(0x3333) },
            AttrSpec { id: W_VM, access: Access::RWVM, quality: Quality::NONE, value: Val::U32(0x4444) },
            AttrSpec { id: W_VA, access: Access::RWVA, quality: Quality::NONE, value: Val::U32(0x5555) },
            AttrSpec { id: T_VO, access: rw(Access::NEED_VIEW, Access::NEED_OPERATE) | Access::TIMED_ONLY, quality: Quality::NONE, value: Val::U32(0x6666) },
            AttrSpec { id: WO_M, access: Access::WM, quality: Quality::NONE, value: Val::U32(0x7777) },
            AttrSpec { id: F_LIST, access: Access::RWFVM, quality: Quality::ARRAY, value: Val::FabricList(vec![(1, 0xF1), (2, 0xF2), (1, 0xF3)]) },
        ],
        cmds: vec![
            CmdSpec { id: C_O, access: Access::WO, resp: Some(0x11) },
            CmdSpec { id: C_M, access: Access::WM, resp: None },
            CmdSpec { id: C_A, access: Access::WA, resp: Some(0x13) },
            CmdSpec { id: C_T, access: Access::WO | Access::TIMED_ONLY, resp: None },
            CmdSpec { id: C_F, access: Access::WO | Access::FAB_SCOPED, resp: None },
        ],
        events: vec![],
    }
}

fn cluster_b() -> ClusterSpec {
    ClusterSpec {
        id: CL_B,
        attrs: vec![AttrSpec { id: A_RV, access: Access::RV, quality: Quality::NONE, value: Val::U32(0xB111) }, AttrSpec { id: W_VM, access: Access::RWVM, quality: Quality::NONE, value: Val::U32(0xB444) }],
        cmds: vec![CmdSpec { id: C_O, access: Access::WO, resp: None }],
        events: vec![],
    }
}

fn node_specs() -> Vec<(&'static str, NodeSpec)> {
    let full = NodeSpec {
        endpoints: vec![
            EndpointSpec { id: 0, device_type: 0x16, clusters: vec![cluster_a()] },
            EndpointSpec { id: 1, device_type: 0x100, clusters: vec![cluster_a(), cluster_b()] },
            EndpointSpec { id: 2, device_type: 0x101, clusters: vec![cluster_b()] },
        ],
    };
    let sparse = NodeSpec {
        endpoints: vec![EndpointSpec { id: 0, device_type: 0x16, clusters: vec![cluster_b()] }, EndpointSpec { id: 2, device_type: 0x101, clusters: vec![cluster_b(), cluster_a(), ClusterSpec { id: CL_Z, attrs: vec![], cmds: vec![], events: vec![] }] }],
    };
    vec![("full", full), ("sparse", sparse)]
}

#[derive(Clone, Copy, Debug, PartialEq, Eq, Hash)]
enum Tgt {
    All,
    Ep1,
    ClusterA,
    Ep1ClusterA,
    Ep2OrClusterB,
}

#[derive(Clone, Copy, Debug, PartialEq, Eq, Hash)]
struct AclCfg {
    /// 0 none, 1 view, 2 operate, 3 manage, 4 admin
    level: u8,
    tgt: Tgt,
}

#[derive(Clone, Copy, Debug, PartialEq, Eq, Hash)]
enum Requester {
    /// CASE session on fabric 1, subject of the ACL entry under test
    Case1,
    /// PASE session: no fabric, implicit administrator
    Pase,
    /// CASE session on fabric 2 (which grants its own node View on everything)
    Case2,
}

#[derive(Clone, Copy, Debug, PartialEq, Eq, Hash)]
enum Timed {
    No,
    Yes,
    /// the window (100 ms) expired before the request
    Expired,
    /// the request says timed, no timed request preceded it
    FlagOnly,
    /// a timed request preceded it, the request does not say timed
    WindowOnly,
}

#[derive(Clone, Debug, PartialEq, Eq, Hash)]
enum Operation {
    Read { paths: Vec<Path>, fabric_filtered: bool },
    Write { paths: Vec<Path>, timed: Timed },
    Invoke { paths: Vec<Path>, timed: Timed },
    /// one write carried by several WriteRequest messages on one exchange; every message has its own
    /// TimedRequest flag and its own arrival time relative to the window
    ChunkedWrite { chunks: Vec<(Vec<Path>, Timed)> },
}

/// Window of a chunked write and, per chunk, (delay before it, its TimedRequest flag).
fn chunk_params(chunks: &[(Vec<Path>, Timed)]) -> (Option<u16>, Vec<(u64, bool)>) {
    let window = if chunks.iter().any(|c| c.1 == Timed::Expired) {
        Some(300u16)
    } else if chunks.iter().any(|c| matches!(c.1, Timed::Yes | Timed::WindowOnly)) {
        Some(5000)
    } else {
        None
    };
    let per = chunks
        .iter()
        .map(|c| match c.1 {
            Timed::No => (0, false),
            Timed::Yes => (0, true),
            Timed::Expired => (600, true),
            Timed::FlagOnly => (0, true),
            Timed::WindowOnly => (0, false),
        })
        .collect();
    (window, per)
}

#[derive(Clone, Debug)]
struct Spec {
    node: usize,
    acl: AclCfg,
    req: Requester,
    op: Operation,
}

fn spec_json(s: &Spec) -> Value {
    json!({"node": s.node, "acl": format!("{:?}", s.acl), "requester": format!("{:?}", s.req), "op": format!("{:?}", s.op)})
}

// ------------------------------------------------------------------------------------ reference

fn level_of(acl: &AclCfg, req: Requester, ep: u16, cl: u32) -> u8 {
    match req {
        Requester::Pase => 4,
        Requester::Case2 => 1,
        Requester::Case1 => {
            let hit = match acl.tgt {
                Tgt::All => true,
                Tgt::Ep1 => ep == 1,
                Tgt::ClusterA => cl == CL_A,
                Tgt::Ep1ClusterA => ep == 1 && cl == CL_A,
                Tgt::Ep2OrClusterB => ep == 2 || cl == CL_B,
            };
            if hit {
                acl.level
            } else {
                0
            }
        }
    }
}

fn required_level(access: Access, write: bool) -> Option<u8> {
    let mask = if write { Access::WRITE_PRIVILEGE_MASK } else { Access::READ_PRIVILEGE_MASK };
    let need = access & mask;
    if need.contains(Access::NEED_VIEW) {
        Some(1)
    } else if need.contains(Access::NEED_OPERATE) {
        Some(2)
    } else if need.contains(Access::NEED_MANAGE) {
        Some(3)
    } else if need.contains(Access::NEED_ADMIN) {
        Some(4)
    } else {
        None
    }
}

const GLOBAL_ATTRS: [u32; 6] = [0xFFF8, 0xFFF9, 0xFFFA, 0xFFFB, 0xFFFC, 0xFFFD];

/// every (endpoint, cluster, attribute, access) of the node incl. the global attributes
fn attr_leaves(n: &NodeSpec) -> Vec<(u16, u32, u32, Access)> {
    let mut v = Vec::new();
    for e in &n.endpoints {
        for c in &e.clusters {
            for a in &c.attrs {
                v.push((e.id, c.id, a.id, a.access));
            }
            for g in GLOBAL_ATTRS {
                v.push((e.id, c.id, g, Access::RV));
            }
        }
    }
    v
}

fn matches(p: &Path, ep: u16, cl: u32, leaf: u32) -> bool {
    p.ep.map(|x| x == ep).unwrap_or(true) && p.cl.map(|x| x == cl).unwrap_or(true) && p.leaf.map(|x| x == leaf).unwrap_or(true)
}

fn is_wildcard(p: &Path) -> bool {
    p.ep.is_none() || p.cl.is_none() || p.leaf.is_none()
}

/// Which status a concrete path that yields nothing may carry.
fn absent_statuses(n: &NodeSpec, p: &Path, leaf_kind_unsupported: u16) -> Vec<u16> {
    let ep = n.endpoints.iter().find(|e| Some(e.id) == p.ep);
    match ep {
        None => vec![0x7f],
        Some(e) => match e.clusters.iter().find(|c| Some(c.id) == p.cl) {
            None => vec![0xc3],
            Some(_) => vec![leaf_kind_unsupported],
        },
    }
}

// ------------------------------------------------------------------------------------ world

struct World {
    exec: Exec,
    net: Net,
    dm: TestDm,
    answer: Rc<RefCell<Option<Answer>>>,
    /// answers to the chunks of a chunked write, each with the length of the handler log at that moment
    chunk_answers: Rc<RefCell<Vec<(Answer, usize)>>>,
    _keep: Vec<Box<dyn std::any::Any>>,
    d: Owned<Matter<'static>>,
    a: Owned<Matter<'static>>,
}

fn install_acl(m: &Matter<'_>, fab: u8, subject: u64, privilege: Privilege, targets: &[Target]) {
    let mut e = AclEntry::new(None, privilege, AuthMode::Case);
    e.add_subject(subject).unwrap();
    for t in targets {
        e.add_target(t.clone()).unwrap();
    }
    m.with_state(|s| s.fabrics.fabric_mut(NonZeroU8::new(fab).unwrap()).unwrap().acl_add(e).unwrap());
}

fn build(spec: &Spec, node: &NodeSpec) -> World {
    vclock::reset(21_000_000_000);
    let net = Net::new(2);
    let d = Owned::from_box(nodes::new_matter());
    let a = Owned::from_box(nodes::new_matter());
    let (md, ma) = (d.get(), a.get());
    // two fabrics at each end
    for m in [md, ma] {
        nodes::add_fabric(m);
        nodes::add_fabric(m);
    }
    let keys: Vec<_> = (0..6u8).map(|i| nodes::key(0x10 + i)).collect();
    nodes::install_session(ma, SeededRng::new(1), SessKind::Case, NODE_A, NODE_D, 1, 2, addr_of(1), &keys[1], &keys[0]).unwrap();
    nodes::install_session(md, SeededRng::new(2), SessKind::Case, NODE_D, NODE_A, 2, 1, addr_of(0), &keys[0], &keys[1]).unwrap();
    nodes::install_session(ma, SeededRng::new(3), SessKind::Pase, NODE_A, NODE_D, 3, 4, addr_of(1), &keys[3], &keys[2]).unwrap();
    nodes::install_session(md, SeededRng::new(4), SessKind::Pase, NODE_D, NODE_A, 4, 3, addr_of(0), &keys[2], &keys[3]).unwrap();
    nodes::install_session_fab(ma, SeededRng::new(5), 2, NODE_A2, NODE_D, 5, 6, addr_of(1), &keys[5], &keys[4]).unwrap();
    nodes::install_session_fab(md, SeededRng::new(6), 2, NODE_D, NODE_A2, 6, 5, addr_of(0), &keys[4], &keys[5]).unwrap();
    // access control
    if spec.acl.level > 0 {
        let p = match spec.acl.level {
            1 => Privilege::VIEW,
            2 => Privilege::OPERATE,
            3 => Privilege::MANAGE,
            _ => Privilege::ADMIN,
        };
        let t = |ep: Option<u16>, cl: Option<u32>| Target::new(ep, cl, None);
        let targets: Vec<Target> = match spec.acl.tgt {
            Tgt::All => vec![],
            Tgt::Ep1 => vec![t(Some(1), None)],
            Tgt::ClusterA => vec![t(None, Some(CL_A))],
            Tgt::Ep1ClusterA => vec![t(Some(1), Some(CL_A))],
            Tgt::Ep2OrClusterB => vec![t(Some(2), None), t(None, Some(CL_B))],
        };
        install_acl(md, 1, NODE_A, p, &targets);
    }
    install_acl(md, 2, NODE_A2, Privilege::VIEW, &[]);

    let dm = TestDm::new(node.clone());
    let answer: Rc<RefCell<Option<Answer>>> = Rc::new(RefCell::new(None));
    let chunk_answers: Rc<RefCell<Vec<(Answer, usize)>>> = Rc::new(RefCell::new(Vec::new()));
    let mut exec = Exec::new();
    let buffers: Owned<MatterBuffers> = Owned::new(MatterBuffers::new());
    let state = Owned::new(InteractionModelState::<DummyNetworks, 3, 1024>::new(DummyNetworks));
    {
        let (send, recv) = (net.end(1), net.end(1));
        let dm2 = dm.clone();
        let (b, st) = (buffers.get(), state.get());
        exec.spawn("D", async move {
            let c = nodes::crypto(SeededRng::new(7));
            st.suppress_start_up_event();
            let kv = md.kv(RecKv::new());
            let im = InteractionModel::new(md, &c, b, dm2, &kv, st);
            let responder = Responder::new_default(&im);
            let _ = select3(md.run(&c, send, recv, NoNetwork), responder.run::<2>(), im.run()).await;
        });
    }
    {
        let (send, recv) = (net.end(0), net.end(0));
        let ans = answer.clone();
        let (cans, dm3) = (chunk_answers.clone(), dm.clone());
        let op = spec.op.clone();
        let req = spec.req;
        exec.spawn("A", async move {
            let c = nodes::crypto(SeededRng::new(8));
            let client = async {
                let ex = match req {
                    Requester::Case1 => Exchange::initiate(ma, &c, NonZeroU8::new(1).unwrap(), NODE_D).await,
                    Requester::Case2 => Exchange::initiate(ma, &c, NonZeroU8::new(2).unwrap(), NODE_D).await,
                    Requester::Pase => Exchange::initiate_pase(ma, &c, addr_of(1), PASSCODE).await,
                };
                let r = match ex {
                    Err(e) => Answer { error: Some(format!("initiate: {:?}", e.code())), ..Default::default() },
                    Ok(mut ex) => match &op {
                        Operation::Read { paths, fabric_filtered } => imdrv::do_read(&mut ex, &imdrv::read_request(paths, *fabric_filtered, &[])).await,
                        Operation::Write { paths, timed } => {
                            let items: Vec<(Path, Option<u32>, u32)> = paths.iter().enumerate().map(|(k, p)| (*p, None, 0xAB00 + k as u32)).collect();
                            let (t, delay, flag) = timed_params(*timed);
                            imdrv::do_request(&mut ex, t, delay, imdrv::OP_WRITE_REQ, &imdrv::write_request(&items, flag)).await
                        }
                        Operation::Invoke { paths, timed } => {
                            let (t, delay, flag) = timed_params(*timed);
                            imdrv::do_request(&mut ex, t, delay, imdrv::OP_INVOKE_REQ, &imdrv::invoke_request(paths, flag)).await
                        }
                        Operation::ChunkedWrite { chunks } => {
                            let (window, per) = chunk_params(chunks);
                            let n = chunks.len();
                            let msgs: Vec<(u64, Vec<u8>)> = chunks
                                .iter()
                                .zip(&per)
                                .enumerate()
                                .map(|(i, ((paths, _), (delay, flag)))| {
                                    let items: Vec<(Path, Option<u32>, u32)> = paths.iter().enumerate().map(|(k, p)| (*p, None, 0xAC00 + (i * 16 + k) as u32)).collect();
                                    (*delay, imdrv::write_request_chunk(&items, *flag, i + 1 < n))
                                })
                                .collect();
                            let err = imdrv::do_write_chunks(&mut ex, window, &msgs, |a| {
                                let l = dm3.log.borrow().len();
                                cans.borrow_mut().push((a, l));
                            })
                            .await;
                            Answer { error: err, ..Default::default() }
                        }
                    },
                };
                *ans.borrow_mut() = Some(r);
                core::future::pending::<()>().await
            };
            let _ = select(ma.run(&c, send, recv, NoNetwork), client).await;
        });
    }
    World { exec, net, dm, answer, chunk_answers, _keep: vec![Box::new(buffers), Box::new(state)], d, a }
}

fn timed_params(t: Timed) -> (Option<u16>, u64, bool) {
    match t {
        Timed::No => (None, 0, false),
        Timed::Yes => (Some(5000), 0, true),
        Timed::Expired => (Some(100), 400, true),
        Timed::FlagOnly => (None, 0, true),
        Timed::WindowOnly => (Some(5000), 0, false),
    }
}

type Chunks = Vec<(Answer, usize)>;

fn run(spec: &Spec, node: &NodeSpec) -> Result<(Answer, Vec<Op>, Chunks), String> {
    let mut w = build(spec, node);
    w.exec.run()?;
    for _ in 0..4000 {
        if w.answer.borrow().is_some() && w.net.inflight_len() == 0 {
            break;
        }
        if w.net.inflight_len() > 0 {
            vclock::advance_by_ms(1);
            w.net.deliver(0, false);
        } else if let Some(t) = vclock::next_deadline() {
            if t > 21_000_000_000 + 60_000_000 {
                break;
            }
            vclock::advance_to(t);
        } else {
            break;
        }
        w.exec.run()?;
    }
    let ans = w.answer.borrow().clone().ok_or("the client never got an answer")?;
    let log = w.dm.log.borrow().clone();
    let _ = (&w.d, &w.a);
    let chunks = w.chunk_answers.borrow().clone();
    Ok((ans, log, chunks))
}

// ------------------------------------------------------------------------------------ oracle

fn judge(spec: &Spec, node: &NodeSpec, ans: &Answer, log: &[Op], chunk_answers: &Chunks) -> Vec<(String, String)> {
    let mut v = Vec::new();
    if let Operation::ChunkedWrite { chunks } = &spec.op {
        // every message of the write is judged as a write of its own: with the window and flag that hold for
        // it when it arrives, against the handler calls made between the previous answer and its answer
        if let Some(e) = &ans.error {
            v.push(("C06:chunked-write:interaction-failed".into(), e.to_string()));
        }
        let mut from = 0usize;
        let mut refused = false;
        for (i, (paths, timed)) in chunks.iter().enumerate() {
            let Some((a, upto)) = chunk_answers.get(i) else {
                if !refused && ans.error.is_none() {
                    v.push(("C06:chunked-write:message-not-answered".into(), format!("message {} of {} got no answer", i + 1, chunks.len())));
                }
                break;
            };
            if refused {
                v.push(("C06:chunked-write:continued-after-a-refusal".into(), format!("message {} answered after a status response had ended the write", i + 1)));
            }
            let sub = Spec { node: spec.node, acl: spec.acl, req: spec.req, op: Operation::Write { paths: paths.clone(), timed: *timed } };
            for (sig, what) in judge(&sub, node, a, &log[from.min(log.len())..(*upto).min(log.len())], &Vec::new()) {
                v.push((sig.replacen("C06:write:", "C06:chunked-write:", 1), format!("message {} of {}: {}", i + 1, chunks.len(), what)));
            }
            if a.status_response.is_some() {
                refused = true;
            }
            from = *upto;
        }
        if from < log.len() {
            v.push(("C06:chunked-write:handler-called-after-the-last-answer".into(), format!("{:x?}", &log[from..])));
        }
        return v;
    }
    let fab = match spec.req {
        Requester::Case1 => 1u8,
        Requester::Case2 => 2,
        Requester::Pase => 0,
    };
    if let Some(e) = &ans.error {
        v.push(("C06:interaction-failed".into(), format!("{}", e)));
        return v;
    }
    match &spec.op {
        Operation::Read { paths, fabric_filtered } => {
            // the IM layer refuses a concrete non-global attribute under a wildcard cluster as a whole
            let invalid = paths.iter().any(|p| p.cl.is_none() && p.leaf.map(|a| !GLOBAL_ATTRS.contains(&a)).unwrap_or(false));
            if invalid {
                if ans.status_response != Some(0x80) || !ans.items.is_empty() || !log.is_empty() {
                    v.push(("C06:read:invalid-wildcard-path-not-refused".into(), format!("status response {:?}, {} items, {} handler calls", ans.status_response, ans.items.len(), log.len())));
                }
                return v;
            }
            if let Some(s) = ans.status_response {
                v.push(("C06:read:answered-with-a-status-response".into(), format!("status {:#x}", s)));
                return v;
            }
            let leaves = attr_leaves(node);
            let mut expected_data: Vec<(u16, u32, u32)> = Vec::new();
            let mut expected_status: Vec<(Path, Vec<u16>)> = Vec::new();
            for p in paths {
                let mut any = false;
                for (ep, cl, attr, access) in &leaves {
                    if !matches(p, *ep, *cl, *attr) {
                        continue;
                    }
                    any = true;
                    let lvl = level_of(&spec.acl, spec.req, *ep, *cl);
                    let permitted = access.contains(Access::READ) && required_level(*access, false).map(|r| lvl >= r).unwrap_or(false);
                    if permitted {
                        expected_data.push((*ep, *cl, *attr));
                    } else if !is_wildcard(p) {
                        // every applicable reason is a corresponding status
                        let mut st = Vec::new();
                        if !access.contains(Access::READ) {
                            st.push(0x8f);
                        }
                        if !required_level(*access, false).map(|r| lvl >= r).unwrap_or(false) {
                            st.push(0x7e);
                        }
                        expected_status.push((*p, st));
                    }
                }
                if !any && !is_wildcard(p) {
                    let mut st = absent_statuses(node, p, 0x86);
                    // a requester without any privilege on the target may be told "no access" instead
                    if level_of(&spec.acl, spec.req, p.ep.unwrap(), p.cl.unwrap()) == 0 {
                        st.push(0x7e);
                    }
                    expected_status.push((*p, st));
                }
            }
            // data
            let mut got_data: Vec<(u16, u32, u32)> = Vec::new();
            for it in &ans.items {
                match it {
                    Item::Data { ep, cl, attr, value, list_index, .. } => {
                        // list attributes may arrive as an empty list followed by appended items
                        if list_index.is_some() {
                            continue;
                        }
                        got_data.push((*ep, *cl, *attr));
                        if let Some(s) = node.attr(*ep, *cl, *attr) {
                            if let Val::U32(x) = s.value {
                                let val = u32_of(value);
                                if val != Some(x) {
                                    v.push(("C06:read:wrong-value".into(), format!("{}/{:#x}/{:#x}: {:?} instead of {:#x}", ep, cl, attr, val, x)));
                                }
                            }
                        }
                    }
                    Item::Status { .. } => {}
                    _ => {}
                }
            }
            let mut gd = got_data.clone();
            let mut ed = expected_data.clone();
            gd.sort();
            ed.sort();
            for x in &gd {
                if !ed.contains(x) {
                    let exists = leaves.iter().any(|l| (l.0, l.1, l.2) == *x);
                    v.push((if exists { "C06:read:data-returned-without-permission".to_string() } else { "C06:read:data-for-a-nonexistent-element".to_string() }, format!("{}/{:#x}/{:#x} returned to {:?} under {:?}", x.0, x.1, x.2, spec.req, spec.acl)));
                }
            }
            if gd != ed && gd.iter().all(|x| ed.contains(x)) {
                let missing: Vec<_> = ed.iter().filter(|x| count(&gd, x) < count(&ed, x)).collect();
                let extra: Vec<_> = gd.iter().filter(|x| count(&gd, x) > count(&ed, x)).collect();
                if !missing.is_empty() {
                    v.push(("C06:read:permitted-data-missing".into(), format!("missing {:?} (expected {} values, got {})", &missing[..missing.len().min(4)], ed.len(), gd.len())));
                }
                if !extra.is_empty() {
                    v.push(("C06:read:data-returned-more-often-than-requested".into(), format!("{:?}", &extra[..extra.len().min(4)])));
                }
            }
            // statuses of concrete paths
            let got_status: Vec<(Path, u16)> = ans.items.iter().filter_map(|it| if let Item::Status { ep, cl, leaf, status } = it { Some((Path::new(*ep, *cl, *leaf), *status)) } else { None }).collect();
            let mut remaining = got_status.clone();
            for (p, allowed) in &expected_status {
                match remaining.iter().position(|(gp, st)| gp == p && allowed.contains(st)) {
                    Some(i) => {
                        remaining.remove(i);
                    }
                    None => v.push(("C06:read:concrete-path-without-the-corresponding-status".into(), format!("path {:?}: expected one of {:x?}, answer statuses {:x?}", p, allowed, got_status))),
                }
            }
            if !remaining.is_empty() {
                v.push(("C06:read:unexpected-status".into(), format!("{:x?} (wildcard paths must omit silently)", remaining)));
            }
            // what the handlers saw
            for op in log {
                if let Op::Read { ep, cl, attr, fab_idx, fab_filter, .. } = op {
                    if !expected_data.contains(&(*ep, *cl, *attr)) {
                        v.push(("C06:read:handler-consulted-for-an-element-that-is-not-permitted".into(), format!("{}/{:#x}/{:#x}", ep, cl, attr)));
                    }
                    if *fab_idx != fab || *fab_filter != *fabric_filtered {
                        v.push(("C06:read:handler-got-the-wrong-fabric-context".into(), format!("fabric index {} (requester's: {}), fabric filter {} (requested: {})", fab_idx, fab, fab_filter, fabric_filtered)));
                    }
                } else {
                    v.push(("C06:read:caused-a-write-or-an-invocation".into(), format!("{:?}", op)));
                }
            }
        }
        Operation::ChunkedWrite { .. } => unreachable!(),
        Operation::Write { paths, timed } | Operation::Invoke { paths, timed } => {
            let write = matches!(spec.op, Operation::Write { .. });
            let kind = if write { "write" } else { "invoke" };
            // whole-request outcomes of the timed protocol
            let whole = match timed {
                Timed::FlagOnly | Timed::WindowOnly => Some(0xc9u16),
                Timed::Expired => Some(0x94),
                _ => None,
            };
            if let Some(code) = whole {
                if ans.status_response != Some(code) || !log.is_empty() {
                    v.push((format!("C06:{}:timed-protocol-violation-not-refused:{:?}", kind, timed), format!("status response {:x?} (expected {:#x}), handler calls {:?}", ans.status_response, code, log)));
                }
                return v;
            }
            if let Some(s) = ans.status_response {
                v.push((format!("C06:{}:answered-with-a-status-response", kind), format!("status {:#x}", s)));
                return v;
            }
            let timed_active = *timed == Timed::Yes;
            let mut expected_effects: Vec<(u16, u32, u32)> = Vec::new();
            let mut expected_status: Vec<(Path, Vec<u16>)> = Vec::new();
            for (k, p) in paths.iter().enumerate() {
                let _ = k;
                let mut any = false;
                for e in &node.endpoints {
                    for c in &e.clusters {
                        let leaves: Vec<(u32, Access)> = if write { c.attrs.iter().map(|a| (a.id, a.access)).chain(GLOBAL_ATTRS.iter().map(|g| (*g, Access::RV))).collect() } else { c.cmds.iter().map(|x| (x.id, x.access)).collect() };
                        for (id, access) in leaves {
                            if !matches(p, e.id, c.id, id) {
                                continue;
                            }
                            any = true;
                            let lvl = level_of(&spec.acl, spec.req, e.id, c.id);
                            let privileged = required_level(access, true).map(|r| lvl >= r).unwrap_or(false);
                            let writable = access.contains(Access::WRITE);
                            let timed_ok = !access.contains(Access::TIMED_ONLY) || timed_active;
                            // (the property speaks of fabric-scoped commands only)
                            let fabric_ok = write || !(access.contains(Access::FAB_SCOPED) && fab == 0);
                            if writable && privileged && timed_ok && fabric_ok {
                                expected_effects.push((e.id, c.id, id));
                                if !is_wildcard(p) {
                                    expected_status.push((*p, vec![0]));
                                }
                            } else if !is_wildcard(p) {
                                // every applicable reason is a corresponding status
                                let mut st = Vec::new();
                                if !writable {
                                    st.push(0x88);
                                }
                                if !privileged || !fabric_ok {
                                    st.push(0x7e);
                                }
                                if !timed_ok {
                                    st.push(0xc6);
                                }
                                expected_status.push((*p, st));
                            }
                        }
                    }
                }
                if !any && !is_wildcard(p) {
                    let mut st = absent_statuses(node, p, if write { 0x86 } else { 0x81 });
                    if level_of(&spec.acl, spec.req, p.ep.unwrap(), p.cl.unwrap()) == 0 {
                        st.push(0x7e);
                    }
                    expected_status.push((*p, st));
                }
            }
            // effects observed by the handlers
            let effects: Vec<(u16, u32, u32)> = log
                .iter()
                .filter_map(|op| match op {
                    Op::Write { ep, cl, attr, .. } if write => Some((*ep, *cl, *attr)),
                    Op::Invoke { ep, cl, cmd, .. } if !write => Some((*ep, *cl, *cmd)),
                    _ => None,
                })
                .collect();
            for op in log {
                match op {
                    Op::Write { fab_idx, .. } | Op::Invoke { fab_idx, .. } => {
                        if *fab_idx != fab {
                            v.push((format!("C06:{}:handler-got-the-wrong-fabric-context", kind), format!("{:?}, requester's fabric {}", op, fab)));
                        }
                    }
                    Op::Read { .. } => {}
                }
            }
            let (mut ge, mut ee) = (effects.clone(), expected_effects.clone());
            ge.sort();
            ee.sort();
            for x in &ge {
                if count(&ge, x) > count(&ee, x) {
                    v.push((format!("C06:{}:acted-without-permission", kind), format!("{}/{:#x}/{:#x} reached its handler for {:?} under {:?} (timed {:?}); permitted set {:x?}", x.0, x.1, x.2, spec.req, spec.acl, timed, ee)));
                }
            }
            for x in &ee {
                if count(&ge, x) < count(&ee, x) {
                    v.push((format!("C06:{}:permitted-operation-not-carried-out", kind), format!("{}/{:#x}/{:#x} did not reach its handler; handler calls {:x?}", x.0, x.1, x.2, ge)));
                }
            }
            // statuses
            let mut got_status: Vec<(Path, u16)> = Vec::new();
            for it in &ans.items {
                match it {
                    Item::Status { ep, cl, leaf, status } => got_status.push((Path::new(*ep, *cl, *leaf), *status)),
                    // a command response stands for the success of the command that declares it
                    Item::CmdData { ep, cl, cmd, .. } => {
                        let req_cmd = node.endpoints.iter().find(|e| e.id == *ep).and_then(|e| e.clusters.iter().find(|c| c.id == *cl)).and_then(|c| c.cmds.iter().find(|x| x.resp == Some(*cmd))).map(|x| x.id);
                        got_status.push((Path::new(Some(*ep), Some(*cl), req_cmd), 0));
                    }
                    _ => {}
                }
            }
            let mut remaining = got_status.clone();
            for (p, allowed) in &expected_status {
                // commands without a response and writes answer with a status; wildcard-expanded statuses carry concrete paths
                match remaining.iter().position(|(gp, st)| gp == p && allowed.contains(st)) {
                    Some(i) => {
                        remaining.remove(i);
                    }
                    None => v.push((format!("C06:{}:concrete-path-without-the-corresponding-status", kind), format!("path {:?}: expected one of {:x?}, answer {:x?}", p, allowed, got_status))),
                }
            }
            // statuses for wildcard expansions may only be successes of permitted leaves
            for (p, st) in remaining {
                let concrete = (p.ep, p.cl, p.leaf);
                let ok = *&st == 0 && matches!(concrete, (Some(e), Some(c), Some(l)) if expected_effects.contains(&(e, c, l)));
                if !ok {
                    v.push((format!("C06:{}:unexpected-status", kind), format!("{:?} -> {:#x}", p, st)));
                }
            }
        }
    }
    v
}

fn count<T: PartialEq>(v: &[T], x: &T) -> usize {
    v.iter().filter(|y| *y == x).count()
}

fn u32_of(v: &[u8]) -> Option<u32> {
    // [value type, raw bytes...]
    match v.first()? {
        4 => Some(*v.get(1)? as u32),
        5 => Some(u16::from_le_bytes([*v.get(1)?, *v.get(2)?]) as u32),
        6 => Some(u32::from_le_bytes([*v.get(1)?, *v.get(2)?, *v.get(3)?, *v.get(4)?])),
        _ => None,
    }
}

// ------------------------------------------------------------------------------------ catalogs

fn operations(tier: Tier) -> Vec<Operation> {
    let mut ops = Vec::new();
    let eps = [None, Some(0u16), Some(1), Some(2), Some(9)];
    let cls = [None, Some(CL_A), Some(CL_B), Some(CL_Z)];
    let attrs = [None, Some(A_RV), Some(A_RA), Some(W_VA), Some(WO_M), Some(F_LIST), Some(ATTR_LIST), Some(A_ABSENT)];
    for ep in eps {
        for cl in cls {
            for at in attrs {
                for ff in [true, false] {
                    if !ff && !(at == Some(F_LIST) || at.is_none()) {
                        continue;
                    }
                    ops.push(Operation::Read { paths: vec![Path::new(ep, cl, at)], fabric_filtered: ff });
                }
            }
        }
    }
    // lists of two paths: repeats, wildcard + concrete, absent + present, in both orders
    let pairs = [
        (Path::new(Some(1), Some(CL_A), Some(A_RV)), Path::new(Some(1), Some(CL_A), Some(A_RV))),
        (Path::new(None, Some(CL_A), Some(A_RV)), Path::new(Some(1), Some(CL_A), Some(A_RV))),
        (Path::new(Some(1), Some(CL_A), Some(A_RA)), Path::new(None, None, None)),
        (Path::new(Some(9), Some(CL_A), Some(A_RV)), Path::new(Some(2), Some(CL_B), None)),
        (Path::new(Some(1), None, None), Path::new(None, Some(CL_B), None)),
        (Path::new(Some(0), Some(CL_A), Some(A_ABSENT)), Path::new(Some(0), Some(CL_A), Some(A_RA))),
    ];
    for (a, b) in pairs {
        ops.push(Operation::Read { paths: vec![a, b], fabric_filtered: true });
        ops.push(Operation::Read { paths: vec![b, a], fabric_filtered: true });
    }
    let timeds = [Timed::No, Timed::Yes, Timed::Expired, Timed::FlagOnly, Timed::WindowOnly];
    let weps = [Some(0u16), Some(1), Some(2), Some(9), None];
    let wcls = [Some(CL_A), Some(CL_B), Some(CL_Z)];
    for ep in weps {
        for cl in wcls {
            for at in [W_VO, W_VM, W_VA, T_VO, A_RV, WO_M, F_LIST, A_ABSENT, ATTR_LIST] {
                for t in timeds {
                    if tier == Tier::Quick && !matches!(t, Timed::No | Timed::Yes) && !(at == T_VO || at == W_VO) {
                        continue;
                    }
                    ops.push(Operation::Write { paths: vec![Path::new(ep, cl, Some(at))], timed: t });
                }
            }
            for cmd in [C_O, C_M, C_A, C_T, C_F, C_ABSENT] {
                for t in timeds {
                    if tier == Tier::Quick && !matches!(t, Timed::No | Timed::Yes) && !(cmd == C_T || cmd == C_O) {
                        continue;
                    }
                    ops.push(Operation::Invoke { paths: vec![Path::new(ep, cl, Some(cmd))], timed: t });
                }
            }
        }
    }
    // the same path twice, and a wildcard followed by a concrete path it covers
    for t in [Timed::No, Timed::Yes] {
        for at in [W_VO, W_VA, T_VO, A_RV] {
            ops.push(Operation::Write { paths: vec![Path::new(Some(1), Some(CL_A), Some(at)), Path::new(Some(1), Some(CL_A), Some(at))], timed: t });
            ops.push(Operation::Write { paths: vec![Path::new(None, Some(CL_A), Some(at)), Path::new(Some(1), Some(CL_A), Some(at))], timed: t });
            ops.push(Operation::Write { paths: vec![Path::new(Some(1), Some(CL_A), Some(at)), Path::new(Some(0), Some(CL_A), Some(at)), Path::new(Some(1), Some(CL_A), Some(at))], timed: t });
        }
    }
    for at in [A_RA, W_VA, WO_M, A_RV] {
        ops.push(Operation::Read { paths: vec![Path::new(Some(1), Some(CL_A), Some(at)); 3], fabric_filtered: true });
        ops.push(Operation::Read { paths: vec![Path::new(Some(1), Some(CL_A), None), Path::new(Some(1), Some(CL_A), Some(at))], fabric_filtered: true });
        ops.push(Operation::Read { paths: vec![Path::new(None, None, Some(0xFFFD)), Path::new(Some(2), Some(CL_B), Some(0xFFFD)), Path::new(Some(1), Some(CL_A), Some(at))], fabric_filtered: true });
    }
    // writes carried by two or three messages: the timed-only attribute in a later message, with every
    // combination of window and flag for that message
    {
        let o = |at: u32| vec![Path::new(Some(1), Some(CL_A), Some(at))];
        let shapes: Vec<Vec<(Vec<Path>, Timed)>> = vec![
            vec![(o(W_VO), Timed::No), (o(T_VO), Timed::No)],
            vec![(o(W_VO), Timed::No), (o(T_VO), Timed::FlagOnly)],
            vec![(o(W_VO), Timed::Yes), (o(T_VO), Timed::Yes)],
            vec![(o(W_VO), Timed::Yes), (o(T_VO), Timed::Expired)],
            vec![(o(W_VO), Timed::Yes), (o(T_VO), Timed::WindowOnly)],
            vec![(o(T_VO), Timed::Yes), (o(T_VO), Timed::Expired)],
            vec![(o(T_VO), Timed::No), (o(W_VO), Timed::No), (o(T_VO), Timed::FlagOnly)],
            vec![(o(W_VO), Timed::Yes), (o(W_VA), Timed::Yes), (o(T_VO), Timed::Expired)],
            vec![(o(W_VO), Timed::Yes), (o(T_VO), Timed::Yes), (o(T_VO), Timed::WindowOnly)],
            vec![(vec![Path::new(None, Some(CL_A), Some(W_VO))], Timed::No), (vec![Path::new(None, Some(CL_A), Some(T_VO))], Timed::FlagOnly)],
        ];
        for chunks in shapes {
            ops.push(Operation::ChunkedWrite { chunks });
        }
    }
    // two writes / two invocations in one request
    for t in [Timed::No, Timed::Yes] {
        ops.push(Operation::Write { paths: vec![Path::new(Some(1), Some(CL_A), Some(W_VO)), Path::new(Some(1), Some(CL_A), Some(W_VA))], timed: t });
        ops.push(Operation::Write { paths: vec![Path::new(Some(1), Some(CL_A), Some(T_VO)), Path::new(Some(1), Some(CL_A), Some(W_VO))], timed: t });
        ops.push(Operation::Write { paths: vec![Path::new(Some(1), Some(CL_A), Some(W_VA)), Path::new(Some(9), Some(CL_A), Some(W_VO)), Path::new(Some(2), Some(CL_B), Some(W_VM))], timed: t });
        ops.push(Operation::Invoke { paths: vec![Path::new(Some(1), Some(CL_A), Some(C_O)), Path::new(Some(1), Some(CL_A), Some(C_A))], timed: t });
        ops.push(Operation::Invoke { paths: vec![Path::new(Some(1), Some(CL_A), Some(C_T)), Path::new(Some(0), Some(CL_A), Some(C_M))], timed: t });
    }
    ops
}

/// Extended sweep of the thorough tier: every ordered pair of paths in one request.
fn deep_operations() -> Vec<Operation> {
    let mut ops = Vec::new();
    let eps = [None, Some(0u16), Some(1), Some(2), Some(9)];
    let cls = [None, Some(CL_A), Some(CL_B), Some(CL_Z)];
    let attrs = [None, Some(A_RV), Some(A_RA), Some(W_VA), Some(WO_M), Some(F_LIST), Some(ATTR_LIST), Some(A_ABSENT)];
    let mut rpaths = Vec::new();
    for ep in eps {
        for cl in cls {
            for at in attrs {
                rpaths.push(Path::new(ep, cl, at));
            }
        }
    }
    for a in &rpaths {
        for b in &rpaths {
            ops.push(Operation::Read { paths: vec![*a, *b], fabric_filtered: true });
        }
    }
    let weps = [Some(0u16), Some(1), Some(2), Some(9), None];
    let wcls = [Some(CL_A), Some(CL_B), Some(CL_Z)];
    let (mut wpaths, mut ipaths) = (Vec::new(), Vec::new());
    for ep in weps {
        for cl in wcls {
            for at in [W_VO, W_VM, W_VA, T_VO, A_RV, WO_M, F_LIST, A_ABSENT, ATTR_LIST] {
                wpaths.push(Path::new(ep, cl, Some(at)));
            }
            for cmd in [C_O, C_M, C_A, C_T, C_F, C_ABSENT] {
                ipaths.push(Path::new(ep, cl, Some(cmd)));
            }
        }
    }
    for t in [Timed::No, Timed::Yes] {
        for a in &wpaths {
            for b in &wpaths {
                ops.push(Operation::Write { paths: vec![*a, *b], timed: t });
            }
        }
        for a in &ipaths {
            for b in &ipaths {
                // (the same path twice in one invoke request is refused as a whole: not a mediation matter)
                if a != b {
                    ops.push(Operation::Invoke { paths: vec![*a, *b], timed: t });
                }
            }
        }
    }
    ops
}

fn acls(tier: Tier) -> Vec<AclCfg> {
    let mut v = vec![AclCfg { level: 0, tgt: Tgt::All }];
    for level in 1..=4u8 {
        for tgt in [Tgt::All, Tgt::Ep1, Tgt::ClusterA, Tgt::Ep1ClusterA, Tgt::Ep2OrClusterB] {
            if tier == Tier::Quick && !(tgt == Tgt::All || (level == 2 && tgt == Tgt::Ep1ClusterA) || (level == 3 && tgt == Tgt::Ep2OrClusterB) || (level == 4 && tgt == Tgt::ClusterA)) {
                continue;
            }
            v.push(AclCfg { level, tgt });
        }
    }
    v
}

fn parse_spec(r: &Value, all: &[Spec]) -> Option<Spec> {
    all.iter().find(|s| spec_json(s) == *r).cloned()
}

pub fn run_check(ctx: &Ctx) -> i32 {
    let nodes_v = node_specs();
    let ops = operations(if ctx.replay.is_some() { Tier::Thorough } else { ctx.tier });
    let mut specs: Vec<Spec> = Vec::new();
    for (ni, _) in nodes_v.iter().enumerate() {
        for acl in acls(if ctx.replay.is_some() { Tier::Thorough } else { ctx.tier }) {
            for req in [Requester::Case1, Requester::Pase, Requester::Case2] {
                // the ACL entry under test only concerns the first requester
                if req != Requester::Case1 && !(acl.level == 0 || (acl.level == 4 && acl.tgt == Tgt::All)) {
                    continue;
                }
                if ctx.tier == Tier::Quick && ctx.replay.is_none() && ni == 1 && !(acl.tgt == Tgt::All) {
                    continue;
                }
                for op in &ops {
                    specs.push(Spec { node: ni, acl, req, op: op.clone() });
                }
            }
        }
    }
    if ctx.replay.is_some() || ctx.deep() {
        let deep = deep_operations();
        for acl in acls(Tier::Thorough) {
            for op in &deep {
                specs.push(Spec { node: 0, acl, req: Requester::Case1, op: op.clone() });
            }
        }
    }
    if let Some(p) = &ctx.replay {
        let doc: Value = serde_json::from_str(&std::fs::read_to_string(p).expect("replay file")).expect("json");
        std::env::set_var("MC_SHOW_PANICS", "1");
        if doc["replay"]["events_world"] == true {
            let mut report = Report::new();
            if let Err(e) = super::evw::replay_part(&doc["replay"], "C06", super::evw::is_c06, &mut report) {
                eprintln!("MACHINERY: {}", e);
                return 2;
            }
            return common::finish(ctx, report, Evidence::new("exploration"));
        }
        let Some(spec) = parse_spec(&doc["replay"], &specs) else {
            eprintln!("MACHINERY: the replay file does not name a combination of the catalog");
            return 2;
        };
        let mut report = Report::new();
        match run(&spec, &nodes_v[spec.node].1) {
            Err(e) => {
                eprintln!("MACHINERY: {}", e);
                return 2;
            }
            Ok((ans, log, chunks)) => {
                for (i, (a, upto)) in chunks.iter().enumerate() {
                    println!("message {}: items {:x?} status response {:x?} error {:?}; handler log length then {}", i + 1, a.items, a.status_response, a.error, upto);
                }
                println!("answer items {:x?}\nstatus response {:x?} error {:?}\nhandler log {:x?}", ans.items, ans.status_response, ans.error, log);
                for (op, m) in &ans.messages {
                    println!("message opcode {}: {}", op, common::hex(m));
                }
                for (sig, what) in judge(&spec, &nodes_v[spec.node].1, &ans, &log, &chunks) {
                    println!("  {} {}", sig, what);
                    report.violation(sig, what, spec_json(&spec));
                }
            }
        }
        return common::finish(ctx, report, Evidence::new("exploration"));
    }
    struct Out {
        failure: Option<(String, String)>,
        counts: [u64; 5],
        items: usize,
        viol: Vec<(String, String)>,
    }
    let results: Vec<Out> = specs
        .par_iter()
        .map(|s| match common::catch(|| run(s, &nodes_v[s.node].1)) {
            Err(p) => Out { failure: Some((format!("C06:panic:{}", p.class()), format!("{}", p))), counts: [0; 5], items: 0, viol: vec![] },
            // a client that never gets an answer is a finding of its own
            Ok(Err(e)) => Out { failure: Some(("C06:no-answer".to_string(), e)), counts: [0; 5], items: 0, viol: vec![] },
            Ok(Ok((ans, log, chunks))) => Out {
                failure: None,
                counts: [
                    chunks.len() as u64,
                    chunks.iter().filter(|c| c.0.status_response.is_some()).count() as u64,
                    chunks.iter().map(|c| c.0.items.iter().filter(|i| matches!(i, Item::Status { .. })).count() as u64).sum::<u64>() + ans.items.iter().filter(|i| matches!(i, Item::Status { .. })).count() as u64,
                    ans.items.iter().filter(|i| matches!(i, Item::Data { .. } | Item::CmdData { .. })).count() as u64,
                    log.iter().filter(|o| !matches!(o, Op::Read { .. })).count() as u64,
                ],
                items: ans.items.len(),
                viol: judge(s, &nodes_v[s.node].1, &ans, &log, &chunks),
            },
        })
        .collect();
    let mut report = Report::new();
    let mut outcomes: BTreeMap<String, u64> = BTreeMap::new();
    let (mut runs, mut data_items, mut effects, mut statuses) = (0u64, 0u64, 0u64, 0u64);
    let (mut chunked, mut chunk_refusals) = (0u64, 0u64);
    for (s, r) in specs.iter().zip(results) {
        if let Some((sig, what)) = r.failure {
            report.violation(sig, format!("{}: {}", spec_json(s), what), spec_json(s));
            continue;
        }
        runs += 1;
        chunked += r.counts[0];
        chunk_refusals += r.counts[1];
        statuses += r.counts[2];
        data_items += r.counts[3];
        effects += r.counts[4];
        *outcomes.entry(format!("{:?}", r.items)).or_default() += 1;
        for (sig, what) in r.viol {
            report.violation(sig, format!("{}: {}", spec_json(s), what), spec_json(s));
        }
    }
    let events_part = match super::evw::run_part(ctx.tier, "C06", super::evw::is_c06, &mut report) {
        Ok(v) => v,
        Err(e) => {
            eprintln!("MACHINERY: {}", e);
            return 2;
        }
    };
    let mut ev = Evidence::new("exploration");
    ev.set("events", events_part.clone());
    ev.set("evaluations", json!(runs + events_part["scenarios"].as_u64().unwrap_or(0)))
        .set("distinct_nontrivial", json!(outcomes.len() as u64 + 2))
        .set("rule", json!("for 2 node compositions x the access-control catalog (privilege level none/view/operate/manage/admin x target shape all / endpoint / cluster / endpoint+cluster / two targets) x 3 requesters (CASE subject of the entry, PASE, CASE of another fabric) x the operation catalog (reads of every path over endpoint {*,0,1,2,absent} x cluster {*,A,B,absent} x attribute {*, 5 access classes, global, absent} fabric-filtered or not, and lists of two paths in both orders; writes and invocations of every concrete and endpoint-wildcard path x {untimed, timed, window expired, flag without window, window without flag}; multi-element requests; writes carried by two or three messages; thorough tier: every ordered pair of read paths, of write paths (untimed / timed) and of distinct invoke paths in one request, for the CASE subject under every access-control configuration): the data returned, the handler calls and the statuses must equal the reference derived from the node composition, the ACL and the access declarations"))
        .set("samples", json!([spec_json(&specs[0]), spec_json(&specs[specs.len() / 2])]))
        .set("vacuity", json!({"runs": runs, "data_items_returned": data_items, "writes_and_invocations_observed": effects, "statuses_returned": statuses, "messages_of_chunked_writes_answered": chunked, "chunked_write_messages_refused_as_a_whole": chunk_refusals}))
        .set("exhaustive_within_bound", json!(true));
    ev.assume("the access check function itself over the full ACL space is C05's subject; event reads and event reports of subscriptions are judged in the events world (see 'events')");
    ev.assume("a concrete path to an absent element may be answered with 'unsupported access' instead of the specific 'unsupported ...' status when the requester has no privilege on the target");
    if report.violations.is_empty() && (runs == 0 || data_items == 0 || effects == 0 || statuses == 0 || chunked == 0 || chunk_refusals == 0) {
        eprintln!("MACHINERY: vacuous C06 run ({} runs, {} data, {} effects, {} statuses)", runs, data_items, effects, statuses);
        return 2;
    }
    common::finish(ctx, report, ev)
}
