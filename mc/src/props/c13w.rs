//! C13, wire level: a real publisher (device with `InteractionModel`, instrumented data model),
//! a real subscriber node that subscribes with a raw SubscribeRequest and accepts the device's
//! ReportData exchanges, and a writer whose attribute writes are the "changes". E1 (stateless
//! deviation-bounded DFS): at every quiescent point the adversary may drop / duplicate / reorder a
//! datagram between publisher and subscriber, let a timer fire first, or have the writer change
//! the attribute now (the write exchange itself runs to completion over a loss-free path). The
//! priming report spans several chunks, so changes fall before, between and after its round trips.
//! Oracle at the horizon: while the publisher still holds the subscription, the subscriber has
//! been told the final value; reports respect the minimum interval and the maximum interval; with
//! no loss the subscription must survive; a lost report is followed by one with the same content.

use core::num::NonZeroU8;
use std::cell::RefCell;
use std::rc::Rc;

use embassy_futures::select::{select, select3};
use serde_json::{json, Value};

use rs_matter::acl::{AclEntry, AuthMode};
use rs_matter::dm::clusters::net_comm::DummyNetworks;
use rs_matter::dm::{Access, Privilege, Quality};
use rs_matter::error::Error;
use rs_matter::im::{InteractionModel, InteractionModelState};
use rs_matter::respond::{ExchangeHandler, Responder};
use rs_matter::tlv::{TLVTag, TLVWrite};
use rs_matter::transport::exchange::{Exchange, MatterBuffers, MessageMeta};
use rs_matter::transport::network::NoNetwork;
use rs_matter::utils::storage::WriteBuf;
use rs_matter::Matter;

use crate::common::e1::{self, Outcome};
use crate::common::imdrv::{self, AttrSpec, ClusterSpec, EndpointSpec, Item, NodeSpec, Path, TestDm, Val};
use crate::common::kv::RecKv;
use crate::common::nodes::{self, SessKind};
use crate::common::rng::SeededRng;
use crate::common::sim::{addr_of, Exec, Net, Owned};
use crate::common::{self, vclock, Report, Tier};

const NODE_D: u64 = 0xD0D0;
const NODE_S: u64 = 0x5005;
const NODE_W: u64 = 0x7007;
const CL: u32 = 0xFFF1_FC01;
const START_US: u64 = 41_000_000_000;
const MIN_S: u16 = 2;
const MAX_S: u16 = 12;

#[derive(Clone, Debug)]
pub struct Cfg {
    /// how many writes the writer may make
    writes: usize,
    /// size of the filler attributes (3 of them): > 0 makes the priming report span several chunks
    filler: usize,
}

thread_local! {
    /// when the publisher put the datagram on the wire that is being delivered to the subscriber right now:
    /// intervals are the publisher's business, the network's delays must not count
    static SENT_AT: std::cell::Cell<u64> = const { std::cell::Cell::new(0) };
}

#[derive(Default)]
struct Sub {
    /// (virtual time us at which the publisher sent it, value of attribute 1 if reported, number of items, subscription id)
    reports: Vec<(u64, Option<u32>, usize, Option<u32>)>,
    subscribed: Option<Result<(), String>>,
    /// the maximum interval the publisher announced in its SubscribeResponse
    max_interval_s: Option<u16>,
}

struct SubHandler {
    sub: Rc<RefCell<Sub>>,
}

impl ExchangeHandler for SubHandler {
    async fn handle(&self, mut exchange: Exchange<'_>) -> Result<(), Error> {
        loop {
            let (op, payload) = {
                let rx = exchange.recv().await?;
                (rx.meta().proto_opcode, rx.payload().to_vec())
            };
            if op != imdrv::OP_REPORT_DATA {
                return Ok(());
            }
            let (items, more, suppress, sub_id) = imdrv::decode_report(&payload).map_err(|_| rs_matter::error::ErrorCode::InvalidData)?;
            let v = items.iter().find_map(|i| match i {
                Item::Data { ep: 1, cl, attr: 1, value, .. } if *cl == CL => u32_of(value),
                _ => None,
            });
            self.sub.borrow_mut().reports.push((SENT_AT.with(|c| c.get()), v, items.len(), sub_id));
            if suppress {
                exchange.acknowledge().await?;
            } else {
                exchange.send(MessageMeta::new(imdrv::PROTO_IM, imdrv::OP_STATUS, true), &imdrv::status_response(0)).await?;
            }
            if !more {
                return Ok(());
            }
        }
    }
}

fn u32_of(v: &[u8]) -> Option<u32> {
    match v.first()? {
        4 => Some(*v.get(1)? as u32),
        5 => Some(u16::from_le_bytes([*v.get(1)?, *v.get(2)?]) as u32),
        6 => Some(u32::from_le_bytes([*v.get(1)?, *v.get(2)?, *v.get(3)?, *v.get(4)?])),
        _ => None,
    }
}

fn subscribe_request() -> Vec<u8> {
    let mut buf = vec![0u8; 256];
    let mut tw = WriteBuf::new(&mut buf);
    tw.start_struct(&TLVTag::Anonymous).unwrap();
    tw.bool(&TLVTag::Context(0), false).unwrap();
    tw.u16(&TLVTag::Context(1), MIN_S).unwrap();
    tw.u16(&TLVTag::Context(2), MAX_S).unwrap();
    tw.start_array(&TLVTag::Context(3)).unwrap();
    tw.start_list(&TLVTag::Anonymous).unwrap();
    tw.u16(&TLVTag::Context(2), 1).unwrap();
    tw.u32(&TLVTag::Context(3), CL).unwrap();
    tw.end_container().unwrap();
    tw.end_container().unwrap();
    tw.bool(&TLVTag::Context(7), true).unwrap();
    tw.u8(&TLVTag::Context(0xFF), 12).unwrap();
    tw.end_container().unwrap();
    tw.as_slice().to_vec()
}

struct World {
    exec: Exec,
    net: Net,
    dm: TestDm,
    sub: Rc<RefCell<Sub>>,
    state: Owned<InteractionModelState<DummyNetworks, 3, 1024>>,
    writer: Owned<Matter<'static>>,
    writes_done: usize,
    _keep: Vec<Box<dyn std::any::Any>>,
    _h: Owned<SubHandler>,
    d: Owned<Matter<'static>>,
    s: Owned<Matter<'static>>,
}

fn build(cfg: &Cfg) -> World {
    vclock::reset(START_US);
    let net = Net::new(3);
    let d = Owned::from_box(nodes::new_matter());
    let s = Owned::from_box(nodes::new_matter());
    let wr = Owned::from_box(nodes::new_matter());
    let (md, ms, mw) = (d.get(), s.get(), wr.get());
    for m in [md, ms, mw] {
        nodes::add_fabric(m);
    }
    let k: Vec<_> = (0..4u8).map(|i| nodes::key(0x21 + i)).collect();
    nodes::install_session(ms, SeededRng::new(1), SessKind::Case, NODE_S, NODE_D, 1, 2, addr_of(1), &k[1], &k[0]).unwrap();
    nodes::install_session(md, SeededRng::new(2), SessKind::Case, NODE_D, NODE_S, 2, 1, addr_of(0), &k[0], &k[1]).unwrap();
    nodes::install_session(mw, SeededRng::new(3), SessKind::Case, NODE_W, NODE_D, 3, 4, addr_of(1), &k[3], &k[2]).unwrap();
    nodes::install_session(md, SeededRng::new(4), SessKind::Case, NODE_D, NODE_W, 4, 3, addr_of(2), &k[2], &k[3]).unwrap();
    for n in [NODE_S, NODE_W] {
        let mut e = AclEntry::new(None, Privilege::ADMIN, AuthMode::Case);
        e.add_subject(n).unwrap();
        md.with_state(|st| st.fabrics.fabric_mut(NonZeroU8::new(1).unwrap()).unwrap().acl_add(e).unwrap());
    }
    let mut attrs = vec![AttrSpec { id: 1, access: Access::RWVM, quality: Quality::NONE, value: Val::U32(100) }];
    for i in 0..3u32 {
        attrs.push(AttrSpec { id: 2 + i, access: Access::RV, quality: Quality::NONE, value: Val::Bytes(vec![0x42 + i as u8; cfg.filler]) });
    }
    let node = NodeSpec { endpoints: vec![EndpointSpec { id: 0, device_type: 0x16, clusters: vec![] }, EndpointSpec { id: 1, device_type: 0x100, clusters: vec![ClusterSpec { id: CL, attrs, cmds: vec![], events: vec![] }] }] };
    let dm = TestDm::new(node);
    let sub = Rc::new(RefCell::new(Sub::default()));
    let h = Owned::new(SubHandler { sub: sub.clone() });
    let mut exec = Exec::new();
    let buffers: Owned<MatterBuffers> = Owned::new(MatterBuffers::new());
    let state = Owned::new(InteractionModelState::<DummyNetworks, 3, 1024>::new(DummyNetworks));
    {
        let (send, recv) = (net.end(1), net.end(1));
        let dm2 = dm.clone();
        let (b, st) = (buffers.get(), state.get());
        exec.spawn("D", async move {
            let c = nodes::crypto(SeededRng::new(7));
            st.suppress_start_up_event();
            let kv = md.kv(RecKv::new());
            let im = InteractionModel::new(md, &c, b, dm2, &kv, st);
            let responder = Responder::new_default(&im);
            let _ = select3(md.run(&c, send, recv, NoNetwork), responder.run::<3>(), im.run()).await;
        });
    }
    {
        let (send, recv) = (net.end(0), net.end(0));
        let sub2 = sub.clone();
        let hh = h.get();
        exec.spawn("S", async move {
            let c = nodes::crypto(SeededRng::new(8));
            let responder = Responder::new("S", hh, ms, 0);
            let client = async {
                let r: Result<(), Error> = async {
                    let mut ex = Exchange::initiate(ms, &c, NonZeroU8::new(1).unwrap(), NODE_D).await?;
                    ex.send(MessageMeta::new(imdrv::PROTO_IM, imdrv::OP_SUBSCRIBE_REQ, true), &subscribe_request()).await?;
                    loop {
                        let (op, payload) = {
                            let rx = ex.recv().await?;
                            (rx.meta().proto_opcode, rx.payload().to_vec())
                        };
                        match op {
                            imdrv::OP_REPORT_DATA => {
                                let (items, _, _, sub_id) = imdrv::decode_report(&payload).map_err(|_| rs_matter::error::ErrorCode::InvalidData)?;
                                let v = items.iter().find_map(|i| match i {
                                    Item::Data { ep: 1, cl, attr: 1, value, .. } if *cl == CL => u32_of(value),
                                    _ => None,
                                });
                                sub2.borrow_mut().reports.push((SENT_AT.with(|c| c.get()), v, items.len(), sub_id));
                                ex.send(MessageMeta::new(imdrv::PROTO_IM, imdrv::OP_STATUS, true), &imdrv::status_response(0)).await?;
                            }
                            imdrv::OP_SUBSCRIBE_RESP => {
                                let e = rs_matter::tlv::TLVElement::new(&payload);
                                let mi = e.structure().ok().and_then(|st| st.find_ctx(2).ok()).and_then(|x| x.u16().ok());
                                sub2.borrow_mut().max_interval_s = mi;
                                ex.acknowledge().await?;
                                return Ok(());
                            }
                            _ => return Err(rs_matter::error::ErrorCode::Invalid.into()),
                        }
                    }
                }
                .await;
                sub2.borrow_mut().subscribed = Some(r.map_err(|e| format!("{:?}", e.code())));
                core::future::pending::<()>().await
            };
            let _ = select3(ms.run(&c, send, recv, NoNetwork), responder.run::<2>(), client).await;
        });
    }
    let _ = cfg;
    World { exec, net, dm, sub, state, writer: wr, writes_done: 0, _keep: vec![Box::new(buffers)], _h: h, d, s }
}

impl World {
    /// The writer changes attribute 1 now: its write exchange runs to completion over a loss-free
    /// path of its own (only datagrams between writer and publisher move).
    fn write_now(&mut self) -> Result<(), String> {
        self.writes_done += 1;
        let value = 100 + self.writes_done as u32;
        let mw = self.writer.get();
        let done = Rc::new(RefCell::new(false));
        let done2 = done.clone();
        let (send, recv) = (self.net.end(2), self.net.end(2));
        let seed = 900 + self.writes_done as u64;
        let t = self.exec.spawn("W", async move {
            let c = nodes::crypto(SeededRng::new(seed));
            let client = async {
                if let Ok(mut ex) = Exchange::initiate(mw, &c, NonZeroU8::new(1).unwrap(), NODE_D).await {
                    let req = imdrv::write_request(&[(Path::new(Some(1), Some(CL), Some(1)), None, value)], false);
                    let _ = imdrv::do_request(&mut ex, None, 0, imdrv::OP_WRITE_REQ, &req).await;
                }
                *done2.borrow_mut() = true;
                core::future::pending::<()>().await
            };
            let _ = select(mw.run(&c, send, recv, NoNetwork), client).await;
        });
        self.exec.run()?;
        for _ in 0..200 {
            if *done.borrow() {
                break;
            }
            let pos = self.net.0.borrow().inflight.iter().position(|d| d.from == 2 || d.to == 2);
            match pos {
                Some(k) => {
                    self.net.deliver(k, false);
                }
                None => break,
            }
            self.exec.run()?;
        }
        // the writer's last acknowledgement
        while let Some(k) = { let p = self.net.0.borrow().inflight.iter().position(|d| d.from == 2 || d.to == 2); p } {
            self.net.deliver(k, false);
            self.exec.run()?;
        }
        self.exec.cancel(t);
        if !*done.borrow() {
            return Err("the writer's exchange did not complete".into());
        }
        Ok(())
    }
}

#[derive(Clone, Copy, Debug, PartialEq, Eq)]
enum Action {
    Deliver(usize),
    Drop(usize),
    Dup(usize),
    Tick,
    Write,
}

pub struct RunResult {
    pub violations: Vec<(String, String)>,
    pub class: String,
}

pub fn run_one(cfg: &Cfg, prefix: &[usize]) -> Result<Outcome<RunResult>, String> {
    let mut w = build(cfg);
    let mut trace = Vec::new();
    w.exec.run()?;
    let mut step = 0usize;
    let mut lossy = false;
    let horizon = START_US + 60_000_000;
    let mut last_write_at = 0u64;
    loop {
        let now = vclock::now();
        if now > horizon || w.net.0.borrow().log.len() > 4000 {
            break;
        }
        // the adversarial phase lasts 20 s; then FIFO until the horizon
        let adversarial = now < START_US + 20_000_000;
        let n = w.net.inflight_len();
        let timer = vclock::next_deadline().is_some();
        let mut en = Vec::new();
        if n > 0 {
            en.push(Action::Deliver(0));
            if adversarial {
                en.push(Action::Drop(0));
                en.push(Action::Dup(0));
                if n > 1 {
                    en.push(Action::Deliver(1));
                }
                if timer {
                    en.push(Action::Tick);
                }
            }
        } else if timer {
            en.push(Action::Tick);
        }
        if adversarial && w.writes_done < cfg.writes && !en.is_empty() {
            en.push(Action::Write);
        }
        if en.is_empty() {
            break;
        }
        let choice = if en.len() == 1 {
            0
        } else {
            let c = if step < prefix.len() { prefix[step] } else { 0 };
            if c >= en.len() {
                return Err(format!("replay divergence at choice point {}: {} enabled, {} requested", step, en.len(), c));
            }
            trace.push((en.len(), c));
            step += 1;
            c
        };
        match en[choice] {
            Action::Deliver(k) => {
                vclock::advance_by_ms(1);
                if let Some(d) = w.net.0.borrow().inflight.get(k) {
                    SENT_AT.with(|c| c.set(d.sent_at_us));
                }
                w.net.deliver(k, false);
            }
            Action::Drop(k) => {
                lossy = true;
                w.net.drop_dgram(k);
            }
            Action::Dup(k) => {
                vclock::advance_by_ms(1);
                if let Some(d) = w.net.0.borrow().inflight.get(k) {
                    SENT_AT.with(|c| c.set(d.sent_at_us));
                }
                w.net.deliver(k, true);
            }
            Action::Tick => {
                if let Some(t) = vclock::next_deadline() {
                    vclock::advance_to(t.min(horizon + 1));
                }
            }
            Action::Write => {
                w.write_now()?;
                last_write_at = vclock::now();
            }
        }
        w.exec.run()?;
    }
    if step < prefix.len() {
        return Err(format!("replay divergence: execution ended after {} of {} choices", step, prefix.len()));
    }
    // writes the schedule did not place happen right after the adversarial phase? no: they simply do not happen
    // ---- oracle
    let mut v = Vec::new();
    let sub = w.sub.borrow();
    let final_value = match w.dm.spec.borrow().attr(1, CL, 1).map(|a| a.value.clone()) {
        Some(Val::U32(x)) => x,
        _ => 0,
    };
    // a subscription whose report is under way at the horizon is out of the table for the duration of
    // that report: it is alive, and what the subscriber has been told so far is not final
    let (rows, _, _, reporting_at_horizon) = w.state.get().verif_subscriptions().verif_state();
    let alive_at_publisher = !rows.is_empty() || reporting_at_horizon;
    let told: Vec<u32> = sub.reports.iter().filter_map(|r| r.1).collect();
    let kind = if cfg.filler > 0 { "chunked-priming" } else { "single-chunk-priming" };
    match &sub.subscribed {
        Some(Ok(())) => {
            if alive_at_publisher && !reporting_at_horizon && told.last() != Some(&final_value) {
                v.push((format!("C13:wire:{}:subscriber-never-told-the-final-value", kind), format!("the publisher still holds the subscription at the horizon ({} s after the last change), the attribute is {}, the subscriber was told {:?}", (vclock::now().saturating_sub(last_write_at)) / 1_000_000, final_value, told)));
            }
            if !alive_at_publisher && !lossy {
                v.push((format!("C13:wire:{}:subscription-ended-without-any-loss", kind), format!("reports {:?}", sub.reports)));
            }
        }
        Some(Err(e)) => {
            if !lossy {
                v.push((format!("C13:wire:{}:subscription-not-established-without-any-loss", kind), format!("{}; reports {:?}", e, sub.reports)));
            }
        }
        None => {
            if !lossy {
                v.push((format!("C13:wire:{}:subscribe-interaction-hangs", kind), format!("reports {:?}", sub.reports)));
            }
        }
    }
    // values only move forward (a retried report carries the same or newer content, never an older one)
    for pair in told.windows(2) {
        if pair[1] < pair[0] {
            v.push((format!("C13:wire:{}:older-value-reported-after-a-newer-one", kind), format!("{:?}", told)));
        }
    }
    // intervals, judged on complete reports after the subscription is established (distinct report transactions)
    let max_s = sub.max_interval_s.unwrap_or(MAX_S) as u64;
    if matches!(sub.subscribed, Some(Ok(()))) && !lossy {
        let starts: Vec<u64> = sub.reports.iter().filter(|r| r.3.is_some()).map(|r| r.0).collect();
        // the priming chunks belong to one transaction: skip to the reports that follow it
        // (intervals are measured from the start of a report transaction: the first priming chunk)
        let priming_end = starts.iter().take_while(|t| **t < START_US + 1_000_000).last().copied();
        let primed_at = starts.first().copied().filter(|t| *t < START_US + 1_000_000);
        let later: Vec<u64> = starts.iter().filter(|t| Some(**t) > priming_end).copied().collect();
        let mut prev = primed_at;
        let mut same_tx_until = 0u64;
        for t in &later {
            if *t < same_tx_until {
                continue; // a further chunk of the same report
            }
            if let Some(p) = prev {
                let gap = t - p;
                if gap + 50_000 < MIN_S as u64 * 1_000_000 {
                    v.push((format!("C13:wire:{}:reports-closer-than-the-minimum-interval", kind), format!("{} ms between two reports (minimum {} s); report times {:?}", gap / 1000, MIN_S, later.iter().map(|x| (x - START_US) / 1000).collect::<Vec<_>>())));
                }
                if gap > (max_s + 2) * 1_000_000 {
                    v.push((format!("C13:wire:{}:no-report-within-the-maximum-interval", kind), format!("{} ms between two reports (maximum {} s)", gap / 1000, max_s)));
                }
            }
            prev = Some(*t);
            same_tx_until = t + 200_000;
        }
        if alive_at_publisher {
            if let Some(p) = prev {
                if vclock::now() > p + (max_s + 3) * 1_000_000 {
                    v.push((format!("C13:wire:{}:no-report-within-the-maximum-interval", kind), format!("last report {} ms before the horizon", (vclock::now() - p) / 1000)));
                }
            }
        }
    }
    let class = format!("{:?}|alive={}|told={:?}|lossy={}|writes={}", sub.subscribed, alive_at_publisher, told, lossy, w.writes_done);
    let digest = common::digest(&(&class, w.net.0.borrow().log.iter().map(|d| (d.from, d.bytes.clone(), d.sent_at_us)).collect::<Vec<_>>()));
    let _ = (&w.d, &w.s);
    Ok(Outcome { trace, digest, result: RunResult { violations: v, class } })
}

pub fn cfg_json(c: &Cfg) -> Value {
    json!({"wire": {"writes": c.writes, "filler": c.filler}})
}

pub fn cfg_from(v: &Value) -> Cfg {
    Cfg { writes: v["wire"]["writes"].as_u64().unwrap_or(1) as usize, filler: v["wire"]["filler"].as_u64().unwrap_or(0) as usize }
}

/// Explore; returns (report, executions, distinct observations, outcome classes, capped)
pub fn explore(tier: Tier) -> Result<(Report, u64, usize, usize, bool), String> {
    let bound = if tier == Tier::Quick { 2 } else { 3 };
    let mut report = Report::new();
    let (mut execs, mut outcomes) = (0u64, 0usize);
    let mut classes = std::collections::BTreeSet::new();
    let mut capped = false;
    for cfg in [Cfg { writes: 1, filler: 0 }, Cfg { writes: 2, filler: 0 }, Cfg { writes: 1, filler: 500 }, Cfg { writes: 2, filler: 500 }] {
        if tier == Tier::Quick && cfg.writes == 2 && cfg.filler == 0 {
            continue;
        }
        let viol = std::sync::Mutex::new(Vec::new());
        let cls = std::sync::Mutex::new(std::collections::BTreeSet::new());
        let stats = e1::explore(
            bound,
            std::env::var("MC_C13W_CAP").ok().and_then(|v| v.parse().ok()).unwrap_or(if tier == Tier::Quick { 300_000 } else { 3_000_000 }),
            64,
            |prefix| match common::catch(|| run_one(&cfg, prefix)) {
                Ok(r) => r,
                Err(p) => Ok(Outcome { trace: prefix.iter().map(|c| (c + 1, *c)).collect(), digest: 0, result: RunResult { violations: vec![(format!("C13:wire:panic:{}", p.class()), p.to_string())], class: "panic".into() } }),
            },
            |_prefix, out| {
                let choices: Vec<usize> = out.trace.iter().map(|c| c.1).collect();
                if !out.result.violations.is_empty() {
                    let mut g = viol.lock().unwrap();
                    for (sig, what) in &out.result.violations {
                        g.push((sig.clone(), what.clone(), choices.clone()));
                    }
                }
                cls.lock().unwrap().insert(out.result.class.clone());
            },
        )?;
        let mut vs = viol.into_inner().unwrap();
        vs.sort_by_key(|(_, _, c)| (c.iter().filter(|x| **x != 0).count(), c.len()));
        for (sig, what, choices) in vs {
            let mut r = cfg_json(&cfg);
            r["choices"] = json!(choices);
            report.violation(sig, format!("cfg {:?}, schedule {:?}: {}", cfg, choices, what), r);
        }
        execs += stats.executions;
        outcomes += stats.distinct_outcomes;
        capped |= stats.capped;
        if std::env::var_os("MC_C13W_CAP").is_some() {
            eprintln!("c13w {:?}: executions {} capped {}", cfg, stats.executions, stats.capped);
        }
        classes.extend(cls.into_inner().unwrap());
    }
    Ok((report, execs, outcomes, classes.len(), capped))
}
