//! C09 — reliable messaging delivers each message at most once and reports the truth.
//!
//! E1 (stateless deviation-bounded DFS): two real `Matter` nodes with a pre-established secure
//! session, joined by an adversarial datagram network under a virtual clock. Node A's application
//! sends reliable messages on one exchange; node B's handler logs what its application sees.
//! At every quiescent point the explorer chooses: deliver the oldest datagram (default), drop
//! it, duplicate it, deliver a younger one first, or let the next timer fire first.

use std::cell::RefCell;
use std::rc::Rc;

use core::num::NonZeroU8;

use serde_json::{json, Value};

use rs_matter::error::{Error, ErrorCode};
use rs_matter::respond::{ExchangeHandler, Responder};
use rs_matter::transport::exchange::{Exchange, MessageMeta};
use rs_matter::transport::network::NoNetwork;
use rs_matter::Matter;

use embassy_futures::select::select;

use crate::common::e1::{self, Outcome};
use crate::common::nodes::{self, SessKind, NODE_A, NODE_B};
use crate::common::rng::SeededRng;
use crate::common::sim::{addr_of, Exec, Net, Owned};
use crate::common::{self, vclock, Ctx, Evidence, Report, Tier};

const PROTO: u16 = 0x7777;
const HORIZON_US: u64 = 60_000_000;
const NODE_BY: u64 = 0xB15A_0001;

#[derive(Clone, Copy, Debug, PartialEq, Eq, Hash)]
enum Behaviour {
    /// handler answers every message with a reliable reply, client waits for it
    Echo,
    /// handler explicitly acknowledges and keeps receiving
    Ack,
    /// handler just keeps receiving (acknowledgements are the transport's business)
    Sink,
    /// handler acknowledges explicitly, then sends a reliable reply; the client pipelines its
    /// messages without waiting for the replies (C15: acknowledgement state changes between a
    /// reply and its retransmission)
    AckThenReply,
}

/// The adversary's default policy (cost 0); deviations from it cost 1 each.
#[derive(Clone, Copy, Debug, PartialEq, Eq, Hash)]
enum Strategy {
    /// deliver everything in FIFO order
    Fifo,
    /// drop the first n datagrams travelling in direction from -> (1 - from), deliver the rest
    DropFirst { from: usize, n: usize },
}

#[derive(Clone, Debug)]
struct Cfg {
    kind: SessKind,
    behaviour: Behaviour,
    messages: usize,
    strategy: Strategy,
    /// further sessions at the sender, which the adversary may close (a CloseSession status report
    /// from their peer) at any quiescent point: no business of the exchange under test
    bystanders: usize,
    /// the transmit counters of both ends of the session start here (None: the random 28-bit start)
    start_ctr: Option<u32>,
}

#[derive(Default, Debug)]
struct Obs {
    /// (message index, Ok / error code name, virtual time us)
    sent: Vec<(usize, Result<(), String>, u64)>,
    /// payload first bytes seen by B's application
    recv: Vec<(Vec<u8>, u64)>,
    replies: Vec<(Vec<u8>, u64)>,
    /// outcome of the handler's reliable replies: (reply index, Ok / error code name, virtual time us)
    reply_sent: Vec<(usize, Result<(), String>, u64)>,
    client_done: bool,
    client_error: Option<String>,
}

fn payload(k: usize) -> Vec<u8> {
    // distinct lengths (16 apart) so that datagrams can be attributed to messages by size
    let mut v = vec![0xC0 | k as u8; 16 * (k + 1)];
    v[0] = k as u8;
    v
}

struct Handler {
    obs: Rc<RefCell<Obs>>,
    behaviour: Behaviour,
}

/// Payload length of the handler's replies (datagrams of a reply are then told from standalone
/// acknowledgements and from A's messages by their size).
const REPLY_LEN: usize = 12;

impl Handler {
    fn note_reply(&self, r: &Result<(), Error>) {
        let mut o = self.obs.borrow_mut();
        let k = o.reply_sent.len();
        o.reply_sent.push((k, r.as_ref().map(|_| ()).map_err(|e| format!("{:?}", e.code())), vclock::now()));
    }
}

impl ExchangeHandler for Handler {
    async fn handle(&self, mut exchange: Exchange<'_>) -> Result<(), Error> {
        loop {
            let p = {
                let rx = exchange.recv().await?;
                rx.payload().to_vec()
            };
            self.obs.borrow_mut().recv.push((p.clone(), vclock::now()));
            match self.behaviour {
                Behaviour::Echo => {
                    let mut reply = p.clone();
                    reply.truncate(REPLY_LEN);
                    let r = exchange.send(MessageMeta::new(PROTO, 2, true), &reply).await;
                    self.note_reply(&r);
                    r?;
                }
                Behaviour::Ack => exchange.acknowledge().await?,
                Behaviour::Sink => {}
                Behaviour::AckThenReply => {
                    exchange.acknowledge().await?;
                    let mut reply = p.clone();
                    reply.truncate(REPLY_LEN);
                    let r = exchange.send(MessageMeta::new(PROTO, 2, true), &reply).await;
                    self.note_reply(&r);
                    r?;
                }
            }
        }
    }
}

struct World {
    /// number of bystander exchanges the sender's application has been told to abandon
    abandon: Rc<std::cell::Cell<usize>>,
    /// bystander exchanges whose send is still in progress (bit i)
    by_sending: Rc<std::cell::Cell<u8>>,
    a_task: usize,
    exec: Exec,
    net: Net,
    obs: Rc<RefCell<Obs>>,
    _handler: Owned<Handler>,
    _responder: Option<Box<dyn std::any::Any>>,
    _a: Owned<Matter<'static>>,
    _b: Owned<Matter<'static>>,
}

fn build(cfg: &Cfg) -> World {
    vclock::reset(5_000_000_000);
    let net = Net::new(2);
    let obs = Rc::new(RefCell::new(Obs::default()));
    let a = Owned::from_box(nodes::new_matter());
    let b = Owned::from_box(nodes::new_matter());
    let (ma, mb) = (a.get(), b.get());
    nodes::add_fabric(ma);
    nodes::add_fabric(mb);
    let k1 = nodes::key(0x11);
    let k2 = nodes::key(0x22);
    nodes::install_session(ma, SeededRng::new(101), cfg.kind, NODE_A, NODE_B, 1, 2, addr_of(1), &k2, &k1).unwrap();
    nodes::install_session(mb, SeededRng::new(202), cfg.kind, NODE_B, NODE_A, 2, 1, addr_of(0), &k1, &k2).unwrap();

    if let Some(c0) = cfg.start_ctr {
        for (m, local) in [(ma, 1u16), (mb, 2u16)] {
            m.with_state(|s| {
                let id = s.verif_sessions().iter().find(|x| x.get_local_sess_id() == local).map(|x| x.id());
                if let Some(sess) = id.and_then(|id| s.verif_sessions_mut().get(id)) {
                    sess.verif_set_tx_ctr(c0);
                }
            });
        }
    }
    for i in 0..cfg.bystanders {
        let (l, p) = (11 + 2 * i as u16, 12 + 2 * i as u16);
        nodes::install_session(ma, SeededRng::new(111 + i as u64), SessKind::Case, NODE_A, NODE_BY + i as u64, l, p, addr_of(1), &nodes::key(0x33), &nodes::key(0x44)).unwrap();
    }

    let abandon = Rc::new(std::cell::Cell::new(0usize));
    let by_sending = Rc::new(std::cell::Cell::new(0u8));
    let handler = Owned::new(Handler { obs: obs.clone(), behaviour: cfg.behaviour });
    let mut exec = Exec::new();

    // One root future per node (the stack's primitives hold a single waker: all of a node's
    // futures must share one task, exactly as the repo's own tests and examples compose them).
    {
        let (send, recv) = (net.end(1), net.end(1));
        let h = handler.get();
        exec.spawn("B", async move {
            let c = nodes::crypto(SeededRng::new(203));
            let responder = Responder::new("B", h, mb, 0);
            let _ = select(mb.run(&c, send, recv, NoNetwork), responder.run::<2>()).await;
        });
    }
    let a_task = {
        let (send, recv) = (net.end(0), net.end(0));
        let obs2 = obs.clone();
        let cfg2 = cfg.clone();
        let abandon2 = abandon.clone();
        let by_sending2 = by_sending.clone();
        exec.spawn("A", async move {
            let c = nodes::crypto(SeededRng::new(103));
            let client = async {
                let r: Result<(), Error> = async {
                    let mut ex = match cfg2.kind {
                        SessKind::Case => Exchange::initiate(ma, &c, NonZeroU8::new(1).unwrap(), NODE_B).await?,
                        SessKind::Pase => Exchange::initiate_pase(ma, &c, addr_of(1), 20202021).await?,
                    };
                    for k in 0..cfg2.messages {
                        let r = ex.send(MessageMeta::new(PROTO, 1, true), &payload(k)).await;
                        let now = vclock::now();
                        match &r {
                            Ok(()) => obs2.borrow_mut().sent.push((k, Ok(()), now)),
                            Err(e) => obs2.borrow_mut().sent.push((k, Err(format!("{:?}", e.code())), now)),
                        }
                        if r.is_err() {
                            break;
                        }
                        if cfg2.behaviour == Behaviour::Echo {
                            let rx = ex.recv().await?;
                            obs2.borrow_mut().replies.push((rx.payload().to_vec(), vclock::now()));
                        }
                    }
                    if cfg2.behaviour == Behaviour::Echo {
                        // the last reply requested an acknowledgement
                        let _ = ex.acknowledge().await;
                    }
                    if cfg2.behaviour == Behaviour::AckThenReply {
                        for _ in 0..cfg2.messages {
                            let rx = ex.recv().await?;
                            obs2.borrow_mut().replies.push((rx.payload().to_vec(), vclock::now()));
                        }
                        let _ = ex.acknowledge().await;
                    }
                    Ok(())
                }
                .await;
                if let Err(e) = r {
                    obs2.borrow_mut().client_error = Some(format!("{:?}", e.code()));
                }
                obs2.borrow_mut().client_done = true;
                core::future::pending::<()>().await
            };
            // the sender's other business: one reliable message on each bystander session (nobody
            // answers), given up -- the exchange is dropped with the message still unacknowledged,
            // which makes the transport close that session -- when the adversary says so
            let c2 = nodes::crypto(SeededRng::new(104));
            let bystander = |i: usize| {
                let abandon = abandon2.clone();
                let sending = by_sending2.clone();
                let c2 = &c2;
                async move {
                    if i < cfg2.bystanders {
                        if let Ok(mut ex) = Exchange::initiate(ma, c2, NonZeroU8::new(1).unwrap(), NODE_BY + i as u64).await {
                            let told = core::future::poll_fn(|_| if abandon.get() > i { core::task::Poll::Ready(()) } else { core::task::Poll::Pending });
                            sending.set(sending.get() | (1 << i));
                            let _ = select(ex.send(MessageMeta::new(PROTO, 9, true), &[0xBB; 24]), told).await;
                            sending.set(sending.get() & !(1 << i));
                        }
                    }
                    core::future::pending::<()>().await
                }
            };
            let _ = embassy_futures::select::select4(ma.run(&c, send, recv, NoNetwork), client, bystander(0), bystander(1)).await;
        })
    };
    World { abandon, by_sending, a_task, exec, net, obs, _handler: handler, _responder: None, _a: a, _b: b }
}

#[derive(Clone, Copy, Debug, PartialEq, Eq)]
enum Action {
    Deliver(usize),
    Drop(usize),
    Dup(usize),
    Tick,
    /// the sender's application abandons its exchange on the next bystander session: the transport closes that session
    CloseBystander,
}

fn enabled(w: &World, cfg: &Cfg, dropped_by_policy: usize, bystanders_closed: usize) -> Vec<Action> {
    let n = w.net.inflight_len();
    let timer = vclock::next_deadline().is_some();
    let mut v = Vec::new();
    if n > 0 {
        let oldest_from = w.net.0.borrow().inflight[0].from;
        let policy_drops = matches!(cfg.strategy, Strategy::DropFirst { from, n } if from == oldest_from && dropped_by_policy < n);
        if policy_drops {
            v.push(Action::Drop(0));
            v.push(Action::Deliver(0));
        } else {
            v.push(Action::Deliver(0));
            v.push(Action::Drop(0));
        }
        v.push(Action::Dup(0));
        if n > 1 {
            v.push(Action::Deliver(1));
        }
        if timer {
            v.push(Action::Tick);
        }
    } else if timer {
        v.push(Action::Tick);
    }
    if !v.is_empty() && bystanders_closed < cfg.bystanders && w.by_sending.get() & (1 << bystanders_closed) != 0 && !w.obs.borrow().client_done {
        v.push(Action::CloseBystander);
    }
    v
}

/// What the adversary did to each datagram, for the oracles.
#[derive(Default)]
struct Fates {
    dropped: Vec<u64>,
    delivered: Vec<(u64, u64)>,
    duplicated: Vec<u64>,
}

struct RunResult {
    violations: Vec<(String, String)>,
    outcome_class: String,
    retransmissions: usize,
    dup_deliveries: usize,
}

fn msg_of_len(len: usize, base: usize) -> Option<usize> {
    // datagram = header + payload + 16 byte tag; payload lengths are 16, 32, 48, ...
    let body = len.checked_sub(base)?;
    if body >= 16 && body % 16 < 8 {
        Some(body / 16 - 1)
    } else {
        None
    }
}

thread_local! {
    static NONCE_ORACLE: std::cell::Cell<bool> = const { std::cell::Cell::new(false) };
    static WIRE_DUMP: RefCell<Vec<String>> = const { RefCell::new(Vec::new()) };
}

/// C15 oracle over the wire log of one execution.
fn judge_nonce(cfg: &Cfg, w: &World, v: &mut Vec<(String, String)>) {
    let net = w.net.0.borrow();
    let kind = format!("{:?}-{:?}", cfg.kind, cfg.behaviour);
    let mut by_key: std::collections::BTreeMap<(usize, u16, u32), &crate::common::sim::Dgram> = Default::default();
    let mut last_first: std::collections::BTreeMap<(usize, u16), u32> = Default::default();
    for d in net.log.iter() {
        if d.bytes.len() < 8 {
            continue;
        }
        let sess = u16::from_le_bytes([d.bytes[1], d.bytes[2]]);
        let ctr = u32::from_le_bytes([d.bytes[4], d.bytes[5], d.bytes[6], d.bytes[7]]);
        if sess == 0 {
            continue; // unsecured
        }
        match by_key.get(&(d.from, sess, ctr)) {
            Some(first) => {
                if first.bytes != d.bytes {
                    let pos = first.bytes.iter().zip(d.bytes.iter()).position(|(a, b)| a != b);
                    v.push((
                        format!("C15:{}:same-counter-different-bytes", kind),
                        format!("node {} sent counter {} on session {} twice with different bytes (lengths {} / {}, first difference at byte {:?}): a retransmission is not identical to the original, the nonce is reused for a different message", d.from, ctr, sess, first.bytes.len(), d.bytes.len(), pos),
                    ));
                }
            }
            None => {
                by_key.insert((d.from, sess, ctr), d);
                if let Some(prev) = last_first.get(&(d.from, sess)) {
                    if ctr <= *prev {
                        // who overtook it? (first transmissions with a higher counter that are already on the wire)
                        let min_len = net.log.iter().filter(|x| x.from == d.from).map(|x| x.bytes.len()).min().unwrap_or(0);
                        let overtakers: Vec<usize> = by_key.iter().filter(|((f, s2, c), _)| *f == d.from && *s2 == sess && *c > ctr).map(|(_, x)| x.bytes.len()).collect();
                        let class = if overtakers.iter().all(|l| *l == min_len) { "overtaken-by-immediately-sent-standalone-acks" } else { "other" };
                        v.push((format!("C15:{}:counter-not-increasing:{}", kind, class), format!("node {} session {}: new message with counter {} first appears on the wire after counter {} ({} datagrams with higher counters went out before it)", d.from, sess, ctr, prev, overtakers.len())));
                    }
                }
                let e = last_first.entry((d.from, sess)).or_insert(ctr);
                if ctr > *e {
                    *e = ctr;
                }
            }
        }
    }
}

fn run_one(cfg: &Cfg, prefix: &[usize]) -> Result<Outcome<RunResult>, String> {
    let mut w = build(cfg);
    let mut fates = Fates::default();
    let mut trace = Vec::new();
    w.exec.run()?;
    let mut step = 0usize;
    let mut quiet_since: Option<u64> = None;
    let mut policy_drops = 0usize;
    let mut bystanders_closed = 0usize;
    loop {
        let now = vclock::now();
        let done = w.obs.borrow().client_done;
        if done && w.net.inflight_len() == 0 {
            let q = *quiet_since.get_or_insert(now);
            if now >= q + 3_000_000 {
                break;
            }
        } else {
            quiet_since = None;
        }
        if now > 5_000_000_000 + HORIZON_US {
            break;
        }
        let en = enabled(&w, cfg, policy_drops, bystanders_closed);
        if en.is_empty() {
            break;
        }
        let choice = if en.len() == 1 {
            0
        } else {
            let c = if step < prefix.len() { prefix[step] } else { 0 };
            if c >= en.len() {
                return Err(format!("replay divergence at choice point {}: {} enabled, {} requested", step, en.len(), c));
            }
            trace.push((en.len(), c));
            step += 1;
            c
        };
        match en[choice] {
            Action::Deliver(k) => {
                // >= 1 ms of latency per delivery
                vclock::advance_by_ms(1);
                if let Some(d) = w.net.deliver(k, false) {
                    fates.delivered.push((d.id, vclock::now()));
                }
            }
            Action::Drop(k) => {
                if let Some(d) = w.net.drop_dgram(k) {
                    if choice == 0 {
                        policy_drops += 1;
                    }
                    fates.dropped.push(d.id);
                }
            }
            Action::Dup(k) => {
                vclock::advance_by_ms(1);
                if let Some(d) = w.net.deliver(k, true) {
                    fates.delivered.push((d.id, vclock::now()));
                    fates.duplicated.push(d.id);
                }
            }
            Action::Tick => {
                if let Some(t) = vclock::next_deadline() {
                    vclock::advance_to(t);
                }
            }
            Action::CloseBystander => {
                let l = 11 + 2 * bystanders_closed as u16;
                bystanders_closed += 1;
                let _ = l;
                w.abandon.set(bystanders_closed);
                w.exec.wake(w.a_task);
                w.exec.run()?;
                let left = w._a.get().with_state(|s| s.verif_sessions().iter().filter(|x| matches!(x.get_peer_node_id(), Some(n) if n >= NODE_BY && n < NODE_BY + 8)).count());
                if left != cfg.bystanders - bystanders_closed {
                    return Err(format!("harness: the bystander session was not closed ({} left, {} expected)", left, cfg.bystanders - bystanders_closed));
                }
            }
        }
        w.exec.run()?;
    }
    if step < prefix.len() {
        return Err(format!("replay divergence: execution ended after {} of {} choices", step, prefix.len()));
    }
    if std::env::var_os("MC_SHOW_PANICS").is_some() {
        WIRE_DUMP.with(|d| {
            let mut d = d.borrow_mut();
            d.clear();
            for g in w.net.0.borrow().log.iter() {
                let fate = if fates.dropped.contains(&g.id) { "dropped".to_string() } else { format!("delivered x{}", fates.delivered.iter().filter(|(id, _)| *id == g.id).count()) };
                d.push(format!("t={:>9}us #{:<3} {}->{} len {:>3} sess {:>5} ctr {:>10} {} [{}]", g.sent_at_us - 5_000_000_000, g.id, g.from, g.to, g.bytes.len(), u16::from_le_bytes([g.bytes[1], g.bytes[2]]), u32::from_le_bytes([g.bytes[4], g.bytes[5], g.bytes[6], g.bytes[7]]), crate::common::hex(&g.bytes[8..g.bytes.len().min(24)]), fate));
            }
        });
    }
    let mut out = judge(cfg, &w, &fates, trace);
    if NONCE_ORACLE.with(|n| n.get()) {
        out.result.violations.clear();
        judge_nonce(cfg, &w, &mut out.result.violations);
    }
    Ok(out)
}

fn judge(cfg: &Cfg, w: &World, fates: &Fates, trace: e1::Trace) -> Outcome<RunResult> {
    let obs = w.obs.borrow();
    let net = w.net.0.borrow();
    let mut v: Vec<(String, String)> = Vec::new();
    let kind = format!("{:?}-{:?}", cfg.kind, cfg.behaviour);

    // attribute A's datagrams to messages by size; the smallest A->B datagram class is learned from
    // the first one (message 0 without a piggy-backed ack)
    let a_out: Vec<&crate::common::sim::Dgram> = net.log.iter().filter(|d| d.from == 0 && d.bytes.len() > 8 && u16::from_le_bytes([d.bytes[1], d.bytes[2]]) == 2).collect();
    let base = a_out.first().map(|d| d.bytes.len().saturating_sub(16)).unwrap_or(0);
    let ctr_of = |d: &crate::common::sim::Dgram| -> u32 { u32::from_le_bytes([d.bytes[4], d.bytes[5], d.bytes[6], d.bytes[7]]) };

    // O1: B's application sees a duplicate-free, in-order prefix of what was sent
    for (i, (p, _)) in obs.recv.iter().enumerate() {
        if *p != payload(i) {
            let what = if obs.recv[..i].iter().any(|(q, _)| q == p) { "duplicate-delivered-to-application" } else { "wrong-or-reordered-message-delivered" };
            v.push((format!("C09:{}:{}", kind, what), format!("application of B received as item #{} a payload starting {:02x?} (len {}), expected message {}", i, &p[..p.len().min(4)], p.len(), i)));
            break;
        }
    }

    // per message: transmissions (datagram ids), their fates
    let mut retransmissions = 0usize;
    let mut dup_deliveries = 0usize;
    for k in 0..cfg.messages {
        let Some((_, res, t_ret)) = obs.sent.iter().find(|s| s.0 == k) else { continue };
        // transmissions of message k: A->B datagrams of the size class of k (with or without a piggy-backed ack: +4)
        let tx: Vec<&&crate::common::sim::Dgram> = a_out.iter().filter(|d| msg_of_len(d.bytes.len(), base) == Some(k)).collect();
        if tx.is_empty() {
            continue;
        }
        // all transmissions of one message carry the same counter
        let c0 = ctr_of(tx[0]);
        retransmissions += tx.len() - 1;
        // (the property does not fix the size of the budget; the implementation makes 1 + 5 transmissions)
        if tx.len() > 8 {
            v.push((format!("C09:{}:unbounded-retransmission", kind), format!("message {} was transmitted {} times", k, tx.len())));
        }
        // O5: spacing >= zero-jitter backoff of the (i)-th retransmission
        for i in 1..tx.len() {
            if ctr_of(tx[i]) != c0 {
                continue;
            }
            let gap_ms = (tx[i].sent_at_us - tx[i - 1].sent_at_us) / 1000;
            // protocol back-off with zero jitter: base * 1.1 * 1.6^max(0, n - 1) where n = number of
            // retransmissions already made (threshold 1): 330, 330, 528, 844, 1351 ms
            let mut min_ms = 300u64 * 11 / 10;
            for _ in 0..i.saturating_sub(2) {
                min_ms = min_ms * 16 / 10;
            }
            if gap_ms + 1 < min_ms {
                v.push((format!("C09:{}:retransmission-earlier-than-backoff", kind), format!("message {}: transmission {} followed the previous one after {} ms, protocol minimum {} ms", k, i + 1, gap_ms, min_ms)));
            }
        }
        let delivered_tx: Vec<u64> = tx.iter().filter_map(|d| fates.delivered.iter().filter(|(id, _)| *id == d.id).map(|(_, t)| *t).min()).collect();
        let first_delivery = delivered_tx.iter().min().copied();
        let deliveries_of_k = tx.iter().map(|d| fates.delivered.iter().filter(|(id, _)| *id == d.id).count()).sum::<usize>();
        if deliveries_of_k > 1 {
            dup_deliveries += deliveries_of_k - 1;
        }
        match res {
            Ok(()) => {
                // O2: success only if the peer's stack received it before the call returned
                if first_delivery.map(|t| t > *t_ret).unwrap_or(true) {
                    v.push((format!("C09:{}:send-ok-but-never-delivered", kind), format!("send of message {} returned Ok at {} us but no transmission of it had been delivered to the peer by then", k, t_ret)));
                }
            }
            Err(code) => {
                // O4: if a transmission got through and every datagram B sent afterwards got through, failure is a lie
                if let Some(t0) = first_delivery {
                    let b_after: Vec<&crate::common::sim::Dgram> = net.log.iter().filter(|d| d.from == 1 && d.sent_at_us >= t0 && d.sent_at_us <= *t_ret).collect();
                    let all_through = !b_after.is_empty() && b_after.iter().all(|d| fates.delivered.iter().any(|(id, t)| *id == d.id && *t <= *t_ret));
                    if all_through {
                        v.push((format!("C09:{}:send-failed-although-delivered-and-acknowledged", kind), format!("message {}: delivered at {} us, all {} datagrams the peer sent afterwards were delivered, yet send returned {}", k, t0, b_after.len(), code)));
                    }
                }
                if code != "TxTimeout" && code != "NoSession" && code != "NoExchange" {
                    v.push((format!("C09:{}:unexpected-send-error:{}", kind, code), format!("message {}", k)));
                }
            }
        }
        // O3: nothing delivered => must fail with a transmit time-out
        if first_delivery.is_none() && res.is_ok() {
            v.push((format!("C09:{}:send-ok-with-every-transmission-lost", kind), format!("message {}", k)));
        }
        // O6: every received duplicate of a reliable message is acknowledged again
        if deliveries_of_k > 1 {
            let mut times: Vec<u64> = tx.iter().flat_map(|d| fates.delivered.iter().filter(move |(id, _)| *id == d.id).map(|(_, t)| *t)).collect();
            times.sort();
            for t in &times[1..] {
                let answered = net.log.iter().any(|d| d.from == 1 && d.sent_at_us >= *t);
                if !answered {
                    v.push((format!("C09:{}:duplicate-not-acknowledged", kind), format!("message {} delivered again at {} us, B sent nothing afterwards", k, t)));
                }
            }
        }
    }
    // the same rules for the handler's reliable replies (B -> A): datagrams of the reply size classes on the
    // session under test, grouped by message counter (all transmissions of one message carry the same one)
    if matches!(cfg.behaviour, Behaviour::Echo | Behaviour::AckThenReply) {
        for (i, (p, _)) in obs.replies.iter().enumerate() {
            if p.first().map(|b| *b as usize) != Some(i) || p.len() != REPLY_LEN {
                let what = if obs.replies[..i].iter().any(|(q, _)| q == p) { "duplicate-reply-delivered-to-application" } else { "wrong-or-reordered-reply-delivered" };
                v.push((format!("C09:{}:{}", kind, what), format!("application of A received as reply #{} a payload starting {:02x?} (len {})", i, &p[..p.len().min(4)], p.len())));
                break;
            }
        }
        let b_out: Vec<&crate::common::sim::Dgram> = net.log.iter().filter(|d| d.from == 1 && d.bytes.len() > 8 && u16::from_le_bytes([d.bytes[1], d.bytes[2]]) == 1 && (d.bytes.len() == base + REPLY_LEN || d.bytes.len() == base + REPLY_LEN + 4)).collect();
        let mut ctrs: Vec<u32> = Vec::new();
        for d in &b_out {
            if !ctrs.contains(&ctr_of(d)) {
                ctrs.push(ctr_of(d));
            }
        }
        // (A gives up for good when one of its own calls failed: what it does with late traffic afterwards is
        // the business of the session clean-up, not of this oracle)
        let a_alive = obs.client_error.is_none() && obs.sent.iter().all(|s| s.1.is_ok());
        for (idx, c) in ctrs.iter().enumerate() {
            let tx: Vec<&&crate::common::sim::Dgram> = b_out.iter().filter(|d| ctr_of(d) == *c).collect();
            retransmissions += tx.len() - 1;
            let mut times: Vec<u64> = tx.iter().flat_map(|d| fates.delivered.iter().filter(move |(id, _)| *id == d.id).map(|(_, t)| *t)).collect();
            times.sort();
            if times.len() > 1 {
                dup_deliveries += times.len() - 1;
            }
            if let Some((_, res, t_ret)) = obs.reply_sent.iter().find(|r| r.0 == idx) {
                match res {
                    Ok(()) => {
                        if times.first().map(|t| t > t_ret).unwrap_or(true) {
                            v.push((format!("C09:{}:reply-send-ok-but-never-delivered", kind), format!("send of reply {} returned Ok at {} us but no transmission of it had been delivered to the peer by then", idx, t_ret)));
                        }
                    }
                    Err(code) => {
                        if let Some(t0) = times.first() {
                            let a_after: Vec<&crate::common::sim::Dgram> = net.log.iter().filter(|d| d.from == 0 && d.sent_at_us >= *t0 && d.sent_at_us <= *t_ret).collect();
                            let all_through = !a_after.is_empty() && a_after.iter().all(|d| fates.delivered.iter().any(|(id, t)| *id == d.id && *t <= *t_ret));
                            if all_through && a_alive {
                                v.push((format!("C09:{}:reply-send-failed-although-delivered-and-acknowledged", kind), format!("reply {}: delivered at {} us, all {} datagrams the peer sent afterwards were delivered, yet send returned {}", idx, t0, a_after.len(), code)));
                            }
                        }
                    }
                }
            }
            // every received duplicate of a reliable message is acknowledged again - also when the application
            // that received the original has meanwhile closed its exchange
            if a_alive {
                for t in times.iter().skip(1) {
                    let answered = net.log.iter().any(|d| d.from == 0 && d.sent_at_us >= *t);
                    if !answered {
                        v.push((format!("C09:{}:duplicate-reply-not-acknowledged", kind), format!("reply {} delivered again at {} us, A sent nothing afterwards", idx, t)));
                    }
                }
            }
        }
    }
    // O7: the sender never hangs
    if !obs.client_done {
        v.push((format!("C09:{}:sender-hangs", kind), format!("client application still blocked at the horizon; sends so far {:?}", obs.sent)));
    }
    // everything lost / everything delivered sanity
    let results: Vec<String> = obs.sent.iter().map(|s| match &s.1 { Ok(()) => "ok".to_string(), Err(e) => e.clone() }).collect();
    let outcome_class = format!("{}|recv={}|{}", results.join(","), obs.recv.len(), obs.client_error.clone().unwrap_or_default());
    let digest = common::digest(&(
        &outcome_class,
        net.log.iter().map(|d| (d.from, d.bytes.clone(), d.sent_at_us)).collect::<Vec<_>>(),
        obs.sent.iter().map(|s| (s.0, s.2)).collect::<Vec<_>>(),
    ));
    Outcome { trace, digest, result: RunResult { violations: v, outcome_class, retransmissions, dup_deliveries } }
}

fn cfgs(tier: Tier) -> Vec<Cfg> {
    let mut v = Vec::new();
    for kind in [SessKind::Case, SessKind::Pase] {
        for behaviour in [Behaviour::Ack, Behaviour::Echo, Behaviour::Sink] {
            if tier == Tier::Quick && kind == SessKind::Pase && behaviour != Behaviour::Ack {
                continue;
            }
            v.push(Cfg { kind, behaviour, messages: 2, strategy: Strategy::Fifo, bystanders: 0, start_ctr: None });
            if kind == SessKind::Case {
                let ns: &[usize] = if tier == Tier::Quick { &[4, usize::MAX] } else { &[1, 2, 3, 4, 5, usize::MAX] };
                for from in [0usize, 1] {
                    for &n in ns {
                        if tier == Tier::Quick && behaviour != Behaviour::Ack && n != usize::MAX {
                            continue;
                        }
                        v.push(Cfg { kind, behaviour, messages: 2, strategy: Strategy::DropFirst { from, n }, bystanders: 0, start_ctr: None });
                    }
                }
            }
        }
    }
    // another session of the sender goes away while the exchange under test is in a back-off wait
    for behaviour in [Behaviour::Ack, Behaviour::Echo] {
        let ns: &[usize] = if tier == Tier::Quick { &[1] } else { &[1, 2, 4] };
        for &n in ns {
            if tier == Tier::Quick && behaviour != Behaviour::Ack {
                continue;
            }
            v.push(Cfg { kind: SessKind::Case, behaviour, messages: 2, strategy: Strategy::DropFirst { from: 0, n }, bystanders: 2, start_ctr: None });
        }
    }
    v
}

fn cfg_json(c: &Cfg) -> Value {
    let (sf, sn) = match c.strategy {
        Strategy::Fifo => (-1i64, 0u64),
        Strategy::DropFirst { from, n } => (from as i64, n.min(1_000_000) as u64),
    };
    json!({"kind": format!("{:?}", c.kind), "behaviour": format!("{:?}", c.behaviour), "messages": c.messages, "drop_from": sf, "drop_n": sn, "bystanders": c.bystanders, "start_ctr": c.start_ctr})
}

fn cfg_from(v: &Value) -> Cfg {
    Cfg {
        kind: if v["kind"] == "Pase" { SessKind::Pase } else { SessKind::Case },
        behaviour: match v["behaviour"].as_str() {
            Some("Echo") => Behaviour::Echo,
            Some("Sink") => Behaviour::Sink,
            Some("AckThenReply") => Behaviour::AckThenReply,
            _ => Behaviour::Ack,
        },
        messages: v["messages"].as_u64().unwrap_or(2) as usize,
        strategy: match v["drop_from"].as_i64() {
            Some(f) if f >= 0 => Strategy::DropFirst { from: f as usize, n: match v["drop_n"].as_u64().unwrap_or(0) { 1_000_000 => usize::MAX, x => x as usize } },
            _ => Strategy::Fifo,
        },
        bystanders: v["bystanders"].as_u64().unwrap_or(0) as usize,
        start_ctr: v["start_ctr"].as_u64().map(|x| x as u32),
    }
}

fn replay(ctx: &Ctx, path: &std::path::Path) -> i32 {
    let doc: Value = serde_json::from_str(&std::fs::read_to_string(path).expect("replay file")).expect("json");
    let r = &doc["replay"];
    if r["mcsp"] == true {
        let mut report = Report::new();
        if let Err(e) = super::c15m::replay(r, &mut report) {
            eprintln!("MACHINERY: {}", e);
            return 2;
        }
        return common::finish(ctx, report, Evidence::new("model_checking"));
    }
    if !r["ids"].is_null() {
        // the identifier sweep is deterministic and small: rerun it and report the class named in the file
        let mut all = Report::new();
        if let Err(e) = super::c15ids::run(&mut all) {
            eprintln!("MACHINERY: {}", e);
            return 2;
        }
        let mut report = Report::new();
        for v in all.violations.values() {
            if Some(v.signature.as_str()) == doc["signature"].as_str() {
                println!("  {} {}", v.signature, v.what);
                report.violation(v.signature.clone(), v.what.clone(), v.replay.clone());
            }
        }
        return common::finish(ctx, report, Evidence::new("model_checking"));
    }
    let cfg = cfg_from(&r["cfg"]);
    let prefix: Vec<usize> = r["choices"].as_array().unwrap().iter().map(|c| c.as_u64().unwrap() as usize).collect();
    std::env::set_var("MC_SHOW_PANICS", "1");
    let mut report = Report::new();
    match run_one(&cfg, &prefix) {
        Err(e) => {
            eprintln!("MACHINERY: {}", e);
            return 2;
        }
        Ok(out) => {
            println!("outcome: {}  retransmissions {}  duplicate deliveries {}", out.result.outcome_class, out.result.retransmissions, out.result.dup_deliveries);
            WIRE_DUMP.with(|d| {
                for l in d.borrow().iter() {
                    println!("  {}", l);
                }
            });
            for (sig, what) in out.result.violations {
                println!("  {} {}", sig, what);
                report.violation(sig, what, r.clone());
            }
        }
    }
    common::finish(ctx, report, Evidence::new("model_checking"))
}

pub fn run(ctx: &Ctx) -> i32 {
    let nonce = ctx.prop == "C15";
    // the oracle switch is read inside worker threads: set it on every rayon thread and here
    rayon::broadcast(|_| NONCE_ORACLE.with(|n| n.set(nonce)));
    NONCE_ORACLE.with(|n| n.set(nonce));
    if let Some(p) = &ctx.replay {
        return replay(ctx, p);
    }
    let bound = match ctx.tier {
        Tier::Quick => 3,
        Tier::Thorough => 5,
    };
    let max_exec: u64 = match ctx.tier {
        Tier::Quick => 200_000,
        Tier::Thorough => 20_000_000,
    };
    let mut report = Report::new();
    let mut per = Vec::new();
    let (mut execs, mut points, mut outcomes, mut retx, mut dups, mut detchk) = (0u64, 0u64, 0usize, 0u64, 0u64, 0u64);
    let mut capped = false;
    let mut classes = std::collections::BTreeSet::new();
    let mut all_cfgs = cfgs(ctx.tier);
    if nonce {
        // pipelined client against an acknowledge-then-reply handler, under every loss policy
        let ns: &[usize] = if ctx.tier == Tier::Quick { &[1, 2] } else { &[1, 2, 3, 4] };
        all_cfgs.push(Cfg { kind: SessKind::Case, behaviour: Behaviour::AckThenReply, messages: 2, strategy: Strategy::Fifo, bystanders: 0, start_ctr: None });
        for from in [0usize, 1] {
            for &n in ns {
                all_cfgs.push(Cfg { kind: SessKind::Case, behaviour: Behaviour::AckThenReply, messages: 2, strategy: Strategy::DropFirst { from, n }, bystanders: 0, start_ctr: None });
            }
        }
    }
    if nonce {
        // sessions whose transmit counters start right below 2^28 (the width of the random start value)
        // and right below 2^32 (the width of the field)
        for c0 in [0x0fff_fffdu32, 0xffff_fffb] {
            all_cfgs.push(Cfg { kind: SessKind::Case, behaviour: Behaviour::Echo, messages: 2, strategy: Strategy::Fifo, bystanders: 0, start_ctr: Some(c0) });
            all_cfgs.push(Cfg { kind: SessKind::Pase, behaviour: Behaviour::Ack, messages: 2, strategy: Strategy::DropFirst { from: 0, n: 1 }, bystanders: 0, start_ctr: Some(c0) });
        }
    }
    for cfg in all_cfgs {
        let viol = std::sync::Mutex::new(Vec::new());
        let agg = std::sync::Mutex::new((0u64, 0u64, std::collections::BTreeSet::new()));
        let stats = e1::explore(
            if cfg.bystanders > 0 { bound.min(4) - 1 } else if cfg.strategy == Strategy::Fifo { bound } else { bound - 1 },
            if cfg.bystanders > 0 { max_exec.min(1_000_000) } else { max_exec },
            if ctx.tier == Tier::Quick { 16 } else { 64 },
            |prefix| {
                let r = common::catch(|| run_one(&cfg, prefix));
                match r {
                    Ok(r) => r,
                    Err(p) => Ok(Outcome {
                        trace: prefix.iter().map(|c| (c + 1, *c)).collect(),
                        digest: 0,
                        result: RunResult { violations: vec![(format!("C09:panic:{}", p.class()), p.to_string())], outcome_class: "panic".into(), retransmissions: 0, dup_deliveries: 0 },
                    }),
                }
            },
            |prefix, out| {
                let choices: Vec<usize> = out.trace.iter().map(|c| c.1).collect();
                let _ = prefix;
                if !out.result.violations.is_empty() {
                    let mut g = viol.lock().unwrap();
                    for (sig, what) in &out.result.violations {
                        g.push((sig.clone(), what.clone(), choices.clone()));
                    }
                }
                let mut a = agg.lock().unwrap();
                a.0 += out.result.retransmissions as u64;
                a.1 += out.result.dup_deliveries as u64;
                a.2.insert(out.result.outcome_class.clone());
            },
        );
        let stats = match stats {
            Ok(s) => s,
            Err(e) => {
                eprintln!("MACHINERY: {}", e);
                return 2;
            }
        };
        let mut vs = viol.into_inner().unwrap();
        // shortest schedule first (fewest deviations, then shortest)
        vs.sort_by_key(|(_, _, c)| (c.iter().filter(|x| **x != 0).count(), c.len()));
        for (sig, what, choices) in vs {
            report.violation(sig, format!("cfg {:?}, schedule {:?}: {}", cfg, choices, what), json!({"cfg": cfg_json(&cfg), "choices": choices}));
        }
        let a = agg.into_inner().unwrap();
        execs += stats.executions;
        points += stats.choice_points;
        outcomes += stats.distinct_outcomes;
        retx += a.0;
        dups += a.1;
        detchk += stats.determinism_checks;
        capped |= stats.capped;
        classes.extend(a.2.iter().cloned());
        per.push(json!({"cfg": cfg_json(&cfg), "executions": stats.executions, "choice_points": stats.choice_points, "distinct_observations": stats.distinct_outcomes, "max_schedule_len": stats.max_trace_len, "outcome_classes": a.2, "capped": stats.capped}));
    }
    let ids = if nonce {
        match super::c15ids::run(&mut report) {
            Ok(s) => Some(s),
            Err(e) => {
                eprintln!("MACHINERY: {}", e);
                return 2;
            }
        }
    } else {
        None
    };
    let mcsp = if nonce {
        match super::c15m::run(ctx.tier, &mut report) {
            Ok(v) => Some(v),
            Err(e) => {
                eprintln!("MACHINERY: {}", e);
                return 2;
            }
        }
    } else {
        None
    };
    let mut ev = Evidence::new("model_checking");
    if let Some(v) = mcsp {
        ev.set("group_counter_synchronisation", v);
    }
    if let Some(s) = &ids {
        if report.violations.is_empty() && (s.skips_observed == 0 || s.wraps_observed == 0) {
            eprintln!("MACHINERY: vacuous identifier sweep (skips {}, wraps {})", s.skips_observed, s.wraps_observed);
            return 2;
        }
        ev.set("identifier_uniqueness", json!({"session_id_allocations": s.session_allocations, "exchange_id_allocations": s.exchange_allocations, "allocations_that_had_to_skip_a_live_id": s.skips_observed, "allocations_across_the_16_bit_wrap": s.wraps_observed,
            "rule": "for every set of live identifiers of a catalog (none, single, runs, both sides of the 16-bit wrap, a nearly full table) and every allocator position next to each live identifier and next to the wrap: identifiers are allocated through the real paths (Sessions::get_next_sess_id, Exchange::initiate), made live and allocated again until the table is full; never the identifier of a live session / live locally initiated exchange, never session id 0"}));
    }
    ev.set("states", json!(outcomes))
        .set("transitions", json!(points))
        .set("traces_validated_against_impl", json!(execs))
        .set("executions", json!(execs))
        .set("exhaustive", json!(!capped))
        .set("deviation_bound_completed", json!(if capped { bound - 1 } else { bound }))
        .set("samples", json!([{"cfg": {"kind": "Case", "behaviour": "Ack", "messages": 2}, "choices": [1, 0, 2], "meaning": "choice indices at successive choice points: 0 deliver oldest, 1 drop it, 2 duplicate it, 3 deliver the second-oldest first, last = let the next timer fire first"}]))
        .set("per_configuration", Value::Array(per))
        .set("vacuity", json!({"retransmissions_observed": retx, "duplicate_deliveries": dups, "distinct_outcome_classes": classes.len(), "determinism_rechecks": detchk}))
        .set("rule", json!(format!("every schedule with at most {} non-default adversary decisions (drop / duplicate / reorder / timer-first) over the whole execution, per configuration (session kind x receiver behaviour), each run to completion + 3 s of quiet virtual time; 'states' counts distinct complete observations (wire log with timestamps + application log)", bound)));
    ev.assume("datagram latency >= 1 ms; the adversary acts only at quiescent points (no datagram is in the middle of being processed)");
    ev.assume("messages are attributed to datagrams by size class and plain-header counter (payload sizes are 16 bytes apart)");
    ev.assume("two reliable messages per exchange, one exchange, one session per execution");
    if nonce {
        ev.coverage.remove("rule");
        ev.set("rule", json!(format!("the wire log of every execution (every schedule with at most {} non-default adversary decisions, all C09 configurations plus a pipelining client against an acknowledge-then-reply handler) is checked: datagrams with equal (sender, session id, message counter) must be byte-identical, and the first transmissions of a sender on a session must carry strictly increasing counters", bound)));
    }
    if report.violations.is_empty() && (classes.len() < 2 || retx == 0) {
        eprintln!("MACHINERY: vacuous C09 run (classes {:?}, retransmissions {})", classes, retx);
        return 2;
    }
    common::finish(ctx, report, ev)
}
