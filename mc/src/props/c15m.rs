//! C15, group-session part: the message-counter-synchronisation responder.
//!
//! A real device (fabric, group key set, `SecureChannel` responder) is asked for its group message
//! counter by a harness-side peer that holds the same operational group key (the request is composed
//! with the repo's own `PacketHdr`). The response is a *reliable* message on a group session: the
//! harness loses its first `losses` transmissions and, between two transmissions, lets the device's
//! application send `sends` group data messages (which advance the counter the response reports).
//! Enumerated: losses 1..=3 x sends before the request 0..=1 x sends between every two transmissions
//! 0..=2. Oracle (C15): every transmission after the first is byte-for-byte the first one; over
//! everything the device put on the wire with that key, no (session id, counter, source) pair ever
//! carries two different ciphertexts; the counters of messages that are not retransmissions strictly
//! increase per counter space (control / data).

use core::num::NonZeroU8;
use std::cell::RefCell;
use std::collections::{BTreeMap, VecDeque};
use std::rc::Rc;

use embassy_futures::select::select;
use rayon::prelude::*;
use serde_json::{json, Value};

use rs_matter::crypto::{CanonAeadKey, Crypto, AEAD_KEY_ZEROED};
use rs_matter::error::Error;
use rs_matter::group_keys::KeySet;
use rs_matter::respond::Responder;
use rs_matter::sc::mcsp::MsgCounterSyncReq;
use rs_matter::sc::{OpCode, SecureChannel, PROTO_ID_SECURE_CHANNEL};
use rs_matter::transport::exchange::{Exchange, MessageMeta};
use rs_matter::transport::network::NoNetwork;
use rs_matter::transport::packet::PacketHdr;
use rs_matter::transport::session::derive_group_session_id;
use rs_matter::utils::storage::{ParseBuf, WriteBuf};

use crate::common::kv::RecKv;
use crate::common::rng::SeededRng;
use crate::common::sim::{Exec, Net, Owned};
use crate::common::{self, creds, hex, nodes, vclock, Report, Tier};

const START_US: u64 = 77_000_000_000;
const NODE_D: u64 = 0xD0D0;
const NODE_P: u64 = 0xA0A0;
const GROUP_ID: u16 = 0x0101;
const EPOCH_BYTE: u8 = 0x5e;

#[derive(Clone, Debug)]
pub struct Scn {
    /// transmissions of the response that are lost before the peer acknowledges one
    losses: usize,
    /// group data messages the application sends before the request arrives
    sends_before: usize,
    /// group data messages the application sends after every lost transmission
    sends_between: usize,
}

fn scn_json(s: &Scn) -> Value {
    json!({"mcsp": true, "losses": s.losses, "sends_before": s.sends_before, "sends_between": s.sends_between})
}

pub fn scn_from(v: &Value) -> Option<Scn> {
    Some(Scn { losses: v["losses"].as_u64()? as usize, sends_before: v["sends_before"].as_u64()? as usize, sends_between: v["sends_between"].as_u64()? as usize })
}

#[derive(Default, Debug)]
pub struct Outcome {
    pub transmissions: usize,
    pub group_data_messages: usize,
    pub violations: Vec<(String, String)>,
}

/// (flags, session id, counter, source node id) of a datagram's plain header.
fn plain(bytes: &[u8]) -> Option<(bool, u16, u32, Option<u64>)> {
    let mut b = bytes.to_vec();
    let mut pb = ParseBuf::new(&mut b);
    let mut hdr = PacketHdr::new();
    hdr.decode_plain_hdr(&mut pb).ok()?;
    Some((hdr.plain.is_control_msg(), hdr.plain.sess_id, hdr.plain.ctr, hdr.plain.get_src_nodeid()))
}

fn compose<C: Crypto>(crypto: &C, op_key: &CanonAeadKey, sess_id: u16, ctr: u32, exch_id: u16, ack: Option<u32>, challenge: [u8; 8]) -> Result<Vec<u8>, Error> {
    let mut buf = [0u8; 256];
    let mut wb = WriteBuf::new_with(&mut buf, PacketHdr::HDR_RESERVE, PacketHdr::HDR_RESERVE);
    let mut hdr = PacketHdr::new();
    hdr.plain.sess_id = sess_id;
    hdr.plain.ctr = ctr;
    hdr.plain.set_group_session(true);
    hdr.plain.set_control_msg(true);
    hdr.plain.set_src_nodeid(Some(NODE_P));
    hdr.plain.set_dst_unicast_nodeid(Some(NODE_D));
    hdr.proto.proto_id = PROTO_ID_SECURE_CHANNEL;
    hdr.proto.exch_id = exch_id;
    hdr.proto.set_initiator();
    match ack {
        None => {
            hdr.proto.proto_opcode = OpCode::MsgCounterSyncReq as u8;
            hdr.proto.set_reliable();
            MsgCounterSyncReq { challenge }.write(&mut wb)?;
        }
        Some(a) => {
            hdr.proto.proto_opcode = OpCode::MRPStandAloneAck as u8;
            hdr.proto.unset_reliable();
            hdr.proto.set_ack(Some(a));
        }
    }
    hdr.encode(crypto, Some(op_key.reference()), NODE_P, &mut wb)?;
    let (start, end) = (wb.get_start(), wb.get_tail());
    Ok(buf[start..end].to_vec())
}

pub fn run_scn(s: &Scn) -> Result<Outcome, String> {
    vclock::reset(START_US);
    let net = Net::new(2);
    let d = Owned::from_box(nodes::new_matter());
    let md = d.get();
    let c0 = nodes::crypto(SeededRng::new(1500));
    let fab = creds::mint_fabric(&c0, 1, false, rs_matter::cert::gen::VALID_FOREVER, 0xA7).map_err(|e| format!("harness: fabric: {:?}", e.code()))?;
    let nc = creds::mint_noc(&c0, &fab, NODE_D, &[], rs_matter::cert::gen::VALID_FOREVER, None).map_err(|e| format!("harness: noc: {:?}", e.code()))?;
    let idx = creds::install(md, &c0, &fab, &nc, NODE_P).map_err(|e| format!("harness: install: {:?}", e.code()))?;
    nodes::add_group_keys(md, idx, &[(GROUP_ID, 42, EPOCH_BYTE)]);
    // the peer's copy of the operational group key and the group session id derived from it
    let cfid = md.with_state(|state| state.fabrics.fabric(idx).unwrap().compressed_fabric_id());
    let mut epoch = CanonAeadKey::new();
    epoch.load_from_array(&[EPOCH_BYTE; 16]);
    let mut ks = KeySet::new();
    ks.update(&c0, epoch.reference(), &cfid).map_err(|e| format!("harness: key set: {:?}", e.code()))?;
    let sess_id = derive_group_session_id(&c0, ks.op_key()).map_err(|e| format!("harness: session id: {:?}", e.code()))?;
    let mut op_key = AEAD_KEY_ZEROED;
    op_key.load(ks.op_key());

    let queue: Rc<RefCell<VecDeque<u32>>> = Rc::new(RefCell::new(VecDeque::new()));
    let sent: Rc<RefCell<Vec<Result<(), String>>>> = Rc::new(RefCell::new(Vec::new()));
    let mut exec = Exec::new();
    let d_task = {
        let (send, recv) = (net.end(1), net.end(1));
        let (q, sent2) = (queue.clone(), sent.clone());
        exec.spawn("D", async move {
            let c = nodes::crypto(SeededRng::new(1501));
            let sc = SecureChannel::new(&c, &());
            let responder = Responder::new("D", sc, md, 0);
            // the application: one group data message per queued request
            let app = async {
                loop {
                    let next = core::future::poll_fn(|_| match q.borrow_mut().pop_front() {
                        Some(x) => core::task::Poll::Ready(x),
                        None => core::task::Poll::Pending,
                    })
                    .await;
                    let r: Result<(), Error> = async {
                        let mut ex = Exchange::initiate_group(md, &c, md.kv(RecKv::new()), NonZeroU8::new(1).unwrap(), GROUP_ID)?;
                        ex.send(MessageMeta::new(0x7e57, 7, false), &next.to_le_bytes()).await
                    }
                    .await;
                    sent2.borrow_mut().push(r.map_err(|e| format!("{:?}", e.code())));
                }
            };
            let _ = select(select(md.run(&c, send, recv, NoNetwork), responder.run::<2>()), app).await;
        })
    };
    exec.run()?;
    let mut out = Outcome::default();
    let mut serial = 0u32;
    let mut app_sends = |exec: &mut Exec, n: usize| -> Result<(), String> {
        for _ in 0..n {
            queue.borrow_mut().push_back(serial);
            serial += 1;
            exec.wake(d_task);
            exec.run()?;
        }
        Ok(())
    };
    app_sends(&mut exec, s.sends_before)?;
    // everything the device sends is taken off the network by the harness (it *is* the peer / the group)
    let mut wire: Vec<Vec<u8>> = Vec::new();
    let drain = |wire: &mut Vec<Vec<u8>>| {
        while net.inflight_len() > 0 {
            if let Some(dg) = net.drop_dgram(0) {
                if dg.from == 1 {
                    wire.push(dg.bytes);
                }
            }
        }
    };
    drain(&mut wire);
    let req = compose(&c0, &op_key, sess_id, 0x0123_4567, 0x4d43, None, [1, 2, 3, 4, 5, 6, 7, 8]).map_err(|e| format!("harness: request: {:?}", e.code()))?;
    net.inject(0, 1, req);
    net.deliver(0, false);
    exec.run()?;
    // transmissions of the response: control messages of the group session that are not standalone acks
    let mut responses: Vec<Vec<u8>> = Vec::new();
    let is_response = |b: &[u8]| plain(b).map(|p| p.0 && p.1 == sess_id).unwrap_or(false);
    for _round in 0..=s.losses {
        // wait for the next transmission
        let mut guard = 0;
        loop {
            let before = wire.len();
            drain(&mut wire);
            let new: Vec<Vec<u8>> = wire[before..].iter().filter(|b| is_response(b)).cloned().collect();
            if !new.is_empty() {
                responses.extend(new);
                break;
            }
            guard += 1;
            if guard > 2000 {
                break;
            }
            match vclock::next_deadline() {
                Some(t) if t <= START_US + 120_000_000 => vclock::advance_to(t),
                _ => break,
            }
            exec.run()?;
        }
        if responses.len() > s.losses {
            break;
        }
        // (this transmission is lost) the application sends in the meantime
        app_sends(&mut exec, s.sends_between)?;
    }
    drain(&mut wire);
    if responses.is_empty() {
        return Err("harness: the device did not answer the counter synchronisation request".into());
    }
    // acknowledge the last transmission
    if let Some((_, _, ctr, _)) = plain(responses.last().unwrap()) {
        let ack = compose(&c0, &op_key, sess_id, 0x0123_4568, 0x4d43, Some(ctr), [0; 8]).map_err(|e| format!("harness: ack: {:?}", e.code()))?;
        net.inject(0, 1, ack);
        net.deliver(0, false);
        exec.run()?;
        for _ in 0..50 {
            match vclock::next_deadline() {
                Some(t) if t <= START_US + 200_000_000 => vclock::advance_to(t),
                _ => break,
            }
            exec.run()?;
            drain(&mut wire);
        }
    }
    out.transmissions = responses.len();
    out.group_data_messages = sent.borrow().iter().filter(|r| r.is_ok()).count();
    if let Some(e) = sent.borrow().iter().find_map(|r| r.clone().err()) {
        return Err(format!("harness: the application's group message was refused: {}", e));
    }
    // (a) retransmissions are bit-identical
    for (k, r) in responses.iter().enumerate().skip(1) {
        if *r != responses[0] {
            let same_ctr = plain(r).map(|p| p.2) == plain(&responses[0]).map(|p| p.2);
            out.violations.push((
                format!("C15:mcsp:retransmission-differs-from-the-original{}", if same_ctr { ":same-counter" } else { "" }),
                format!("transmission {} of the MsgCounterSyncRsp differs from the first one: {} vs {}", k + 1, hex(r), hex(&responses[0])),
            ));
        }
    }
    // (b) no (control?, session id, counter, source) with two different ciphertexts, over everything sent
    let mut seen: BTreeMap<(bool, u16, u32, Option<u64>), Vec<u8>> = BTreeMap::new();
    for b in &wire {
        if let Some(k) = plain(b) {
            if k.1 == 0 {
                continue;
            }
            match seen.get(&k) {
                Some(prev) if prev != b => out.violations.push(("C15:mcsp:same-key-counter-and-source-for-two-different-messages".into(), format!("session id {:#x} counter {:#x} source {:x?}: {} and {}", k.1, k.2, k.3, hex(prev), hex(b)))),
                Some(_) => {}
                None => {
                    seen.insert(k, b.clone());
                }
            }
        }
    }
    // (c) counters of new messages strictly increase per counter space
    for control in [false, true] {
        let mut last: Option<u32> = None;
        let mut firsts: Vec<u32> = Vec::new();
        for b in &wire {
            if let Some(k) = plain(b) {
                if k.1 == 0 || k.0 != control || firsts.contains(&k.2) {
                    continue;
                }
                firsts.push(k.2);
                if let Some(l) = last {
                    if k.2 <= l {
                        out.violations.push(("C15:mcsp:counter-not-increasing".into(), format!("{} message counter {:#x} after {:#x}", if control { "control" } else { "data" }, k.2, l)));
                    }
                }
                last = Some(k.2);
            }
        }
    }
    let _ = &d;
    Ok(out)
}

pub fn catalog(tier: Tier) -> Vec<Scn> {
    let mut v = Vec::new();
    for losses in 1..=(if tier == Tier::Quick { 2 } else { 4 }) {
        for sends_before in 0..=1 {
            for sends_between in 0..=2 {
                v.push(Scn { losses, sends_before, sends_between });
            }
        }
    }
    v
}

/// Runs the catalog, reports violations under C15, returns the evidence object of this part.
pub fn run(tier: Tier, report: &mut Report) -> Result<Value, String> {
    let cat = catalog(tier);
    let results: Vec<(Scn, Result<Result<Outcome, String>, common::Panic>)> = cat.par_iter().map(|s| (s.clone(), common::catch(|| run_scn(s)))).collect();
    let (mut tx, mut data, mut retx) = (0usize, 0usize, 0usize);
    for (s, r) in results {
        match r {
            Err(p) => report.violation(format!("C15:mcsp:panic:{}", p.class()), format!("{:?}: {}", s, p), scn_json(&s)),
            Ok(Err(e)) => return Err(format!("{} ({:?})", e, s)),
            Ok(Ok(o)) => {
                tx += o.transmissions;
                retx += o.transmissions.saturating_sub(1);
                data += o.group_data_messages;
                for (sig, what) in o.violations {
                    report.violation(sig, format!("{:?}: {}", s, what), scn_json(&s));
                }
            }
        }
    }
    if report.violations.is_empty() && (retx == 0 || data == 0) {
        return Err(format!("vacuous counter-synchronisation part ({} retransmissions, {} group data messages)", retx, data));
    }
    Ok(json!({
        "scenarios": cat.len(), "response_transmissions": tx, "retransmissions_compared": retx, "group_data_messages_sent_by_the_application": data,
        "rule": "a real device (fabric, group key set, SecureChannel responder) answers a group-encrypted MsgCounterSyncReq composed by the harness; the first 1..=2 (thorough 4) transmissions of its reliable MsgCounterSyncRsp are lost, the application sends 0..=1 group data messages before the request and 0..=2 after every lost transmission: every retransmission must be byte-identical to the first transmission, no (session id, counter, source) pair may carry two different ciphertexts, and the counters of new messages strictly increase per counter space",
    }))
}

pub fn replay(v: &Value, report: &mut Report) -> Result<(), String> {
    let s = scn_from(v).ok_or("the replay file does not describe a counter-synchronisation scenario")?;
    let o = run_scn(&s)?;
    println!("{:?}: {} transmissions of the response, {} group data messages", s, o.transmissions, o.group_data_messages);
    for (sig, what) in o.violations {
        println!("  {} {}", sig, what);
        report.violation(sig, what, scn_json(&s));
    }
    Ok(())
}
