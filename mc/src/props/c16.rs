//! C16 — the TLV codec round-trips every value and rejects every malformed input safely.
//!
//! Bounded exhaustive input enumeration on the real codec:
//!  A1  all byte strings up to a length bound (+ longer ones over a boundary alphabet);
//!  A2  a grammar-directed malformed set (every control byte x every tag form x length fields
//!      replaced by boundary values up to 2^64-1 x nesting 0..3 x truncation at every byte);
//!  B   round trip of every value tree over boundary alphabets (write -> read -> compare ->
//!      re-encode -> compare bytes);
//!  D   every derived wire structure with a public decoder fed with A1/A2 and with all
//!      single-byte mutations / truncations of valid encodings, plus value round trips.
//! On each input every public accessor of `TLVElement` / `TLVSequence` is called.
//! A watchdog turns a non-terminating decode into a violation.

use std::cell::Cell;
use std::sync::Mutex;
use std::time::{Duration, Instant};

use rayon::prelude::*;
use serde_json::{json, Value};

use rs_matter::acl::{AclEntry, Target};
use rs_matter::im::{
    AttrData, AttrPath, AttrResp, AttrStatus, ClusterPath, CmdData, CmdPath, CmdResp, CmdStatus, DataVersionFilter,
    EventFilter, EventPath, InvReq, InvokeResp, ReadReq, ReportDataResp, Status, StatusResp, SubscribeReq,
    SubscribeResp, TimedReq, WriteReq, WriteResp,
};
use rs_matter::tlv::{
    FromTLV, TLVElement, TLVSequence, TLVTag, TLVValue, TLVWrite, ToTLV,
};
use rs_matter::utils::storage::WriteBuf;

use crate::common::{self, hex, unhex, Ctx, Evidence, Report, Tier};

thread_local! {
    static ACCESSOR: Cell<&'static str> = const { Cell::new("") };
}

type Slot = std::sync::Arc<Mutex<Option<(Vec<u8>, Instant)>>>;
static WATCH: Mutex<Vec<Slot>> = Mutex::new(Vec::new());

thread_local! {
    static MY_SLOT: Slot = {
        let s: Slot = std::sync::Arc::new(Mutex::new(None));
        WATCH.lock().unwrap().push(s.clone());
        s
    };
}

fn watch_begin(input: &[u8]) {
    // per-thread slot: the mutex is only ever contended by the watchdog (twice a second)
    MY_SLOT.with(|s| {
        let mut g = s.lock().unwrap();
        match g.as_mut() {
            Some((v, t)) => {
                v.clear();
                v.extend_from_slice(input);
                *t = Instant::now();
            }
            None => *g = Some((input.to_vec(), Instant::now())),
        }
    });
}

fn watch_end() {
    MY_SLOT.with(|s| {
        if let Some((v, _)) = s.lock().unwrap().as_mut() {
            v.clear();
            v.push(0xEE);
            v.push(0x0D);
        }
    });
}

fn start_watchdog(prop: String) {
    std::thread::spawn(move || loop {
        std::thread::sleep(Duration::from_millis(500));
        let slots: Vec<Slot> = WATCH.lock().unwrap().clone();
        for s in slots {
            let g = s.lock().unwrap();
            if let Some(e) = g.as_ref() {
                if e.0 != [0xEE, 0x0D] && e.1.elapsed() > Duration::from_secs(20) {
                    let path = format!("{}/replays/{}-hang.json", common::VERIF_DIR, prop);
                    let doc = json!({"property": prop, "signature": format!("{}:decode:no-termination", prop),
                        "what": "decoder did not terminate within 20 s on this input", "replay": {"kind": "bytes", "hex": hex(&e.0)}});
                    let _ = std::fs::write(&path, serde_json::to_string_pretty(&doc).unwrap());
                    println!("VIOLATION property={} replay={}", prop, path);
                    std::process::exit(1);
                }
            }
        }
    });
}

fn within(input: &[u8], s: &[u8]) -> bool {
    if s.is_empty() {
        return true;
    }
    let a = input.as_ptr() as usize;
    let b = s.as_ptr() as usize;
    b >= a && b + s.len() <= a + input.len()
}

macro_rules! acc {
    ($name:literal, $e:expr) => {{
        ACCESSOR.with(|a| a.set($name));
        $e
    }};
}

struct Probe<'i> {
    input: &'i [u8],
    steps: usize,
    oob: Option<&'static str>,
    loop_detected: Option<&'static str>,
    ok_accessors: u32,
    reencode_diff: Option<(&'static str, String)>,
}

impl<'i> Probe<'i> {
    fn slice(&mut self, name: &'static str, r: Result<&'i [u8], rs_matter::error::Error>) {
        if let Ok(s) = r {
            self.ok_accessors += 1;
            if !within(self.input, s) || s.len() > self.input.len() {
                self.oob = Some(name);
            }
        }
    }

    fn element(&mut self, e: &TLVElement<'i>, depth: usize) {
        self.steps += 1;
        let cap = self.input.len() * 4 + 64;
        if self.steps > cap {
            self.loop_detected = Some("element-recursion");
            return;
        }
        let _ = acc!("is_empty", e.is_empty());
        let rd = acc!("raw_data", e.raw_data());
        if !within(self.input, rd) {
            self.oob = Some("raw_data");
        }
        let _ = acc!("control", e.control());
        let r = acc!("raw_value", e.raw_value());
        self.slice("raw_value", r);
        let _ = acc!("tag", e.tag());
        if let Ok(v) = acc!("value", e.value()) {
            self.ok_accessors += 1;
            match v {
                TLVValue::Utf8l(s) | TLVValue::Utf16l(s) | TLVValue::Utf32l(s) | TLVValue::Utf64l(s) => {
                    if !within(self.input, s.as_bytes()) {
                        self.oob = Some("value");
                    }
                }
                TLVValue::Str8l(s) | TLVValue::Str16l(s) | TLVValue::Str32l(s) | TLVValue::Str64l(s) => {
                    if !within(self.input, s) {
                        self.oob = Some("value");
                    }
                }
                _ => {}
            }
        }
        let _ = acc!("tlv", e.tlv());
        let _ = acc!("i8", e.i8());
        let _ = acc!("u8", e.u8());
        let _ = acc!("i16", e.i16());
        let _ = acc!("u16", e.u16());
        let _ = acc!("i32", e.i32());
        let _ = acc!("u32", e.u32());
        let _ = acc!("i64", e.i64());
        let _ = acc!("u64", e.u64());
        let _ = acc!("f32", e.f32());
        let _ = acc!("f64", e.f64());
        let r = acc!("str", e.str());
        self.slice("str", r);
        let r = acc!("utf8", e.utf8()).map(|s| s.as_bytes());
        self.slice("utf8", r);
        let r = acc!("octets", e.octets());
        self.slice("octets", r);
        let _ = acc!("bool", e.bool());
        let _ = acc!("null", e.null());
        let _ = acc!("is_container", e.is_container());
        let _ = acc!("confirm_anon", e.confirm_anon());
        let _ = acc!("ctx", e.ctx());
        let _ = acc!("try_ctx", e.try_ctx());
        let _ = acc!("read<u8>", e.read::<u8>(0));
        let _ = acc!("read_opt<u64>", e.read_opt::<u64>(1));
        let _ = acc!("structure", e.structure());
        let _ = acc!("struct", e.r#struct());
        let _ = acc!("array", e.array());
        let _ = acc!("list", e.list());
        if let Ok(seq) = acc!("container", e.container()) {
            self.ok_accessors += 1;
            self.sequence(&seq, depth);
        }
        // re-encoding a decoded element reproduces its bytes (whatever the width of its length field)
        if let Ok(tag) = e.tag() {
            let raw = e.raw_data();
            let mut out = vec![0u8; raw.len() + 16];
            let mut wb = WriteBuf::new(&mut out);
            ACCESSOR.with(|a| a.set("to_tlv"));
            let mut by_to_tlv: Option<Vec<u8>> = Option::None;
            if e.to_tlv(&tag, &mut wb).is_ok() {
                let o = wb.as_slice();
                if o.len() > raw.len() || o != &raw[..o.len()] {
                    self.reencode_diff = Some(("TLVElement::to_tlv", hex(&o[..o.len().min(16)])));
                }
                by_to_tlv = Some(o.to_vec());
            }
            // ... and so does re-encoding through the element's stream of TLV items
            {
                let mut wb = WriteBuf::new(&mut out);
                ACCESSOR.with(|a| a.set("tlv_iter"));
                let mut ok = true;
                let mut n = 0usize;
                for t in e.tlv_iter(tag.clone()) {
                    n += 1;
                    match t {
                        Ok(t) if n <= 2 * raw.len() + 4 => {
                            if wb.tlv(&t.tag, &t.value).is_err() {
                                ok = false;
                                break;
                            }
                        }
                        _ => {
                            ok = false;
                            break;
                        }
                    }
                }
                if ok {
                    // (the element's own bytes are what the direct re-encoding reproduced)
                    let o = wb.as_slice();
                    // (a stray end-of-container marker is not a value: nothing to compare)
                    let stray_end = raw.first().map(|c| c & 0x1f == 0x18).unwrap_or(false);
                    if let Some(want) = by_to_tlv.as_ref().filter(|_| !stray_end) {
                        if o != &want[..] {
                            self.reencode_diff = Some(("ToTLV::tlv_iter", format!("{} bytes instead of {}: {}", o.len(), want.len(), hex(&o[..o.len().min(24)]))));
                        }
                    }
                }
            }
            if let Ok(v) = e.value() {
                if !v.value_type().is_container() {
                    let mut wb = WriteBuf::new(&mut out);
                    ACCESSOR.with(|a| a.set("TLVWrite::tlv"));
                    if wb.tlv(&tag, &v).is_ok() {
                        let o = wb.as_slice();
                        if o.len() > raw.len() || o != &raw[..o.len()] {
                            self.reencode_diff = Some(("TLVWrite::tlv(tag, value)", hex(&o[..o.len().min(16)])));
                        }
                    }
                }
            }
        }
        if depth == 0 {
            use std::fmt::Write;
            let mut s = String::new();
            let _ = acc!("Display", write!(s, "{}", e));
            s.clear();
            let _ = acc!("Debug", write!(s, "{:?}", e));
        }
    }

    fn sequence(&mut self, seq: &TLVSequence<'i>, depth: usize) {
        let r = acc!("seq.raw_value", seq.raw_value());
        self.slice("seq.raw_value", r);
        let _ = acc!("seq.ctx", seq.ctx(0));
        let _ = acc!("seq.find_ctx", seq.find_ctx(1));
        {
            let mut s2 = seq.clone();
            let _ = acc!("seq.scan_ctx", s2.scan_ctx(0));
            let _ = acc!("seq.scan_ctx", s2.scan_ctx(2));
        }
        let cap = self.input.len() + 2;
        let mut n = 0usize;
        ACCESSOR.with(|a| a.set("seq.iter"));
        for child in seq.iter() {
            n += 1;
            if n > cap {
                self.loop_detected = Some("seq.iter");
                break;
            }
            match child {
                Ok(c) => {
                    if depth < 6 {
                        self.element(&c, depth + 1);
                    }
                    ACCESSOR.with(|a| a.set("seq.iter"));
                }
                Err(_) => break,
            }
        }
        let mut n = 0usize;
        ACCESSOR.with(|a| a.set("seq.tlv_iter"));
        for t in seq.tlv_iter() {
            n += 1;
            if n > cap * 2 + 2 {
                self.loop_detected = Some("seq.tlv_iter");
                break;
            }
            if t.is_err() {
                break;
            }
        }
    }
}

macro_rules! wire_types {
    ($mac:ident) => {
        $mac!(
            AttrPath, AttrStatus, AttrData, AttrResp, ClusterPath, DataVersionFilter, ReportDataResp, ReadReq,
            WriteReq, WriteResp, SubscribeReq, SubscribeResp, CmdPath, CmdStatus, CmdData, CmdResp, InvReq,
            InvokeResp, EventFilter, EventPath, Status, StatusResp, TimedReq, AclEntry, Target
        )
    };
}

/// Feed `input` to every public derived decoder; decoded values are formatted (lazy parsers
/// expose their content through Debug), re-encoded and decoded again.
fn probe_wire(input: &[u8], out: &mut Vec<(String, String)>) -> u32 {
    let mut decoded = 0u32;
    macro_rules! go {
        ($($t:ident),*) => {$(
            {
                ACCESSOR.with(|a| a.set(concat!("from_tlv<", stringify!($t), ">")));
                let e = TLVElement::new(input);
                if let Ok(v) = <$t>::from_tlv(&e) {
                    decoded += 1;
                    use std::fmt::Write;
                    let mut s = String::new();
                    ACCESSOR.with(|a| a.set(concat!("Debug<", stringify!($t), ">")));
                    let _ = write!(s, "{:?}", v);
                    ACCESSOR.with(|a| a.set(concat!("to_tlv<", stringify!($t), ">")));
                    let mut buf = vec![0u8; input.len() * 2 + 64];
                    let mut wb = WriteBuf::new(&mut buf);
                    if v.to_tlv(&TLVTag::Anonymous, &mut wb).is_ok() {
                        let bytes = wb.as_slice().to_vec();
                        ACCESSOR.with(|a| a.set(concat!("from_tlv2<", stringify!($t), ">")));
                        match <$t>::from_tlv(&TLVElement::new(&bytes)) {
                            Ok(v2) => {
                                let mut s2 = String::new();
                                ACCESSOR.with(|a| a.set(concat!("Debug2<", stringify!($t), ">")));
                                let _ = write!(s2, "{:?}", v2);
                                if s2 != s {
                                    // lazily parsed wrappers compare raw bytes incl. trailing garbage of the input
                                    let lazy = matches!(stringify!($t), "ReadReq" | "WriteReq" | "SubscribeReq" | "InvReq");
                                    if !lazy {
                                        out.push((format!("C16:wire:{}:reencode-changes-value", stringify!($t)),
                                                  format!("{} decoded from {} re-encodes to {} which decodes to a different value", stringify!($t), hex(input), hex(&bytes))));
                                    }
                                }
                            }
                            Err(_) => {
                                // A value that decoded leniently may be unrepresentable canonically only if
                                // the first decode accepted something the encoder cannot express; report.
                                out.push((format!("C16:wire:{}:reencoded-form-rejected", stringify!($t)),
                                          format!("{} decoded from {} re-encodes to {} which is rejected", stringify!($t), hex(input), hex(&bytes))));
                            }
                        }
                    }
                }
            }
        )*};
    }
    wire_types!(go);
    decoded
}

#[derive(Default)]
struct Acc {
    inputs: u64,
    decoded_ok: u64,
    wire_decoded: u64,
    report: Report,
    distinct_outcomes: std::collections::BTreeSet<u64>,
}

impl Acc {
    fn merge(mut self, o: Acc) -> Acc {
        self.inputs += o.inputs;
        self.decoded_ok += o.decoded_ok;
        self.wire_decoded += o.wire_decoded;
        self.report.merge(o.report);
        self.distinct_outcomes.extend(o.distinct_outcomes);
        self
    }
}

fn probe_input(input: &[u8], wire: bool, acc: &mut Acc) {
    acc.inputs += 1;
    watch_begin(input);
    let mut wire_out = Vec::new();
    let res = common::catch(|| {
        let mut p = Probe { input, steps: 0, oob: None, loop_detected: None, ok_accessors: 0, reencode_diff: None };
        let e = TLVElement::new(input);
        p.element(&e, 0);
        let wd = if wire { probe_wire(input, &mut wire_out) } else { 0 };
        (p.oob, p.loop_detected, p.ok_accessors, wd, p.reencode_diff)
    });
    watch_end();
    let replay = json!({"kind": "bytes", "hex": hex(input)});
    match res {
        Err(p) => {
            let accessor = ACCESSOR.with(|a| a.get());
            acc.report.violation(
                format!("C16:decode:panic:{}", p.class()),
                format!("input {} accessor {}: {}", hex(input), accessor, p),
                replay,
            );
        }
        Ok((oob, lp, okn, wd, rd)) => {
            if let Some((how, got)) = rd {
                acc.report.violation(
                    format!("C16:reencode-differs:{}", how),
                    format!("input {}: an element decoded from it re-encodes through {} to {}...", hex(input), how, got),
                    replay.clone(),
                );
            }
            if okn > 2 {
                acc.decoded_ok += 1;
            }
            acc.wire_decoded += wd as u64;
            acc.distinct_outcomes.insert(common::digest(&(okn, wd)));
            if let Some(a) = oob {
                acc.report.violation(
                    format!("C16:decode:length-outside-input:{}", a),
                    format!("input {} accessor {} returned a slice outside the input", hex(input), a),
                    replay.clone(),
                );
            }
            if let Some(a) = lp {
                acc.report.violation(
                    format!("C16:decode:unbounded-iteration:{}", a),
                    format!("input {} iterator {} yields more items than input bytes", hex(input), a),
                    replay.clone(),
                );
            }
            for (sig, what) in wire_out {
                acc.report.violation(sig, what, replay.clone());
            }
        }
    }
}

// ------------------------------------------------------------------ A1: all short byte strings

const BOUNDARY_BYTES: [u8; 16] = [
    0x00, 0x01, 0x02, 0x04, 0x08, 0x0c, 0x10, 0x15, 0x16, 0x17, 0x18, 0x24, 0x30, 0x7f, 0x80, 0xff,
];

fn a1(tier: Tier) -> Acc {
    let full_len = match tier {
        Tier::Quick => 2,
        Tier::Thorough => 3,
    };
    let ext_len = match tier {
        Tier::Quick => 4,
        Tier::Thorough => 6,
    };
    (0u32..256)
        .into_par_iter()
        .map(|b0| {
            let mut acc = Acc::default();
            let b0 = b0 as u8;
            if b0 == 0 {
                probe_input(&[], true, &mut acc);
            }
            // full enumeration up to full_len
            let mut buf = vec![b0];
            probe_input(&buf, true, &mut acc);
            fn rec_full(buf: &mut Vec<u8>, max: usize, acc: &mut Acc) {
                if buf.len() >= max {
                    return;
                }
                for b in 0..=255u8 {
                    buf.push(b);
                    probe_input(buf, buf.len() <= 2, acc);
                    rec_full(buf, max, acc);
                    buf.pop();
                }
            }
            rec_full(&mut buf, full_len, &mut acc);
            // longer strings over the boundary alphabet (first byte: every control byte)
            fn rec_ext(buf: &mut Vec<u8>, min: usize, max: usize, acc: &mut Acc) {
                if buf.len() >= max {
                    return;
                }
                for &b in BOUNDARY_BYTES.iter() {
                    buf.push(b);
                    if buf.len() > min {
                        probe_input(buf, false, acc);
                    }
                    rec_ext(buf, min, max, acc);
                    buf.pop();
                }
            }
            let mut buf = vec![b0];
            rec_ext(&mut buf, full_len, ext_len, &mut acc);
            acc
        })
        .reduce(Acc::default, Acc::merge)
}

// ------------------------------------------------------------------ A2: grammar-directed malformed set

const LEN_VALUES: [u64; 19] = [
    0,
    1,
    2,
    3,
    4,
    5,
    0x7f,
    0x80,
    0xff,
    0x100,
    0xffff,
    0x1_0000,
    0x7fff_ffff,
    0x8000_0000,
    0xffff_ffff,
    0x1_0000_0000,
    0x7fff_ffff_ffff_ffff,
    0x8000_0000_0000_0000,
    0xffff_ffff_ffff_ffff,
];

fn tag_bytes(tag_type: u8) -> Vec<u8> {
    match tag_type {
        0 => vec![],
        1 => vec![0x01],
        2 | 4 => vec![0x34, 0x12],
        3 | 5 => vec![0x78, 0x56, 0x34, 0x12],
        6 => vec![0xf1, 0xff, 0x00, 0x00, 0x01, 0x00],
        _ => vec![0xf1, 0xff, 0x00, 0x00, 0x01, 0x00, 0x00, 0x00],
    }
}

fn a2_inputs_for(control: u8) -> Vec<Vec<u8>> {
    let mut out = Vec::new();
    let vt = control & 0x1f;
    let tt = control >> 5;
    let mut heads: Vec<Vec<u8>> = Vec::new();
    let mut base = vec![control];
    base.extend(tag_bytes(tt));
    match vt {
        0x0c..=0x13 => {
            let w = 1usize << ((vt - 0x0c) % 4);
            for &l in LEN_VALUES.iter() {
                let lv = if w == 8 { l } else { l & ((1u64 << (8 * w)) - 1) };
                for payload in [0usize, 1, 2, 5] {
                    let mut h = base.clone();
                    h.extend_from_slice(&lv.to_le_bytes()[..w]);
                    h.extend(std::iter::repeat(b'a').take(payload));
                    heads.push(h);
                }
            }
        }
        0x00..=0x07 | 0x0a | 0x0b => {
            let sz = match vt {
                0 | 4 => 1,
                1 | 5 => 2,
                2 | 6 | 0x0a => 4,
                _ => 8,
            };
            let mut h = base.clone();
            h.extend(std::iter::repeat(0xff).take(sz));
            heads.push(h);
        }
        0x15..=0x17 => {
            // container with one child and its end marker; and unterminated variants
            let mut h = base.clone();
            h.extend_from_slice(&[0x24, 0x01, 0x05, 0x18]);
            heads.push(h);
            let mut h = base.clone();
            h.extend_from_slice(&[0x30, 0x01, 0xff]);
            heads.push(h);
            let mut h = base.clone();
            h.extend_from_slice(&[0x15, 0x15, 0x18]);
            heads.push(h);
        }
        _ => heads.push(base.clone()),
    }
    for h in heads {
        for nest in 0..=3usize {
            let mut v = Vec::new();
            let opens = [0x15u8, 0x36, 0x17];
            for k in 0..nest {
                v.push(opens[k % 3]);
                if opens[k % 3] == 0x36 {
                    v.push(0x02);
                }
            }
            v.extend_from_slice(&h);
            // a well-formed sibling after the element under test
            v.extend_from_slice(&[0x24, 0x02, 0x07]);
            for _ in 0..nest {
                v.push(0x18);
            }
            for cut in 1..=v.len() {
                out.push(v[..cut].to_vec());
            }
        }
    }
    out
}

/// A3: string / octet-string elements whose length field is within 48 of the maximum of its width, placed
/// behind 0..2 leading members (and a nested container) inside each kind of container, nesting 1..2:
/// sums of member lengths that only overflow together with what came before.
fn a3_inputs_for(control: u8) -> Vec<Vec<u8>> {
    let mut out = Vec::new();
    let vt = control & 0x1f;
    let tt = control >> 5;
    if !(0x0c..=0x13).contains(&vt) {
        return out;
    }
    let w = 1usize << ((vt - 0x0c) % 4);
    let max: u64 = if w == 8 { u64::MAX } else { (1u64 << (8 * w)) - 1 };
    let prefixes: [&[u8]; 5] = [&[], &[0x24, 0x02, 0x07], &[0x24, 0x02, 0x07, 0x24, 0x03, 0x08], &[0x15, 0x18], &[0x30, 0x01, 0x02, 0xaa, 0xbb]];
    for k in 0..=48u64 {
        let lv = max - k;
        for prefix in prefixes {
            for open in [0x15u8, 0x16, 0x17] {
                for nest in 1..=2usize {
                    for payload in [0usize, 3] {
                        let mut v = Vec::new();
                        for _ in 0..nest {
                            v.push(open);
                        }
                        v.extend_from_slice(prefix);
                        v.push(control);
                        v.extend(tag_bytes(tt));
                        v.extend_from_slice(&lv.to_le_bytes()[..w]);
                        v.extend(std::iter::repeat(b'a').take(payload));
                        v.extend_from_slice(&[0x24, 0x02, 0x07]);
                        for _ in 0..nest {
                            v.push(0x18);
                        }
                        out.push(v);
                    }
                }
            }
        }
    }
    out
}

fn a3() -> Acc {
    (0u32..256)
        .into_par_iter()
        .map(|c| {
            let mut acc = Acc::default();
            for inp in a3_inputs_for(c as u8) {
                probe_input(&inp, true, &mut acc);
            }
            acc
        })
        .reduce(Acc::default, Acc::merge)
}

fn a2() -> Acc {
    (0u32..256)
        .into_par_iter()
        .map(|c| {
            let mut acc = Acc::default();
            for inp in a2_inputs_for(c as u8) {
                probe_input(&inp, true, &mut acc);
            }
            acc
        })
        .reduce(Acc::default, Acc::merge)
}

// ------------------------------------------------------------------ B: value-tree round trip

#[derive(Clone, Debug, PartialEq)]
enum Node {
    I(i64, u8),
    U(u64, u8),
    Bool(bool),
    Null,
    F32(u32),
    F64(u64),
    Utf8(usize),
    Bytes(usize),
    Cont(u8, Vec<(TagSpec, Node)>),
}

#[derive(Clone, Copy, Debug, PartialEq)]
enum TagSpec {
    Anon,
    Ctx(u8),
    C16(u16),
    C32(u32),
    I16(u16),
    I32(u32),
    F48(u16, u16, u16),
    F64(u16, u16, u32),
}

impl TagSpec {
    fn tag(&self) -> TLVTag {
        match *self {
            TagSpec::Anon => TLVTag::Anonymous,
            TagSpec::Ctx(c) => TLVTag::Context(c),
            TagSpec::C16(v) => TLVTag::CommonPrf16(v),
            TagSpec::C32(v) => TLVTag::CommonPrf32(v),
            TagSpec::I16(v) => TLVTag::ImplPrf16(v),
            TagSpec::I32(v) => TLVTag::ImplPrf32(v),
            TagSpec::F48(a, b, c) => TLVTag::FullQual48 { vendor_id: a, profile: b, tag: c },
            TagSpec::F64(a, b, c) => TLVTag::FullQual64 { vendor_id: a, profile: b, tag: c },
        }
    }
}

fn all_tags() -> Vec<TagSpec> {
    vec![
        TagSpec::Anon,
        TagSpec::Ctx(0),
        TagSpec::Ctx(255),
        TagSpec::C16(0),
        TagSpec::C16(0xffff),
        TagSpec::C32(0x1_0000),
        TagSpec::C32(u32::MAX),
        TagSpec::I16(0),
        TagSpec::I16(0xffff),
        TagSpec::I32(0x1_0000),
        TagSpec::I32(u32::MAX),
        TagSpec::F48(0, 0, 0),
        TagSpec::F48(0xffff, 0xffff, 0xffff),
        TagSpec::F64(1, 2, 0x1_0000),
        TagSpec::F64(0xffff, 0xffff, u32::MAX),
    ]
}

fn payload(len: usize, text: bool) -> Vec<u8> {
    (0..len)
        .map(|i| if text { b'a' + (i % 26) as u8 } else { (i * 7 + 3) as u8 })
        .collect()
}

fn all_leaves() -> Vec<Node> {
    let mut v = Vec::new();
    let ints: [i64; 22] = [
        0,
        1,
        -1,
        i8::MAX as i64,
        i8::MIN as i64,
        i8::MAX as i64 + 1,
        i8::MIN as i64 - 1,
        i16::MAX as i64,
        i16::MIN as i64,
        i16::MAX as i64 + 1,
        i16::MIN as i64 - 1,
        i32::MAX as i64,
        i32::MIN as i64,
        i32::MAX as i64 + 1,
        i32::MIN as i64 - 1,
        i64::MAX,
        i64::MIN,
        i64::MAX - 1,
        i64::MIN + 1,
        255,
        65535,
        4294967295,
    ];
    for &i in ints.iter() {
        for w in [1u8, 2, 4, 8] {
            let fits = match w {
                1 => i >= i8::MIN as i64 && i <= i8::MAX as i64,
                2 => i >= i16::MIN as i64 && i <= i16::MAX as i64,
                4 => i >= i32::MIN as i64 && i <= i32::MAX as i64,
                _ => true,
            };
            if fits {
                v.push(Node::I(i, w));
            }
        }
    }
    let uints: [u64; 13] = [
        0,
        1,
        u8::MAX as u64 - 1,
        u8::MAX as u64,
        u8::MAX as u64 + 1,
        u16::MAX as u64 - 1,
        u16::MAX as u64,
        u16::MAX as u64 + 1,
        u32::MAX as u64 - 1,
        u32::MAX as u64,
        u32::MAX as u64 + 1,
        u64::MAX - 1,
        u64::MAX,
    ];
    for &u in uints.iter() {
        for w in [1u8, 2, 4, 8] {
            let fits = match w {
                1 => u <= u8::MAX as u64,
                2 => u <= u16::MAX as u64,
                4 => u <= u32::MAX as u64,
                _ => true,
            };
            if fits {
                v.push(Node::U(u, w));
            }
        }
    }
    v.push(Node::Bool(false));
    v.push(Node::Bool(true));
    v.push(Node::Null);
    for f in [0.0f32, -0.0, 1.5, f32::MAX, f32::MIN, f32::MIN_POSITIVE, f32::INFINITY, f32::NEG_INFINITY, f32::NAN] {
        v.push(Node::F32(f.to_bits()));
    }
    for f in [0.0f64, -0.0, 1.5, f64::MAX, f64::MIN, f64::MIN_POSITIVE, f64::INFINITY, f64::NEG_INFINITY, f64::NAN] {
        v.push(Node::F64(f.to_bits()));
    }
    for l in [0usize, 1, 2, 254, 255, 256, 257, 65534, 65535, 65536, 65537] {
        v.push(Node::Utf8(l));
        v.push(Node::Bytes(l));
    }
    v
}

fn small_leaves() -> Vec<Node> {
    vec![
        Node::U(5, 1),
        Node::I(-300, 2),
        Node::U(u64::MAX, 8),
        Node::Bool(true),
        Node::Null,
        Node::F32(1.5f32.to_bits()),
        Node::Utf8(3),
        Node::Bytes(0),
        Node::Bytes(256),
    ]
}

fn small_tags() -> Vec<TagSpec> {
    vec![TagSpec::Anon, TagSpec::Ctx(1), TagSpec::F64(0xfff1, 0xdead, 0xbeef_0001)]
}

fn write_node(tw: &mut WriteBuf, tag: &TagSpec, n: &Node) -> Result<(), rs_matter::error::Error> {
    let t = tag.tag();
    match n {
        Node::I(i, w) => match w {
            1 => tw.i8(&t, *i as i8),
            2 => tw.i16(&t, *i as i16),
            4 => tw.i32(&t, *i as i32),
            _ => tw.i64(&t, *i),
        },
        Node::U(u, w) => match w {
            1 => tw.u8(&t, *u as u8),
            2 => tw.u16(&t, *u as u16),
            4 => tw.u32(&t, *u as u32),
            _ => tw.u64(&t, *u),
        },
        Node::Bool(b) => tw.bool(&t, *b),
        Node::Null => tw.null(&t),
        Node::F32(b) => tw.f32(&t, f32::from_bits(*b)),
        Node::F64(b) => tw.f64(&t, f64::from_bits(*b)),
        Node::Utf8(l) => {
            let p = payload(*l, true);
            tw.utf8(&t, core::str::from_utf8(&p).unwrap())
        }
        Node::Bytes(l) => tw.str(&t, &payload(*l, false)),
        Node::Cont(kind, children) => {
            match kind {
                0 => tw.start_struct(&t)?,
                1 => tw.start_array(&t)?,
                _ => tw.start_list(&t)?,
            }
            for (ct, c) in children {
                write_node(tw, ct, c)?;
            }
            tw.end_container()
        }
    }
}

/// Decode an element back into (tag, Node) using only the public reader API.
fn read_node(e: &TLVElement) -> Result<(TLVTag, Node), String> {
    let tag = e.tag().map_err(|e| format!("tag: {:?}", e))?;
    let v = e.value().map_err(|e| format!("value: {:?}", e))?;
    let n = match v {
        TLVValue::S8(a) => Node::I(a as i64, 0),
        TLVValue::S16(a) => Node::I(a as i64, 0),
        TLVValue::S32(a) => Node::I(a as i64, 0),
        TLVValue::S64(a) => Node::I(a, 0),
        TLVValue::U8(a) => Node::U(a as u64, 0),
        TLVValue::U16(a) => Node::U(a as u64, 0),
        TLVValue::U32(a) => Node::U(a as u64, 0),
        TLVValue::U64(a) => Node::U(a, 0),
        TLVValue::False => Node::Bool(false),
        TLVValue::True => Node::Bool(true),
        TLVValue::F32(f) => Node::F32(f.to_bits()),
        TLVValue::F64(f) => Node::F64(f.to_bits()),
        TLVValue::Utf8l(s) | TLVValue::Utf16l(s) | TLVValue::Utf32l(s) | TLVValue::Utf64l(s) => {
            if s.as_bytes() != payload(s.len(), true) {
                return Err("utf8 payload differs".into());
            }
            Node::Utf8(s.len())
        }
        TLVValue::Str8l(s) | TLVValue::Str16l(s) | TLVValue::Str32l(s) | TLVValue::Str64l(s) => {
            if s != payload(s.len(), false) {
                return Err("octet payload differs".into());
            }
            Node::Bytes(s.len())
        }
        TLVValue::Null => Node::Null,
        TLVValue::Struct | TLVValue::Array | TLVValue::List => {
            let kind = match v {
                TLVValue::Struct => 0,
                TLVValue::Array => 1,
                _ => 2,
            };
            let seq = e.container().map_err(|e| format!("container: {:?}", e))?;
            let mut ch = Vec::new();
            for c in seq.iter() {
                let c = c.map_err(|e| format!("iter: {:?}", e))?;
                let (t, n) = read_node(&c)?;
                ch.push((t, n));
            }
            return Ok((tag, Node::Cont(kind, ch.into_iter().map(|(t, n)| (tagspec_of(&t), n)).collect())));
        }
        TLVValue::EndCnt => return Err("EndCnt as element".into()),
    };
    Ok((tag, n))
}

fn tagspec_of(t: &TLVTag) -> TagSpec {
    match *t {
        TLVTag::Anonymous => TagSpec::Anon,
        TLVTag::Context(c) => TagSpec::Ctx(c),
        TLVTag::CommonPrf16(v) => TagSpec::C16(v),
        TLVTag::CommonPrf32(v) => TagSpec::C32(v),
        TLVTag::ImplPrf16(v) => TagSpec::I16(v),
        TLVTag::ImplPrf32(v) => TagSpec::I32(v),
        TLVTag::FullQual48 { vendor_id, profile, tag } => TagSpec::F48(vendor_id, profile, tag),
        TLVTag::FullQual64 { vendor_id, profile, tag } => TagSpec::F64(vendor_id, profile, tag),
    }
}

fn strip_width(n: &Node) -> Node {
    match n {
        Node::I(i, _) => Node::I(*i, 0),
        Node::U(u, _) => Node::U(*u, 0),
        Node::Cont(k, ch) => Node::Cont(*k, ch.iter().map(|(t, c)| (*t, strip_width(c))).collect()),
        o => o.clone(),
    }
}

/// Re-encode a decoded element through the generic writer (`TLVWrite::tlv` + containers).
fn reencode(e: &TLVElement, tw: &mut WriteBuf) -> Result<(), String> {
    let tag = e.tag().map_err(|e| format!("{:?}", e))?;
    let v = e.value().map_err(|e| format!("{:?}", e))?;
    if v.value_type().is_container() {
        tw.start_container(&tag, v.value_type()).map_err(|e| format!("{:?}", e))?;
        for c in e.container().map_err(|e| format!("{:?}", e))?.iter() {
            reencode(&c.map_err(|e| format!("{:?}", e))?, tw)?;
        }
        tw.end_container().map_err(|e| format!("{:?}", e))
    } else {
        tw.tlv(&tag, &v).map_err(|e| format!("{:?}", e))
    }
}

fn check_tree(tag: &TagSpec, n: &Node, acc: &mut Acc, buf: &mut Vec<u8>, buf2: &mut Vec<u8>) {
    acc.inputs += 1;
    let desc = || format!("{:?} {:?}", tag, n);
    let replay = json!({"kind": "tree", "debug": desc()});
    let r = common::catch(|| {
        let mut wb = WriteBuf::new(buf);
        write_node(&mut wb, tag, n).map_err(|e| format!("write failed: {:?}", e))?;
        let bytes = wb.as_slice().to_vec();
        let e = TLVElement::new(&bytes);
        let (t, back) = read_node(&e)?;
        if tagspec_of(&t) != *tag {
            return Err(format!("tag read back as {:?}", t));
        }
        if back != strip_width(n) {
            return Err("value read back differs".to_string());
        }
        // typed getters agree with value()
        match n {
            Node::I(i, _) => {
                if e.i64().ok() != Some(*i) {
                    return Err("i64() disagrees".into());
                }
            }
            Node::U(u, _) => {
                if e.u64().ok() != Some(*u) {
                    return Err("u64() disagrees".into());
                }
            }
            _ => {}
        }
        // element length lies within (equals) the encoding
        let rv = e.raw_value().map_err(|e| format!("raw_value: {:?}", e))?;
        if !within(&bytes, rv) {
            return Err("raw_value outside encoding".into());
        }
        let mut wb2 = WriteBuf::new(buf2);
        reencode(&e, &mut wb2)?;
        if wb2.as_slice() != &bytes[..] {
            return Err(format!("re-encoding differs: {} vs {}", hex(&bytes[..bytes.len().min(24)]), hex(&wb2.as_slice()[..wb2.as_slice().len().min(24)])));
        }
        // ToTLV for TLVElement (raw copy) also reproduces the bytes
        let mut wb3 = WriteBuf::new(buf2);
        e.to_tlv(&tag.tag(), &mut wb3).map_err(|e| format!("to_tlv: {:?}", e))?;
        if wb3.as_slice() != &bytes[..] {
            return Err("TLVElement::to_tlv differs".into());
        }
        Ok(bytes.len())
    });
    match r {
        Err(p) => acc.report.violation(format!("C16:roundtrip:panic:{}", p.class()), format!("{}: {}", desc(), p), replay),
        Ok(Err(why)) => {
            let kind = why.split(':').next().unwrap_or("").split(' ').take(3).collect::<Vec<_>>().join("-");
            acc.report.violation(format!("C16:roundtrip:{}", kind), format!("{}: {}", desc(), why), replay)
        }
        Ok(Ok(len)) => {
            acc.decoded_ok += 1;
            acc.distinct_outcomes.insert(common::digest(&(len, format!("{:?}", n).len())));
        }
    }
}

fn part_b(tier: Tier) -> Acc {
    let leaves = all_leaves();
    let tags = all_tags();
    let sl = small_leaves();
    let st = small_tags();
    // work items: (outer nesting chain, tag, node)
    let mut items: Vec<(TagSpec, Node)> = Vec::new();
    // 1. every leaf x every tag, at nesting depth 0..3
    for t in &tags {
        for l in &leaves {
            items.push((*t, l.clone()));
            for depth in 1..=3u8 {
                let mut n = l.clone();
                let mut tt = *t;
                for d in 0..depth {
                    n = Node::Cont((d + depth) % 3, vec![(tt, n)]);
                    tt = if d % 2 == 0 { TagSpec::Anon } else { TagSpec::Ctx(d) };
                }
                items.push((tt, n));
            }
        }
    }
    // 2. all trees with up to k nodes over the small alphabets
    let max_nodes = match tier {
        Tier::Quick => 3,
        Tier::Thorough => 4,
    };
    fn trees(nodes: usize, sl: &[Node], st: &[TagSpec]) -> Vec<Node> {
        // all nodes (leaf or container) with exactly `nodes` nodes in total
        let mut out = Vec::new();
        if nodes == 1 {
            out.extend(sl.iter().cloned());
            for k in 0..3u8 {
                out.push(Node::Cont(k, vec![]));
            }
            return out;
        }
        // container with children partitions of nodes-1
        fn forests(nodes: usize, sl: &[Node], st: &[TagSpec]) -> Vec<Vec<(TagSpec, Node)>> {
            if nodes == 0 {
                return vec![vec![]];
            }
            let mut out = Vec::new();
            for first in 1..=nodes {
                for t in trees(first, sl, st) {
                    for rest in forests(nodes - first, sl, st) {
                        for tag in st {
                            let mut f = vec![(*tag, t.clone())];
                            f.extend(rest.iter().cloned());
                            out.push(f);
                        }
                    }
                }
            }
            out
        }
        for k in 0..3u8 {
            for f in forests(nodes - 1, sl, st) {
                out.push(Node::Cont(k, f));
            }
        }
        out
    }
    for n in 1..=max_nodes {
        for t in trees(n, &sl, &st) {
            for tag in &st {
                items.push((*tag, t.clone()));
            }
        }
    }
    items
        .par_chunks(256)
        .map(|chunk| {
            let mut acc = Acc::default();
            let mut buf = vec![0u8; 70_000 * 5];
            let mut buf2 = vec![0u8; 70_000 * 5];
            for (t, n) in chunk {
                check_tree(t, n, &mut acc, &mut buf, &mut buf2);
            }
            acc
        })
        .reduce(Acc::default, Acc::merge)
}

// ------------------------------------------------------------------ D: derived wire structures

fn try_enc<T: ToTLV>(v: &T) -> Result<Vec<u8>, rs_matter::error::Error> {
    let mut buf = vec![0u8; 2048];
    let mut wb = WriteBuf::new(&mut buf);
    v.to_tlv(&TLVTag::Anonymous, &mut wb)?;
    Ok(wb.as_slice().to_vec())
}

fn enc<T: ToTLV>(v: &T) -> Vec<u8> {
    try_enc(v).unwrap_or_default()
}

/// a structure with the derived encoder / decoder over every integer width, plain, nullable, optional
#[derive(Debug, Clone, PartialEq, FromTLV, ToTLV)]
struct PrimFields {
    a: i8,
    b: i16,
    c: i32,
    d: i64,
    e: u8,
    f: u16,
    g: u32,
    h: u64,
    na: rs_matter::tlv::Nullable<i8>,
    nb: rs_matter::tlv::Nullable<i16>,
    nc: rs_matter::tlv::Nullable<i32>,
    nd: rs_matter::tlv::Nullable<i64>,
    ne: rs_matter::tlv::Nullable<u8>,
    nf: rs_matter::tlv::Nullable<u16>,
    ng: rs_matter::tlv::Nullable<u32>,
    nh: rs_matter::tlv::Nullable<u64>,
    oa: Option<i8>,
    od: Option<i64>,
    oh: Option<u64>,
}

fn part_d() -> Acc {
    use rs_matter::tlv::Nullable;
    let mut acc = Acc::default();
    let mut valid: Vec<(&'static str, Vec<u8>)> = Vec::new();
    macro_rules! rt {
        ($name:literal, $t:ty, $v:expr) => {{
            let v: $t = $v;
            acc.inputs += 1;
            let bytes = match common::catch(|| try_enc(&v)) {
                Ok(Ok(b)) => b,
                Ok(Err(e)) => {
                    acc.report.violation(
                        format!("C16:wire:{}:encode-error", $name),
                        format!("{:?} cannot be encoded: {:?}", v, e),
                        json!({"kind": "value", "debug": format!("{:?}", v)}),
                    );
                    Vec::new()
                }
                Err(p) => {
                    acc.report.violation(
                        format!("C16:wire:{}:encode-panic:{}", $name, p.class()),
                        format!("{:?}: {}", v, p),
                        json!({"kind": "value", "debug": format!("{:?}", v)}),
                    );
                    Vec::new()
                }
            };
            if !bytes.is_empty() { match common::catch(|| <$t>::from_tlv(&TLVElement::new(&bytes))) {
                Ok(Ok(back)) => {
                    if back != v {
                        acc.report.violation(
                            format!("C16:wire:{}:roundtrip-differs", $name),
                            format!("{:?} -> {} -> {:?}", v, hex(&bytes), back),
                            json!({"kind": "bytes", "hex": hex(&bytes)}),
                        );
                    } else {
                        let again = enc(&back);
                        if again != bytes {
                            acc.report.violation(
                                format!("C16:wire:{}:reencode-differs", $name),
                                format!("{} vs {}", hex(&bytes), hex(&again)),
                                json!({"kind": "bytes", "hex": hex(&bytes)}),
                            );
                        }
                        acc.decoded_ok += 1;
                    }
                }
                Ok(Err(e)) => acc.report.violation(
                    format!("C16:wire:{}:own-encoding-rejected", $name),
                    format!("{:?} -> {} -> {:?}", v, hex(&bytes), e),
                    json!({"kind": "bytes", "hex": hex(&bytes)}),
                ),
                Err(p) => acc.report.violation(
                    format!("C16:wire:{}:panic:{}", $name, p.class()),
                    format!("{:?}: {}", v, p),
                    json!({"kind": "bytes", "hex": hex(&bytes)}),
                ),
            }
            valid.push(($name, bytes)); }
        }};
    }
    let opt_u16 = [None, Some(0u16), Some(u16::MAX)];
    let opt_u32 = [None, Some(0u32), Some(0xfffe_u32), Some(u32::MAX)];
    for ep in opt_u16 {
        for cl in opt_u32 {
            for at in opt_u32 {
                for li in [None, Some(Nullable::none()), Some(Nullable::some(0u16)), Some(Nullable::some(u16::MAX - 1))] {
                    for node in [None, Some(0u64), Some(u64::MAX)] {
                        for tc in [None, Some(false), Some(true)] {
                            rt!("AttrPath", AttrPath, AttrPath { tag_compression: tc, node, endpoint: ep, cluster: cl, attr: at, list_index: li.clone() });
                        }
                    }
                }
            }
        }
    }
    for ep in opt_u16 {
        for cl in opt_u32 {
            for cmd in opt_u32 {
                rt!("CmdPath", CmdPath, CmdPath { endpoint: ep, cluster: cl, cmd });
            }
        }
    }
    for t in [0u16, 1, u16::MAX] {
        for rev in [None, Some(0u8), Some(u8::MAX)] {
            rt!("TimedReq", TimedReq, TimedReq { timeout: t, interaction_model_revision: rev });
        }
    }
    // the typed readers / writers of every integer width, plain, nullable and optional, alone and as
    // fields of a derived structure, at every boundary value of every width
    let cands: Vec<i128> = {
        let mut c: Vec<i128> = vec![0, 1, -1, 2, -2];
        for bits in [7u32, 8, 15, 16, 31, 32, 63, 64] {
            let p = 1i128 << bits;
            c.extend([p - 2, p - 1, p, p + 1, -p - 1, -p, -p + 1, -p + 2]);
        }
        c.sort();
        c.dedup();
        c
    };
    macro_rules! prim {
        ($name:literal, $t:ty, $signed:expr) => {{
            for c in &cands {
                if let Ok(x) = <$t>::try_from(*c) {
                    rt!($name, $t, x);
                    rt!($name, Option<$t>, Some(x));
                    // the value a nullable integer reserves for null: the maximum (unsigned) / the minimum (signed)
                    let reserved = if $signed { x == <$t>::MIN } else { x == <$t>::MAX };
                    if !reserved {
                        rt!($name, Nullable<$t>, Nullable::some(x));
                    }
                }
            }
            rt!($name, Nullable<$t>, Nullable::none());
        }};
    }
    prim!("prim:u8", u8, false);
    prim!("prim:u16", u16, false);
    prim!("prim:u32", u32, false);
    prim!("prim:u64", u64, false);
    prim!("prim:i8", i8, true);
    prim!("prim:i16", i16, true);
    prim!("prim:i32", i32, true);
    prim!("prim:i64", i64, true);
    for b in [false, true] {
        rt!("prim:bool", bool, b);
        rt!("prim:bool", Nullable<bool>, Nullable::some(b));
    }
    {
        let pick = |k: usize, lo: i128, hi: i128| -> i128 {
            let fit: Vec<i128> = cands.iter().copied().filter(|c| *c >= lo && *c <= hi).collect();
            fit[k % fit.len()]
        };
        for k in 0..cands.len() {
            // (the values reserved for null are excluded from the nullable fields' ranges)
            let v = PrimFields {
                a: pick(k, i8::MIN as i128, i8::MAX as i128) as i8,
                b: pick(k, i16::MIN as i128, i16::MAX as i128) as i16,
                c: pick(k, i32::MIN as i128, i32::MAX as i128) as i32,
                d: pick(k, i64::MIN as i128, i64::MAX as i128) as i64,
                e: pick(k, 0, u8::MAX as i128) as u8,
                f: pick(k, 0, u16::MAX as i128) as u16,
                g: pick(k, 0, u32::MAX as i128) as u32,
                h: pick(k, 0, u64::MAX as i128) as u64,
                na: Nullable::some(pick(k, i8::MIN as i128 + 1, i8::MAX as i128) as i8),
                nb: Nullable::some(pick(k, i16::MIN as i128 + 1, i16::MAX as i128) as i16),
                nc: Nullable::some(pick(k, i32::MIN as i128 + 1, i32::MAX as i128) as i32),
                nd: Nullable::some(pick(k, i64::MIN as i128 + 1, i64::MAX as i128) as i64),
                ne: if k % 5 == 0 { Nullable::none() } else { Nullable::some(pick(k, 0, u8::MAX as i128 - 1) as u8) },
                nf: Nullable::some(pick(k, 0, u16::MAX as i128 - 1) as u16),
                ng: Nullable::some(pick(k, 0, u32::MAX as i128 - 1) as u32),
                nh: Nullable::some(pick(k, 0, u64::MAX as i128 - 1) as u64),
                oa: if k % 3 == 0 { None } else { Some(pick(k, i8::MIN as i128, i8::MAX as i128) as i8) },
                od: if k % 3 == 1 { None } else { Some(pick(k, i64::MIN as i128, i64::MAX as i128) as i64) },
                oh: if k % 3 == 2 { None } else { Some(pick(k, 0, u64::MAX as i128) as u64) },
            };
            rt!("prim:derived-struct", PrimFields, v);
        }
    }
    valid.dedup_by(|a, b| a.1 == b.1);
    // mutations of valid encodings: every single byte -> boundary values, every truncation, one-byte extension
    let keep: Vec<(&'static str, Vec<u8>)> = {
        // one representative per (type, length) keeps the sweep bounded but covers every shape
        let mut seen = std::collections::BTreeSet::new();
        valid.into_iter().filter(|(n, b)| seen.insert((*n, b.len(), b.iter().filter(|x| **x == 0xff).count()))).collect()
    };
    let muts: Acc = keep
        .par_iter()
        .map(|(_, bytes)| {
            let mut acc = Acc::default();
            for i in 0..bytes.len() {
                for &b in BOUNDARY_BYTES.iter() {
                    if bytes[i] != b {
                        let mut m = bytes.clone();
                        m[i] = b;
                        probe_input(&m, true, &mut acc);
                    }
                }
                for bit in 0..8 {
                    let mut m = bytes.clone();
                    m[i] ^= 1 << bit;
                    probe_input(&m, true, &mut acc);
                }
                probe_input(&bytes[..i], true, &mut acc);
            }
            let mut m = bytes.clone();
            m.push(0x18);
            probe_input(&m, true, &mut acc);
            acc
        })
        .reduce(Acc::default, Acc::merge);
    acc.merge(muts)
}

// ------------------------------------------------------------------

fn replay(ctx: &Ctx, path: &std::path::Path) -> i32 {
    let doc: Value = serde_json::from_str(&std::fs::read_to_string(path).expect("replay file")).expect("json");
    let r = &doc["replay"];
    let mut acc = Acc::default();
    match r["kind"].as_str() {
        Some("bytes") => {
            let bytes = unhex(r["hex"].as_str().unwrap());
            std::env::set_var("MC_SHOW_PANICS", "1");
            probe_input(&bytes, true, &mut acc);
            println!("input {} -> {} violation class(es)", hex(&bytes), acc.report.violations.len());
        }
        _ => {
            println!("tree replays are re-run by the full check (deterministic enumeration): {}", r["debug"]);
            acc = part_b(Tier::Quick);
        }
    }
    common::finish(ctx, acc.report, Evidence::new("exploration"))
}

pub fn run(ctx: &Ctx) -> i32 {
    if let Some(p) = &ctx.replay {
        return replay(ctx, p);
    }
    start_watchdog(ctx.prop.clone());
    let t = Instant::now();
    let a1 = a1(ctx.tier);
    let a1_n = a1.inputs;
    let t_a1 = t.elapsed().as_secs_f64();
    let a2 = a2().merge(a3());
    let a2_n = a2.inputs;
    let b = part_b(ctx.tier);
    let b_n = b.inputs;
    let b_ok = b.decoded_ok;
    let d = part_d();
    let d_n = d.inputs;
    let total = a1.merge(a2).merge(b).merge(d);

    let mut ev = Evidence::new("exploration");
    ev.set("evaluations", json!(total.inputs))
        .set("distinct_nontrivial", json!(total.decoded_ok))
        .set("exhaustive", json!(true))
        .set(
            "rule",
            json!(format!(
                "A1: every byte string of length <= {} plus every string up to length {} with any first byte and the rest from a 16-value boundary alphabet; \
                 A2: every control byte x tag form x length field in {{0..5,0x7f,0x80,0xff,0x100,0xffff,0x10000,2^31-1,2^31,2^32-1,2^32,2^63-1,2^63,2^64-1}} x payload {{0,1,2,5}} x nesting 0..3 x every truncation; \
                 A3: every string / octet-string control byte x tag form with a length field of max-48..max of its width, behind 0..2 leading members or a nested container, in a structure / array / list, nesting 1..2; \
                 B: every leaf (ints/uints at all width extremes via every writer width, floats incl. NaN/inf, strings/octets with lengths around every length-field width) x 15 tag forms x nesting 0..3, plus every tree of <= {} nodes over a 9-leaf/3-tag alphabet; \
                 D: value round trips of AttrPath/CmdPath/TimedReq over option/extreme products and every single-byte/bit mutation and truncation of their encodings fed to all 25 public derived decoders. \
                 distinct_nontrivial counts inputs on which more than two accessors (or a full round trip) succeeded.",
                if ctx.tier == Tier::Quick { 2 } else { 3 },
                if ctx.tier == Tier::Quick { 4 } else { 6 },
                if ctx.tier == Tier::Quick { 3 } else { 4 },
            )),
        )
        .set("parts", json!({"A1_inputs": a1_n, "A1_wall_s": t_a1, "A2_inputs": a2_n, "B_trees": b_n, "B_roundtrips_ok": b_ok, "D_inputs": d_n, "wire_decodes_ok": total.wire_decoded}))
        .set("distinct_outcomes", json!(total.distinct_outcomes.len()))
        .set(
            "samples",
            json!([
                {"A1": "15 13 ff"}, {"A2": hex(&a2_inputs_for(0x13)[40])},
                {"B": format!("{:?}", (TagSpec::F64(0xffff, 0xffff, u32::MAX), Node::Cont(1, vec![(TagSpec::Anon, Node::Bytes(65536))])))},
                {"D": hex(&enc(&AttrPath { tag_compression: None, node: None, endpoint: Some(1), cluster: Some(6), attr: Some(0), list_index: None }))}
            ]),
        );
    ev.assume("overflow checks and debug assertions are enabled in the checked build (the repo's release profile disables them; wrap-around there is the same defect without the trap)");
    ev.assume("strings/values larger than 65537 bytes and trees deeper than 4 / wider than 4 nodes are outside the bound");
    if total.report.violations.is_empty() && (total.distinct_outcomes.len() < 2 || b_ok == 0) {
        eprintln!("MACHINERY: vacuous C16 run");
        return 2;
    }
    common::finish(ctx, total.report, ev)
}
