//! C18 — BTP delivers each message intact, once and in order, or fails cleanly.
//!
//! Part W (well-behaved ends): E2 BFS over all interleavings of the two ends' send / poll /
//! deliver / fetch / ack-timer steps, two real `Btp` instances (central A, peripheral B)
//! joined by two FIFO queues (GATT is ordered and lossless), for a catalog of GATT MTUs and
//! message lengths; plus roots placed right before the 8-bit sequence-number wrap-around.
//! Oracles: delivered = submitted (prefix, in order, intact) in every state; unacknowledged
//! segments never exceed the negotiated window (computed from the wire log); after the ack
//! time-out an acknowledgement goes out; from every visited state the fair default schedule
//! delivers everything (bounded liveness / no deadlock); every conforming segment is accepted.
//!
//! Part H (hostile peer): at every state of a conforming conversation prefix, every segment of
//! a boundary catalog (all flag bytes x seq x ack x declared length x payload length) and every
//! handshake request / response of a boundary catalog is injected; the node must answer `Err`
//! for protocol violations, must never panic, and what its application receives must stay
//! consistent with the segments it accepted.

use std::collections::VecDeque;
use std::future::Future;
use std::pin::pin;
use std::task::{Context, Poll, Waker};

use rayon::prelude::*;
use serde_json::{json, Value};

use rs_matter::transport::network::btp::Btp;
use rs_matter::transport::network::BtAddr;

use crate::common::{self, e2, hex, unhex, vclock, Ctx, Evidence, Report, Tier};

const ADDR_A: BtAddr = BtAddr([0xA, 1, 2, 3, 4, 5]);
const ADDR_B: BtAddr = BtAddr([0xB, 1, 2, 3, 4, 5]);
const ACK_TIMEOUT_S: u64 = 15;

fn poll_once<F: Future>(f: F) -> Option<F::Output> {
    let mut f = pin!(f);
    let mut cx = Context::from_waker(Waker::noop());
    match f.as_mut().poll(&mut cx) {
        Poll::Ready(v) => Some(v),
        Poll::Pending => None,
    }
}

// ---------------------------------------------------------------- harness-side segment parser

#[derive(Clone, Debug, Default)]
struct Seg {
    flags: u8,
    opcode: Option<u8>,
    ack: Option<u8>,
    seq: Option<u8>,
    msg_len: Option<u16>,
    payload: Vec<u8>,
}

const F_HANDSHAKE: u8 = 0x40;
const F_MGMT: u8 = 0x20;
const F_ACK: u8 = 0x08;
const F_END: u8 = 0x04;
const F_CONT: u8 = 0x02;
const F_BEGIN: u8 = 0x01;

fn parse(data: &[u8]) -> Option<Seg> {
    let mut it = data.iter().copied();
    let flags = it.next()?;
    let mut s = Seg { flags, ..Default::default() };
    if flags & F_MGMT != 0 {
        s.opcode = Some(it.next()?);
    }
    if flags & F_ACK != 0 {
        s.ack = Some(it.next()?);
    }
    if flags & F_HANDSHAKE == 0 {
        s.seq = Some(it.next()?);
    }
    if flags & F_BEGIN != 0 && flags & F_HANDSHAKE == 0 {
        let lo = it.next()?;
        let hi = it.next()?;
        s.msg_len = Some(u16::from_le_bytes([lo, hi]));
    }
    s.payload = it.collect();
    Some(s)
}

fn encode(s: &Seg) -> Vec<u8> {
    let mut v = vec![s.flags];
    if s.flags & F_MGMT != 0 {
        v.push(s.opcode.unwrap_or(0x6c));
    }
    if s.flags & F_ACK != 0 {
        v.push(s.ack.unwrap_or(0));
    }
    if s.flags & F_HANDSHAKE == 0 {
        v.push(s.seq.unwrap_or(0));
    }
    if s.flags & F_BEGIN != 0 && s.flags & F_HANDSHAKE == 0 {
        v.extend_from_slice(&s.msg_len.unwrap_or(0).to_le_bytes());
    }
    v.extend_from_slice(&s.payload);
    v
}

// ---------------------------------------------------------------- the closed system

#[derive(Clone, Copy, Debug, PartialEq, Eq, Hash)]
enum Act {
    SubmitA,
    SubmitB,
    OutA,
    OutB,
    DelAB,
    DelBA,
    RecvA,
    RecvB,
    Tick,
}

const ALL_ACTS: [Act; 9] = [
    Act::OutA,
    Act::DelAB,
    Act::OutB,
    Act::DelBA,
    Act::RecvA,
    Act::RecvB,
    Act::SubmitA,
    Act::SubmitB,
    Act::Tick,
];

#[derive(Clone, Debug)]
struct Cfg {
    gatt_mtu: Option<u16>,
    relaxed: bool,
    msgs_a: Vec<usize>,
    msgs_b: Vec<usize>,
}

fn message(side: u8, idx: usize, len: usize) -> Vec<u8> {
    (0..len).map(|i| (i as u8).wrapping_mul(31).wrapping_add(side.wrapping_mul(101)).wrapping_add((idx as u8).wrapping_mul(7))).collect()
}

/// Flow reference for one direction, derived from the wire only.
#[derive(Clone, Debug, Default)]
struct Flow {
    /// data segments (incl. the handshake response, which is sequence number 0) put on the wire
    sent: u32,
    /// highest count of own segments acknowledged by acks *delivered* to the sender
    acked: u32,
    /// last sequence number put on the wire
    last_seq: Option<u8>,
    /// number of the peer's segments delivered to this end
    received: u32,
    /// number of the peer's segments this end has acknowledged on the wire
    acked_out: u32,
    /// virtual time (s) of the oldest delivered-but-not-yet-acknowledged segment
    oldest_unacked_rx_at: Option<u64>,
}

struct End {
    btp: Box<Btp>,
    submitted: usize,
    delivered: Vec<Vec<u8>>,
    flow: Flow,
}

struct Sys {
    cfg: Cfg,
    a: End,
    b: End,
    a2b: VecDeque<Vec<u8>>,
    b2a: VecDeque<Vec<u8>>,
    window: Option<u8>,
    ticks: u32,
    wire_log: Vec<(u8, Vec<u8>)>,
    fault: Option<(String, String)>,
}

impl Sys {
    fn new(cfg: &Cfg) -> Self {
        vclock::reset(1_000_000_000);
        let a = Box::new(Btp::new());
        a.set_initiator(true);
        a.set_relaxed_mtu_nego(cfg.relaxed);
        let b = Box::new(Btp::new());
        b.set_relaxed_mtu_nego(cfg.relaxed);
        Self {
            cfg: cfg.clone(),
            a: End { btp: a, submitted: 0, delivered: Vec::new(), flow: Flow::default() },
            b: End { btp: b, submitted: 0, delivered: Vec::new(), flow: Flow::default() },
            a2b: VecDeque::new(),
            b2a: VecDeque::new(),
            window: None,
            ticks: 0,
            wire_log: Vec::new(),
            fault: None,
        }
    }

    fn fail(&mut self, sig: &str, what: String) {
        if self.fault.is_none() {
            self.fault = Some((sig.to_string(), what));
        }
    }

    fn now_s(&self) -> u64 {
        vclock::now() / 1_000_000
    }

    /// Observe a segment that end `from` (0 = A, 1 = B) puts on the wire.
    fn observe_out(&mut self, from: u8, data: &[u8]) {
        self.wire_log.push((from, data.to_vec()));
        let Some(seg) = parse(data) else {
            self.fail("C18:well-behaved:unparsable-segment-sent", format!("end {} sent {}", from, hex(data)));
            return;
        };
        let window = self.window;
        let is_hs = seg.flags & F_HANDSHAKE != 0;
        if is_hs && from == 1 {
            // handshake response: version(1) mtu(2) window(1); it is the responder's sequence number 0
            if seg.payload.len() >= 4 {
                self.window = Some(seg.payload[3]);
            }
        }
        let (me, _peer) = if from == 0 { (&mut self.a, &mut self.b) } else { (&mut self.b, &mut self.a) };
        if is_hs {
            if from == 1 {
                me.flow.sent += 1;
                me.flow.last_seq = Some(0);
            }
            return;
        }
        // sequence numbers are consecutive mod 256
        if let (Some(prev), Some(seq)) = (me.flow.last_seq, seg.seq) {
            if prev.wrapping_add(1) != seq {
                let w = format!("end {} sent seq {} after {}", from, seq, prev);
                self.fail("C18:well-behaved:sequence-gap-sent", w);
                return;
            }
        }
        me.flow.last_seq = seg.seq;
        me.flow.sent += 1;
        if let Some(w) = window.or(self.window) {
            let unacked = me.flow.sent - me.flow.acked;
            if unacked > w as u32 {
                let wmsg = format!("end {} has {} unacknowledged segments on the wire, negotiated window {}", from, unacked, w);
                self.fail("C18:well-behaved:window-overrun-by-sender", wmsg);
                return;
            }
        }
        if seg.ack.is_some() {
            let me = if from == 0 { &mut self.a } else { &mut self.b };
            // an ack acknowledges everything delivered so far (acks carry the last received seq)
            me.flow.acked_out = me.flow.received;
            me.flow.oldest_unacked_rx_at = None;
        }
    }

    /// Observe delivery of a segment to end `to`.
    fn observe_in(&mut self, to: u8, data: &[u8]) {
        let now = self.now_s();
        let Some(seg) = parse(data) else { return };
        let is_hs = seg.flags & F_HANDSHAKE != 0;
        let (me, peer) = if to == 0 { (&mut self.a, &self.b) } else { (&mut self.b, &self.a) };
        if is_hs {
            if to == 0 {
                // the handshake response is the peer's segment 0 and must be acknowledged too
                me.flow.received += 1;
                me.flow.oldest_unacked_rx_at.get_or_insert(now);
            }
            return;
        }
        me.flow.received += 1;
        me.flow.oldest_unacked_rx_at.get_or_insert(now);
        if let Some(ack) = seg.ack {
            // translate the 8-bit ack into a count of own segments acknowledged
            if let Some(last) = me.flow.last_seq {
                let behind = last.wrapping_sub(ack) as u32;
                if behind <= me.flow.sent {
                    let acked = me.flow.sent - behind;
                    if acked > me.flow.acked {
                        me.flow.acked = acked;
                    }
                }
            }
        }
        let _ = peer;
    }

    fn out(&mut self, from: u8) -> bool {
        let mut buf = [0u8; 600];
        let gatt = self.cfg.gatt_mtu;
        let btp = if from == 0 { &self.a.btp } else { &self.b.btp };
        let r = common::catch(|| btp.process_outgoing(gatt, &mut buf));
        match r {
            Err(p) => {
                self.fail(&format!("C18:well-behaved:panic:{}", p.class()), format!("process_outgoing of end {}: {}", from, p));
                false
            }
            Ok(Err(e)) => {
                self.fail("C18:well-behaved:process-outgoing-error", format!("end {}: {:?}", from, e));
                false
            }
            Ok(Ok(0)) => false,
            Ok(Ok(n)) => {
                let data = buf[..n].to_vec();
                self.observe_out(from, &data);
                if from == 0 {
                    self.a2b.push_back(data);
                } else {
                    self.b2a.push_back(data);
                }
                true
            }
        }
    }

    fn deliver(&mut self, to: u8) -> bool {
        let data = if to == 1 { self.a2b.pop_front() } else { self.b2a.pop_front() };
        let Some(data) = data else { return false };
        let gatt = self.cfg.gatt_mtu;
        let (btp, addr) = if to == 1 { (&self.b.btp, ADDR_A) } else { (&self.a.btp, ADDR_B) };
        let r = common::catch(|| btp.process_incoming(gatt, addr, &data));
        match r {
            Err(p) => self.fail(&format!("C18:well-behaved:panic:{}", p.class()), format!("process_incoming at end {} of {}: {}", to, hex(&data), p)),
            Ok(Err(e)) => self.fail("C18:well-behaved:conforming-segment-refused", format!("end {} refused {} sent by its well-behaved peer: {:?}", to, hex(&data[..data.len().min(12)]), e)),
            Ok(Ok(())) => self.observe_in(to, &data),
        }
        true
    }

    fn submit(&mut self, from: u8) -> bool {
        let (end, lens, to) = if from == 0 { (&mut self.a, &self.cfg.msgs_a, ADDR_B) } else { (&mut self.b, &self.cfg.msgs_b, ADDR_A) };
        if end.submitted >= lens.len() {
            return false;
        }
        let msg = message(from, end.submitted, lens[end.submitted]);
        let btp = &end.btp;
        match common::catch(|| poll_once(btp.send(&msg, to))) {
            Err(p) => {
                self.fail(&format!("C18:well-behaved:panic:{}", p.class()), format!("send: {}", p));
                false
            }
            Ok(None) => false,
            Ok(Some(Err(e))) => {
                self.fail("C18:well-behaved:send-error", format!("send of {} bytes: {:?}", msg.len(), e));
                false
            }
            Ok(Some(Ok(()))) => {
                end.submitted += 1;
                true
            }
        }
    }

    fn recv(&mut self, at: u8) -> bool {
        let end = if at == 0 { &mut self.a } else { &mut self.b };
        let mut buf = vec![0u8; 2048];
        let btp = &end.btp;
        match common::catch(|| poll_once(btp.recv(&mut buf))) {
            Err(p) => {
                self.fail(&format!("C18:well-behaved:panic:{}", p.class()), format!("recv: {}", p));
                false
            }
            Ok(None) => false,
            Ok(Some(Err(e))) => {
                self.fail("C18:well-behaved:recv-error", format!("{:?}", e));
                false
            }
            Ok(Some(Ok((n, _addr)))) => {
                end.delivered.push(buf[..n].to_vec());
                self.check_delivery(at);
                true
            }
        }
    }

    fn check_delivery(&mut self, at: u8) {
        // what `at` received must be the in-order prefix of what the other side submitted
        let (end, lens, from) = if at == 0 { (&self.a, &self.cfg.msgs_b, 1u8) } else { (&self.b, &self.cfg.msgs_a, 0u8) };
        let k = end.delivered.len() - 1;
        let sub = if at == 0 { self.b.submitted } else { self.a.submitted };
        if k >= sub {
            self.fail("C18:well-behaved:message-delivered-that-was-never-submitted", format!("end {} received message #{}", at, k));
            return;
        }
        let expect = message(from, k, lens[k]);
        if end.delivered[k] != expect {
            let got = &end.delivered[k];
            let w = format!("end {} message #{}: {} bytes delivered, {} submitted, first difference at {:?}", at, k, got.len(), expect.len(),
                got.iter().zip(expect.iter()).position(|(x, y)| x != y));
            self.fail("C18:well-behaved:message-corrupted-or-reordered", w);
        }
    }

    fn tick(&mut self) -> bool {
        if self.ticks >= 3 {
            return false;
        }
        self.ticks += 1;
        vclock::advance_by_ms(ACK_TIMEOUT_S * 1000);
        let now = self.now_s();
        // acknowledgement deadline: an end that holds received-but-unacknowledged segments for the
        // whole ack time-out, and whose application has fetched every complete message, must now
        // emit a segment carrying an acknowledgement.
        for side in 0..2u8 {
            let end = if side == 0 { &self.a } else { &self.b };
            let due = end.flow.oldest_unacked_rx_at.map(|t| now >= t + ACK_TIMEOUT_S).unwrap_or(false);
            let app_idle = end.btp.verif_state().0[10] == 0;
            if due && app_idle && end.flow.received > end.flow.acked_out {
                let before = self.wire_log.len();
                let produced = self.out(side);
                let acked = produced && parse(&self.wire_log[before].1).map(|s| s.ack.is_some()).unwrap_or(false);
                if !acked && self.fault.is_none() {
                    self.fail("C18:well-behaved:no-ack-at-ack-deadline", format!("end {} holds {} unacknowledged segments for {} s and sends no acknowledgement", side, end_unacked(self, side), ACK_TIMEOUT_S));
                }
            }
        }
        true
    }

    fn apply(&mut self, act: Act) -> bool {
        match act {
            Act::SubmitA => self.submit(0),
            Act::SubmitB => self.submit(1),
            Act::OutA => self.out(0),
            Act::OutB => self.out(1),
            Act::DelAB => self.deliver(1),
            Act::DelBA => self.deliver(0),
            Act::RecvA => self.recv(0),
            Act::RecvB => self.recv(1),
            Act::Tick => self.tick(),
        }
    }

    fn done(&self) -> bool {
        self.a.submitted == self.cfg.msgs_a.len()
            && self.b.submitted == self.cfg.msgs_b.len()
            && self.a.delivered.len() == self.cfg.msgs_b.len()
            && self.b.delivered.len() == self.cfg.msgs_a.len()
    }

    /// Fair default schedule to completion; returns false if it cannot complete.
    fn complete(&mut self) -> bool {
        let mut idle_rounds = 0;
        for _ in 0..4000 {
            if self.done() || self.fault.is_some() {
                return self.fault.is_none();
            }
            let mut progress = false;
            for act in [Act::SubmitA, Act::SubmitB, Act::OutA, Act::DelAB, Act::RecvB, Act::OutB, Act::DelBA, Act::RecvA] {
                let ch = self.apply(act);
                if ch && std::env::var_os("MC_TRACE").is_some() {
                    println!("  {:?} A={:?} B={:?} flowA={:?} flowB={:?}", act, self.a.btp.verif_state().0, self.b.btp.verif_state().0, self.a.flow, self.b.flow);
                }
                progress |= ch;
            }
            if !progress {
                idle_rounds += 1;
                if idle_rounds > 2 {
                    return false;
                }
                // nothing can move: let the ack timer fire
                self.ticks = 0;
                self.tick();
            } else {
                idle_rounds = 0;
            }
        }
        false
    }

    fn key(&self) -> (([u32; 14], usize, usize), ([u32; 14], usize, usize), Vec<u64>, Vec<u64>, usize, usize, usize, usize, u32) {
        (
            self.a.btp.verif_state(),
            self.b.btp.verif_state(),
            self.a2b.iter().map(|d| common::digest(d)).collect(),
            self.b2a.iter().map(|d| common::digest(d)).collect(),
            self.a.submitted,
            self.b.submitted,
            self.a.delivered.len(),
            self.b.delivered.len(),
            self.ticks,
        )
    }
}

fn end_unacked(s: &Sys, side: u8) -> u32 {
    let e = if side == 0 { &s.a } else { &s.b };
    e.flow.received - e.flow.acked_out
}

fn build(cfg: &Cfg, hist: &[Act]) -> Sys {
    let mut s = Sys::new(cfg);
    for a in hist {
        s.apply(*a);
    }
    s
}

fn act_name(a: &Act) -> String {
    format!("{:?}", a)
}

fn act_from(s: &str) -> Act {
    for a in ALL_ACTS {
        if format!("{:?}", a) == s {
            return a;
        }
    }
    panic!("bad action {}", s)
}

fn cfg_json(c: &Cfg) -> Value {
    json!({"gatt_mtu": c.gatt_mtu, "relaxed": c.relaxed, "msgs_a": c.msgs_a, "msgs_b": c.msgs_b})
}

fn cfg_from(v: &Value) -> Cfg {
    Cfg {
        gatt_mtu: v["gatt_mtu"].as_u64().map(|x| x as u16),
        relaxed: v["relaxed"].as_bool().unwrap_or(false),
        msgs_a: v["msgs_a"].as_array().unwrap().iter().map(|x| x.as_u64().unwrap() as usize).collect(),
        msgs_b: v["msgs_b"].as_array().unwrap().iter().map(|x| x.as_u64().unwrap() as usize).collect(),
    }
}

struct WStats {
    states: u64,
    transitions: u64,
    completions: u64,
    max_depth: usize,
    wrapped: u64,
    multi_segment: u64,
}

fn explore_well_behaved(cfg: &Cfg, roots: Vec<Vec<Act>>, depth: usize, report: &mut Report) -> WStats {
    let report = std::cell::RefCell::new(report);
    let completions = std::cell::Cell::new(0u64);
    let wrapped = std::cell::Cell::new(0u64);
    let multi = std::cell::Cell::new(0u64);
    let mut record = |s: &Sys, hist: &[Act], act: Option<Act>| {
        if let Some((sig, what)) = &s.fault {
            let mut h: Vec<String> = hist.iter().map(act_name).collect();
            if let Some(a) = act {
                h.push(act_name(&a));
            }
            report.borrow_mut().violation(
                sig.clone(),
                format!("cfg {:?} after {} actions: {}", cfg, h.len(), what),
                json!({"harness": "well-behaved", "cfg": cfg_json(cfg), "actions": h}),
            );
        }
    };
    let st = e2::bfs(
        roots,
        depth,
        |h: &[Act]| build(cfg, h),
        |_s| ALL_ACTS.to_vec(),
        |s, act, hist| {
            let changed = s.apply(*act);
            if s.fault.is_some() {
                record(s, hist, Some(*act));
                return false;
            }
            if !changed {
                return false;
            }
            // bounded liveness from this state: rebuild and run the fair schedule to completion
            let mut h2 = hist.to_vec();
            h2.push(*act);
            let mut c = build(cfg, &h2);
            completions.set(completions.get() + 1);
            let ok = c.complete();
            if c.a.flow.sent > 256 && c.b.flow.sent > 256 {
                wrapped.set(wrapped.get() + 1);
            }
            if c.wire_log.iter().any(|(_, d)| parse(d).map(|s| s.flags & F_CONT != 0).unwrap_or(false)) {
                multi.set(multi.get() + 1);
            }
            if c.fault.is_some() {
                let mut hh: Vec<String> = h2.iter().map(act_name).collect();
                hh.push("<fair completion>".into());
                let (sig, what) = c.fault.clone().unwrap();
                report.borrow_mut().violation(
                    sig,
                    format!("cfg {:?}: {}", cfg, what),
                    json!({"harness": "well-behaved", "cfg": cfg_json(cfg), "actions": hh, "then": "complete"}),
                );
                return false;
            }
            if !ok {
                report.borrow_mut().violation(
                    "C18:well-behaved:deadlock-or-undelivered",
                    format!(
                        "cfg {:?}: after {:?} the fair schedule cannot deliver everything (A got {}/{}, B got {}/{}; queues {}+{})",
                        cfg,
                        h2,
                        c.a.delivered.len(),
                        cfg.msgs_b.len(),
                        c.b.delivered.len(),
                        cfg.msgs_a.len(),
                        c.a2b.len(),
                        c.b2a.len()
                    ),
                    json!({"harness": "well-behaved", "cfg": cfg_json(cfg), "actions": h2.iter().map(act_name).collect::<Vec<_>>(), "then": "complete"}),
                );
                return false;
            }
            true
        },
        |s| s.key(),
    );
    WStats {
        states: st.states,
        transitions: st.transitions,
        completions: completions.get(),
        max_depth: st.max_depth,
        wrapped: wrapped.get(),
        multi_segment: multi.get(),
    }
}

fn default_prefix(cfg: &Cfg, segments_from_a: u32) -> Vec<Act> {
    // run the fair schedule until A has put `segments_from_a` segments on the wire
    let mut s = Sys::new(cfg);
    let mut hist = Vec::new();
    'outer: for _ in 0..100_000 {
        for act in [Act::SubmitA, Act::SubmitB, Act::OutA, Act::DelAB, Act::RecvB, Act::OutB, Act::DelBA, Act::RecvA] {
            if s.a.flow.sent >= segments_from_a {
                break 'outer;
            }
            if s.apply(act) {
                hist.push(act);
            }
        }
        if s.done() {
            break;
        }
    }
    hist
}

// ---------------------------------------------------------------- hostile peer

/// Receiver-side reference for deciding which injected data segments *must* be refused.
struct HostileRef {
    expected_seq: u8,
    node_last_sent: Option<u8>,
    node_unacked: u32,
    peer_unacked_at_node: u32,
    window: u32,
    mtu: u16,
    rem_msg_len: u32,
}

fn hostile_ref(s: &Sys, target: u8) -> Option<HostileRef> {
    let st = if target == 1 { s.b.btp.verif_state().0 } else { s.a.btp.verif_state().0 };
    if st[0] == 0 {
        return None;
    }
    let (node, peer) = if target == 1 { (&s.b, &s.a) } else { (&s.a, &s.b) };
    // expected seq: one past the last segment delivered to the node
    let delivered_from_peer = node.flow.received;
    let expected_seq = if target == 1 {
        (delivered_from_peer % 256) as u8 // A's first data segment is 0
    } else {
        (delivered_from_peer % 256) as u8 // B's handshake response was 0, counted in `received`
    };
    let _ = peer;
    // The handshake response is the responder's segment 0 and counts against the initiator's window.
    let hs = 0;
    Some(HostileRef {
        expected_seq,
        node_last_sent: node.flow.last_seq,
        node_unacked: node.flow.sent - node.flow.acked,
        peer_unacked_at_node: node.flow.received - node.flow.acked_out - hs,
        // the window the node itself negotiated
        window: st[3],
        mtu: st[2] as u16,
        rem_msg_len: st[11],
    })
}

/// Some(reason) if the property says this data segment must be refused; None if acceptable or open.
fn must_refuse(r: &HostileRef, seg: &Seg, raw_len: usize) -> Option<&'static str> {
    if seg.flags & F_HANDSHAKE != 0 {
        return None; // handshake restart: left open
    }
    if seg.flags & F_MGMT != 0 {
        return Some("management-opcode-on-data-segment");
    }
    let seq = seg.seq?;
    if seq != r.expected_seq {
        return Some("wrong-sequence-number");
    }
    if r.peer_unacked_at_node >= r.window {
        return Some("window-overrun");
    }
    if let Some(ack) = seg.ack {
        match r.node_last_sent {
            None => return Some("ack-of-something-never-sent"),
            Some(last) => {
                let behind = last.wrapping_sub(ack) as u32;
                // acceptable: acks one of the currently unacknowledged segments, or repeats the last ack
                if behind > r.node_unacked {
                    return Some("ack-of-something-never-sent");
                }
            }
        }
    }
    let standalone_ack = seg.flags & (F_BEGIN | F_CONT | F_END) == 0 && seg.ack.is_some();
    if standalone_ack {
        if !seg.payload.is_empty() {
            return Some("standalone-ack-with-payload");
        }
        return None;
    }
    if seg.flags & (F_BEGIN | F_CONT | F_END) == 0 {
        return Some("no-segment-position-flag");
    }
    if seg.flags & F_BEGIN != 0 && seg.flags & F_CONT != 0 {
        return Some("begin-and-continue");
    }
    if seg.flags & F_BEGIN != 0 && r.rem_msg_len > 0 {
        return Some("begin-while-message-in-progress");
    }
    if seg.flags & F_BEGIN == 0 && r.rem_msg_len == 0 && !seg.payload.is_empty() {
        return Some("continuation-without-message");
    }
    let rem = if let Some(l) = seg.msg_len { l as u32 } else { r.rem_msg_len };
    if seg.payload.len() as u32 > rem {
        return Some("payload-longer-than-declared-length");
    }
    if seg.flags & F_END != 0 && seg.payload.len() as u32 != rem {
        return Some("final-segment-shorter-than-declared-length");
    }
    if seg.flags & F_END == 0 && raw_len != r.mtu as usize {
        return Some("non-final-segment-not-mtu-sized");
    }
    None
}

fn hostile_catalog(r: Option<&HostileRef>) -> Vec<Vec<u8>> {
    let mut out = Vec::new();
    let (exp, last, mtu) = match r {
        Some(r) => (r.expected_seq, r.node_last_sent.unwrap_or(0), r.mtu.max(4)),
        None => (0, 0, 20),
    };
    let seqs = [exp, exp.wrapping_sub(1), exp.wrapping_add(1), exp.wrapping_add(128)];
    let acks = [last, last.wrapping_sub(1), last.wrapping_add(1), last.wrapping_add(128)];
    for flags in 0..=255u8 {
        if flags & F_HANDSHAKE != 0 {
            continue;
        }
        for &seq in &seqs {
            for &ack in &acks {
                if flags & F_ACK == 0 && ack != acks[0] {
                    continue;
                }
                let hdr_len = 1 + (flags & F_MGMT != 0) as usize + (flags & F_ACK != 0) as usize + 1 + if flags & F_BEGIN != 0 { 2 } else { 0 };
                let full = (mtu as usize).saturating_sub(hdr_len);
                let mut plens = vec![0usize, 1, full, full + 1];
                plens.dedup();
                for &pl in &plens {
                    let mut decl: Vec<u16> = vec![0, 1, pl as u16, pl as u16 + 1, 0xffff];
                    decl.dedup();
                    if flags & F_BEGIN == 0 {
                        decl = vec![0];
                    }
                    for d in decl {
                        let seg = Seg { flags, opcode: Some(0x6c), ack: Some(ack), seq: Some(seq), msg_len: Some(d), payload: vec![0x5a; pl] };
                        out.push(encode(&seg));
                    }
                }
            }
        }
    }
    out
}

fn handshake_catalog(to_initiator: bool) -> Vec<Vec<u8>> {
    let mut out = Vec::new();
    let mtus: [u16; 10] = [0, 1, 2, 3, 4, 22, 23, 247, 248, 65535];
    let windows: [u8; 4] = [0, 1, 2, 255];
    for flags in [0x65u8, 0x6d, 0x67, 0x45, 0x64, 0x61, 0xe5, 0x7f] {
        for &m in &mtus {
            for &w in &windows {
                let mut v = vec![flags];
                if flags & F_MGMT != 0 {
                    v.push(0x6c);
                }
                if flags & F_ACK != 0 {
                    v.push(0);
                }
                if to_initiator {
                    v.push(4);
                    v.extend_from_slice(&m.to_le_bytes());
                    v.push(w);
                } else {
                    v.extend_from_slice(&[4, 0, 0, 0]);
                    v.extend_from_slice(&m.to_le_bytes());
                    v.push(w);
                }
                for cut in [v.len(), v.len() - 1, 2, 1] {
                    out.push(v[..cut].to_vec());
                }
            }
        }
    }
    out
}

struct HStats {
    states: u64,
    injections: u64,
    accepted: u64,
    refused: u64,
}

fn explore_hostile(cfg: &Cfg, max_prefix: usize, report: &mut Report) -> HStats {
    let mut stats = HStats { states: 0, injections: 0, accepted: 0, refused: 0 };
    // prefixes of the fair default conversation
    let mut full = Vec::new();
    {
        let mut s = Sys::new(cfg);
        'o: for _ in 0..1000 {
            let mut progress = false;
            for act in [Act::SubmitA, Act::SubmitB, Act::OutA, Act::DelAB, Act::RecvB, Act::OutB, Act::DelBA, Act::RecvA] {
                if s.apply(act) {
                    full.push(act);
                    progress = true;
                    if full.len() >= max_prefix {
                        break 'o;
                    }
                }
            }
            if !progress {
                break;
            }
        }
    }
    let mut seen = std::collections::HashSet::new();
    for plen in 0..=full.len() {
        let prefix = &full[..plen];
        let base = build(cfg, prefix);
        if !seen.insert(common::digest(&format!("{:?}", base.key()))) {
            continue;
        }
        stats.states += 1;
        for target in [1u8, 0u8] {
            let r = hostile_ref(&base, target);
            let mut cat = hostile_catalog(r.as_ref());
            cat.extend(handshake_catalog(target == 0));
            for inj in cat {
                stats.injections += 1;
                let mut s = build(cfg, prefix);
                let btp = if target == 1 { &s.b.btp } else { &s.a.btp };
                let addr = if target == 1 { ADDR_A } else { ADDR_B };
                let gatt = cfg.gatt_mtu;
                let res = common::catch(|| btp.process_incoming(gatt, addr, &inj));
                let replay = json!({"harness": "hostile", "cfg": cfg_json(cfg), "actions": prefix.iter().map(act_name).collect::<Vec<_>>(), "target": target, "inject": hex(&inj)});
                let verdict = match res {
                    Err(p) => {
                        report.violation(
                            format!("C18:hostile:panic:{}", p.class()),
                            format!("after {} conforming steps, segment {} injected into end {}: {}", plen, hex(&inj), target, p),
                            replay,
                        );
                        continue;
                    }
                    Ok(v) => v,
                };
                let seg = parse(&inj);
                if verdict.is_ok() {
                    stats.accepted += 1;
                } else {
                    stats.refused += 1;
                }
                if let (Some(r), Some(seg)) = (r.as_ref(), seg.as_ref()) {
                    if let Some(why) = must_refuse(r, seg, inj.len()) {
                        if verdict.is_ok() {
                            report.violation(
                                format!("C18:hostile:violating-segment-accepted:{}", why),
                                format!("after {} conforming steps end {} accepted {} ({}): expected seq {}, node last sent {:?}, node unacked {}, peer unacked {}, window {}, mtu {}, rem {}",
                                    plen, target, hex(&inj[..inj.len().min(10)]), why, r.expected_seq, r.node_last_sent, r.node_unacked, r.peer_unacked_at_node, r.window, r.mtu, r.rem_msg_len),
                                replay.clone(),
                            );
                            continue;
                        }
                    }
                }
                // follow-up battery: the node keeps working without a crash
                let follow = common::catch(|| {
                    let btp = if target == 1 { &s.b.btp } else { &s.a.btp };
                    let mut buf = [0u8; 600];
                    for _ in 0..3 {
                        let _ = btp.process_outgoing(gatt, &mut buf);
                    }
                    let mut mb = vec![0u8; 2048];
                    let _ = poll_once(btp.recv(&mut mb));
                    vclock::advance_by_ms(ACK_TIMEOUT_S * 1000);
                    let _ = btp.process_outgoing(gatt, &mut buf);
                    let _ = btp.timeout();
                    let _ = poll_once(btp.send(&[1, 2, 3], addr));
                    let _ = btp.process_outgoing(gatt, &mut buf);
                });
                if let Err(p) = follow {
                    report.violation(
                        format!("C18:hostile:panic-after-injection:{}", p.class()),
                        format!("after {} conforming steps, segment {} injected into end {} (verdict {:?}), then normal operation: {}", plen, hex(&inj), target, verdict.is_ok(), p),
                        replay,
                    );
                }
                let _ = &mut s;
            }
        }
    }
    stats
}


// ---------------------------------------------------------------- greedy (but conforming) peer

/// One scenario of the greedy-peer sweep: SDU lengths sent back to back by a peer that keeps
/// every segment-level rule (sequence, window, flags, lengths) but sends SDUs of any size and
/// never waits for the application at the node; `eager` = the node's application fetches as
/// soon as a message is complete, otherwise only when the peer's window is exhausted.
#[derive(Clone, Debug)]
struct Greedy {
    gatt_mtu: Option<u16>,
    sdus: Vec<usize>,
    eager: bool,
}

fn greedy_json(g: &Greedy) -> Value {
    json!({"harness": "greedy", "gatt_mtu": g.gatt_mtu, "sdus": g.sdus, "eager": g.eager})
}

fn greedy_from(v: &Value) -> Greedy {
    Greedy { gatt_mtu: v["gatt_mtu"].as_u64().map(|x| x as u16), sdus: v["sdus"].as_array().unwrap().iter().map(|x| x.as_u64().unwrap() as usize).collect(), eager: v["eager"].as_bool().unwrap_or(false) }
}

#[derive(Default)]
struct GOut {
    violation: Option<(String, String)>,
    segments_accepted: u64,
    segments_refused: u64,
    fetched: u64,
    /// bytes in the node's ring buffer at its fullest
    max_fill: u32,
}

fn run_greedy(g: &Greedy, verbose: bool) -> GOut {
    let mut out = GOut::default();
    let cfg = Cfg { gatt_mtu: g.gatt_mtu, relaxed: false, msgs_a: vec![], msgs_b: vec![] };
    let mut s = Sys::new(&cfg);
    // real handshake between the two real ends
    for act in [Act::OutA, Act::DelAB, Act::OutB, Act::DelBA] {
        s.apply(act);
    }
    let st = s.b.btp.verif_state().0;
    if st[0] == 0 || s.fault.is_some() {
        out.violation = Some(("C18:greedy:harness".into(), format!("handshake did not complete: {:?} {:?}", st, s.fault)));
        return out;
    }
    let (mtu, window) = (st[2] as usize, st[3]);
    let node = &s.b.btp;
    // the peer's view: its own next sequence number, its unacknowledged segments, the node's
    // last sequence number seen and whether that still has to be acknowledged
    let mut seq = 0u8;
    let mut unacked = 0u32;
    let mut node_seq_to_ack: Option<u8> = Some(0); // the handshake response is the node's segment 0
    let mut completed: VecDeque<usize> = VecDeque::new(); // indices of SDUs completely accepted, not yet fetched
    let mut fetched = 0usize;
    let fetch_one = |completed: &mut VecDeque<usize>, out: &mut GOut| -> bool {
        let mut buf = vec![0u8; 4096];
        match common::catch(|| poll_once(node.recv(&mut buf))) {
            Err(p) => {
                out.violation = Some((format!("C18:greedy:panic:{}", p.class()), format!("recv: {}", p)));
                false
            }
            Ok(None) => false,
            Ok(Some(Err(e))) => {
                out.violation = Some(("C18:greedy:recv-error".into(), format!("{:?} with {} complete SDUs accepted and not yet fetched", e, completed.len())));
                false
            }
            Ok(Some(Ok((n, _)))) => {
                out.fetched += 1;
                let Some(idx) = completed.pop_front() else {
                    out.violation = Some(("C18:greedy:message-delivered-that-was-never-completed".into(), format!("{} bytes", n)));
                    return false;
                };
                let expect = message(0, idx, g.sdus[idx]);
                if buf[..n] != expect[..] {
                    let pos = buf[..n].iter().zip(expect.iter()).position(|(a, b)| a != b);
                    out.violation = Some(("C18:greedy:corrupted-message-delivered".into(), format!("SDU #{} ({} bytes, every segment of it was accepted) comes out as {} bytes, first difference at {:?}", idx, expect.len(), n, pos)));
                    return false;
                }
                true
            }
        }
    };
    let mut pump_acks = |unacked: &mut u32, node_seq_to_ack: &mut Option<u8>, out: &mut GOut| {
        let mut b = [0u8; 600];
        for _ in 0..4 {
            match common::catch(|| node.process_outgoing(g.gatt_mtu, &mut b)) {
                Err(p) => {
                    out.violation = Some((format!("C18:greedy:panic:{}", p.class()), format!("process_outgoing: {}", p)));
                    return;
                }
                Ok(Ok(n)) if n > 0 => {
                    if let Some(seg) = parse(&b[..n]) {
                        if seg.ack.is_some() {
                            // acks are cumulative: the node acknowledges the last segment it accepted
                            *unacked = 0;
                        }
                        if seg.seq.is_some() {
                            *node_seq_to_ack = seg.seq;
                        }
                    }
                }
                _ => return,
            }
        }
    };
    'sdus: for (idx, &len) in g.sdus.iter().enumerate() {
        let data = message(0, idx, len);
        let mut off = 0usize;
        let mut first = true;
        while first || off < len {
            // window: a conforming sender never has more than `window` - 1 unacknowledged segments
            // outstanding beyond what the node can take; when it is exhausted the node's application
            // has to make room (fetch) and the node has to acknowledge
            let mut guard = 0;
            while unacked >= window {
                pump_acks(&mut unacked, &mut node_seq_to_ack, &mut out);
                if out.violation.is_some() {
                    return out;
                }
                if unacked < window {
                    break;
                }
                if !fetch_one(&mut completed, &mut out) {
                    if out.violation.is_none() && verbose {
                        println!("  peer blocked: window exhausted, nothing to fetch");
                    }
                    break 'sdus;
                }
                fetched += 1;
                guard += 1;
                if guard > 64 {
                    break 'sdus;
                }
            }
            let ack = node_seq_to_ack.take();
            let hdr = 1 + ack.is_some() as usize + 1 + if first { 2 } else { 0 };
            let room = mtu - hdr;
            let take = room.min(len - off);
            let last = off + take == len;
            let mut flags = 0u8;
            if first {
                flags |= F_BEGIN;
            } else {
                flags |= F_CONT;
            }
            if last {
                flags |= F_END;
            }
            if ack.is_some() {
                flags |= F_ACK;
            }
            let seg = Seg { flags, opcode: None, ack, seq: Some(seq), msg_len: first.then_some(len as u16), payload: data[off..off + take].to_vec() };
            let raw = encode(&seg);
            let res = common::catch(|| node.process_incoming(g.gatt_mtu, ADDR_A, &raw));
            match res {
                Err(p) => {
                    out.violation = Some((format!("C18:greedy:panic:{}", p.class()), format!("segment {} of SDU #{}: {}", hex(&raw[..raw.len().min(8)]), idx, p)));
                    return out;
                }
                Ok(Err(_)) => {
                    out.segments_refused += 1;
                    if verbose {
                        println!("  segment seq {} of SDU #{} (offset {}, {} payload bytes) refused; node {:?}", seq, idx, off, take, node.verif_state().0);
                    }
                    // a refused segment ends the conversation (the real transport drops the session);
                    // what was completed before must still come out intact
                    break 'sdus;
                }
                Ok(Ok(())) => {
                    out.segments_accepted += 1;
                    seq = seq.wrapping_add(1);
                    unacked += 1;
                    off += take;
                    first = false;
                    out.max_fill = out.max_fill.max(node.verif_state().0[12]);
                    if verbose {
                        println!("  segment seq {} of SDU #{} accepted ({} payload bytes{}); node {:?}", seq.wrapping_sub(1), idx, take, if last { ", final" } else { "" }, node.verif_state().0);
                    }
                }
            }
            if last {
                completed.push_back(idx);
                if g.eager {
                    if !fetch_one(&mut completed, &mut out) {
                        if out.violation.is_none() {
                            out.violation = Some(("C18:greedy:complete-message-not-available".into(), format!("SDU #{} was completely accepted, the application cannot fetch it", idx)));
                        }
                        return out;
                    }
                    fetched += 1;
                }
            }
            pump_acks(&mut unacked, &mut node_seq_to_ack, &mut out);
            if out.violation.is_some() {
                return out;
            }
        }
    }
    // drain: everything completely accepted comes out, in order and intact
    while !completed.is_empty() {
        if !fetch_one(&mut completed, &mut out) {
            if out.violation.is_none() {
                out.violation = Some(("C18:greedy:complete-message-not-available".into(), format!("{} completely accepted SDUs cannot be fetched", completed.len())));
            }
            return out;
        }
        fetched += 1;
    }
    // and nothing else does
    let mut buf = vec![0u8; 4096];
    if let Ok(Some(Ok((n, _)))) = common::catch(|| poll_once(node.recv(&mut buf))) {
        out.violation = Some(("C18:greedy:message-delivered-that-was-never-completed".into(), format!("{} bytes after {} fetched messages", n, fetched)));
    }
    out
}

struct GStats {
    scenarios: u64,
    accepted: u64,
    refused: u64,
    fetched: u64,
    scenarios_with_refusal: u64,
    max_fill: u32,
}

fn greedy_catalog(quick: bool) -> Vec<Greedy> {
    const CAP: usize = 3166; // the node's receive ring buffer (2 x the largest Matter datagram)
    let mut v = Vec::new();
    for gatt in [Some(247u16), Some(100), None] {
        let seg = gatt.map(|g| g.clamp(23, 247)).unwrap_or(23) as usize - 3;
        let one = seg - 4; // payload of a single-segment SDU without a piggy-backed ack
        // small SDUs that follow: every single-segment size, and the first two-segment sizes
        let followers: Vec<usize> = if quick && seg > 100 { (1..=one + 2).step_by(1).collect() } else { (1..=one + 2).collect() };
        // a first SDU (or pair of SDUs) that leaves F bytes free, for every F around the follower sizes
        for free in 0..=one + 6 {
            for &f in &followers {
                // only the neighbourhood of "fits exactly" (all of it in the thorough tier)
                let near = (f as i64 - free as i64).abs() <= 4 || (f as i64 + 2 - free as i64).abs() <= 4;
                if quick && !near {
                    continue;
                }
                if !quick && !near && (f % 7 != 0 || free % 5 != 0) {
                    continue;
                }
                // one oversize SDU: 2 + L1 = CAP - free
                if CAP >= free + 2 + 1 {
                    v.push(Greedy { gatt_mtu: gatt, sdus: vec![CAP - free - 2, f], eager: false });
                }
                // a largest legitimate datagram followed by a second SDU: 2 + 1583 + 2 + L = CAP - free
                if CAP >= free + 4 + 1583 + 1 {
                    v.push(Greedy { gatt_mtu: gatt, sdus: vec![1583, CAP - free - 4 - 1583, f], eager: false });
                }
            }
        }
        // sizes around and beyond the capacity, alone and eagerly fetched
        for l in [1usize, one, one + 1, 1583, 1584, CAP - 3, CAP - 2, CAP - 1, CAP, CAP + 1, 4000, 65535] {
            for eager in [false, true] {
                v.push(Greedy { gatt_mtu: gatt, sdus: vec![l, 5, l], eager });
            }
        }
    }
    v
}

fn explore_greedy(quick: bool, report: &mut Report) -> GStats {
    let cat = greedy_catalog(quick);
    let results: Vec<(Greedy, GOut)> = cat.par_iter().map(|g| (g.clone(), run_greedy(g, false))).collect();
    let mut st = GStats { scenarios: 0, accepted: 0, refused: 0, fetched: 0, scenarios_with_refusal: 0, max_fill: 0 };
    for (g, o) in results {
        st.scenarios += 1;
        st.accepted += o.segments_accepted;
        st.refused += o.segments_refused;
        st.fetched += o.fetched;
        st.scenarios_with_refusal += (o.segments_refused > 0) as u64;
        st.max_fill = st.max_fill.max(o.max_fill);
        if let Some((sig, what)) = o.violation {
            report.violation(sig, format!("{:?}: {}", g, what), greedy_json(&g));
        }
    }
    st
}

// ---------------------------------------------------------------- driver

fn replay(ctx: &Ctx, path: &std::path::Path) -> i32 {
    let doc: Value = serde_json::from_str(&std::fs::read_to_string(path).expect("replay file")).expect("json");
    let r = &doc["replay"];
    if r["harness"] == "greedy" {
        let g = greedy_from(r);
        let mut report = Report::new();
        println!("{:?}", g);
        let o = run_greedy(&g, true);
        println!("segments accepted {} refused {} fetched {} fullest buffer {}", o.segments_accepted, o.segments_refused, o.fetched, o.max_fill);
        if let Some((sig, what)) = o.violation {
            println!("  {} {}", sig, what);
            report.violation(sig, what, r.clone());
        }
        return common::finish(ctx, report, Evidence::new("model_checking"));
    }
    let cfg = cfg_from(&r["cfg"]);
    let acts: Vec<Act> = r["actions"].as_array().unwrap().iter().filter(|a| !a.as_str().unwrap().starts_with('<')).map(|a| act_from(a.as_str().unwrap())).collect();
    std::env::set_var("MC_SHOW_PANICS", "1");
    let mut report = Report::new();
    let mut s = Sys::new(&cfg);
    for a in &acts {
        let ch = s.apply(*a);
        println!("{:?} -> changed={} A={:?} B={:?} a2b={} b2a={}", a, ch, s.a.btp.verif_state().0, s.b.btp.verif_state().0, s.a2b.len(), s.b2a.len());
    }
    if r["harness"] == "hostile" {
        let inj = unhex(r["inject"].as_str().unwrap());
        let target = r["target"].as_u64().unwrap() as u8;
        let btp = if target == 1 { &s.b.btp } else { &s.a.btp };
        let addr = if target == 1 { ADDR_A } else { ADDR_B };
        let res = common::catch(|| btp.process_incoming(cfg.gatt_mtu, addr, &inj));
        println!("inject {} into end {} -> {:?}", hex(&inj), target, res.as_ref().map(|r| r.is_ok()).map_err(|p| p.to_string()));
        if let Err(p) = res {
            report.violation(format!("C18:hostile:panic:{}", p.class()), p.to_string(), r.clone());
        }
    } else {
        if r["then"] == "complete" {
            let ok = s.complete();
            println!("fair completion -> {}", ok);
            if !ok && s.fault.is_none() {
                report.violation("C18:well-behaved:deadlock-or-undelivered", "fair schedule cannot complete".to_string(), r.clone());
            }
        }
        if let Some((sig, what)) = &s.fault {
            println!("fault: {} {}", sig, what);
            report.violation(sig.clone(), what.clone(), r.clone());
        }
    }
    common::finish(ctx, report, Evidence::new("model_checking"))
}

pub fn run(ctx: &Ctx) -> i32 {
    if let Some(p) = &ctx.replay {
        return replay(ctx, p);
    }
    let quick = ctx.tier == Tier::Quick;
    // configurations: GATT MTU x relaxed x message-length scripts
    let mtus: Vec<Option<u16>> = if quick { vec![None, Some(23), Some(100), Some(247)] } else { vec![None, Some(23), Some(24), Some(100), Some(247), Some(512)] };
    let mut cfgs = Vec::new();
    for &m in &mtus {
        let seg = m.map(|g| g.clamp(23, 247)).unwrap_or(23) as usize - 3;
        // payload capacity of a first segment is seg-4 (flags, seq, 2 length bytes), -5 with an ack
        let lens_a = vec![1usize, seg - 5, seg - 4, seg - 3, 2 * seg];
        let scripts: Vec<(Vec<usize>, Vec<usize>)> = if quick {
            vec![(vec![lens_a[1], lens_a[3]], vec![3]), (vec![2 * seg + 1], vec![seg - 4, 1])]
        } else {
            vec![
                (vec![lens_a[1], lens_a[3]], vec![3]),
                (vec![2 * seg + 1], vec![seg - 4, 1]),
                (vec![1, lens_a[2], 1], vec![lens_a[4]]),
                (vec![1232], vec![1232]),
            ]
        };
        for (a, b) in scripts {
            for relaxed in [false, true] {
                if relaxed && quick && m != Some(100) {
                    continue;
                }
                cfgs.push(Cfg { gatt_mtu: m, relaxed, msgs_a: a.clone(), msgs_b: b.clone() });
            }
        }
    }
    let depth = if quick { 9 } else { 12 };
    let wrap_depth = if quick { 5 } else { 7 };
    let results: Vec<(Report, WStats, Option<WStats>, HStats, Cfg)> = cfgs
        .par_iter()
        .enumerate()
        .map(|(i, cfg)| {
            let mut report = Report::new();
            let w = explore_well_behaved(cfg, vec![vec![]], depth, &mut report);
            // sequence wrap-around: a long exchange of small messages, BFS from just before seq 255 -> 0
            let wrap = if i % 3 == 0 || !quick {
                let n = 300usize;
                let wcfg = Cfg { gatt_mtu: cfg.gatt_mtu, relaxed: cfg.relaxed, msgs_a: vec![5; n], msgs_b: vec![7; n] };
                let mut roots = Vec::new();
                for k in [250u32, 253, 255] {
                    roots.push(default_prefix(&wcfg, k));
                }
                Some(explore_well_behaved(&wcfg, roots, wrap_depth, &mut report))
            } else {
                None
            };
            let h = explore_hostile(cfg, if quick { 10 } else { 24 }, &mut report);
            (report, w, wrap, h, cfg.clone())
        })
        .collect();
    let mut report = Report::new();
    let greedy = explore_greedy(quick, &mut report);
    let (mut states, mut transitions, mut completions, mut injections, mut hstates, mut acc, mut refu, mut wrapped, mut multi) = (0u64, 0u64, 0u64, 0u64, 0u64, 0u64, 0u64, 0u64, 0u64);
    let mut per = Vec::new();
    for (r, w, wrap, h, cfg) in results {
        report.merge(r);
        states += w.states + wrap.as_ref().map(|w| w.states).unwrap_or(0) + h.states;
        transitions += w.transitions + wrap.as_ref().map(|w| w.transitions).unwrap_or(0) + h.injections;
        completions += w.completions + wrap.as_ref().map(|w| w.completions).unwrap_or(0);
        wrapped += wrap.as_ref().map(|w| w.wrapped).unwrap_or(0);
        multi += w.multi_segment;
        injections += h.injections;
        hstates += h.states;
        acc += h.accepted;
        refu += h.refused;
        per.push(json!({"cfg": cfg_json(&cfg), "states": w.states, "transitions": w.transitions, "max_depth": w.max_depth,
            "wrap_states": wrap.as_ref().map(|w| w.states), "hostile_states": h.states, "hostile_injections": h.injections}));
    }
    let sample_cfg = &cfgs[0];
    let sample_hist = default_prefix(sample_cfg, 3);
    let mut ev = Evidence::new("model_checking");
    ev.set("states", json!(states + greedy.scenarios))
        .set("transitions", json!(transitions + greedy.accepted + greedy.refused))
        .set("traces_validated_against_impl", json!(transitions + completions + greedy.scenarios))
        .set("samples", json!([
            {"well_behaved": {"cfg": cfg_json(sample_cfg), "actions": sample_hist.iter().map(act_name).collect::<Vec<_>>()}},
            {"hostile_injection": hex(&hostile_catalog(None)[100])},
        ]))
        .set("exhaustive", json!(true))
        .set("per_configuration", Value::Array(per))
        .set("vacuity", json!({"fair_completions_run": completions, "completions_crossing_seq_wrap": wrapped, "completions_with_multi_segment_messages": multi, "hostile_states": hstates, "hostile_injections": injections, "hostile_accepted": acc, "hostile_refused": refu,
            "greedy_scenarios": greedy.scenarios, "greedy_segments_accepted": greedy.accepted, "greedy_segments_refused": greedy.refused, "greedy_scenarios_ending_in_a_refusal": greedy.scenarios_with_refusal, "greedy_messages_fetched_and_compared": greedy.fetched, "greedy_fullest_receive_buffer": greedy.max_fill}))
        .set("rule", json!(format!("well-behaved: BFS depth {} over 9 actions (submit/poll/deliver/fetch per end + ack timer) from the initial state and depth {} from states just before the sequence wrap, every visited state additionally completed with the fair schedule; hostile: every prefix of the fair conversation x both ends x (all 192 non-handshake flag bytes x 4 seq x 4 ack x payload/declared-length boundary values + 1280 handshake frames); greedy peer: after a real handshake a peer that keeps every segment-level rule sends back to back SDUs of lengths [L1, f] and [1583, L, f] with the first one or two chosen so that F bytes of the 3166-byte receive buffer stay free, for every F in 0..=(segment payload + 6) and every follower length f in 1..=(single-segment payload + 2) with |f - F| <= 4 or |f + 2 - F| <= 4 (thorough: plus a 1/35 grid of the remaining pairs), for GATT MTU 247 / 100 / none, plus SDU lengths around and beyond the buffer capacity with an eager and a lazy application; every completely accepted SDU must come out intact and in order, nothing else may come out", depth, wrap_depth)));
    ev.assume("GATT delivers segments in order and without loss (two FIFO queues)");
    ev.assume("the acknowledgement deadline is checked in states where the application has fetched every complete message (the implementation withholds acks while a complete message waits, by design)");
    ev.assume("a hostile handshake frame on an established session (session restart) is left open by the property; only 'no panic' is required of it");
    if report.violations.is_empty() && (greedy.fetched == 0 || greedy.scenarios_with_refusal == 0 || greedy.max_fill < 3100) {
        eprintln!("MACHINERY: vacuous C18 greedy-peer sweep (fetched {}, refusals {}, fullest buffer {})", greedy.fetched, greedy.scenarios_with_refusal, greedy.max_fill);
        return 2;
    }
    if report.violations.is_empty() && (completions == 0 || injections == 0 || wrapped == 0) {
        eprintln!("MACHINERY: vacuous C18 run (completions {}, injections {}, wrapped {})", completions, injections, wrapped);
        return 2;
    }
    common::finish(ctx, report, ev)
}
