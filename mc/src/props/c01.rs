//! C01 — CASE admits only holders of a valid NOC of the addressed fabric.
//!
//! Two real nodes: initiator I (`CaseInitiator::perform` over `Exchange::initiate_plaintext`) and
//! responder R (`SecureChannel` handler), joined by the adversarial network under the virtual
//! clock. Enumerated exhaustively within the catalogs:
//!   (a) credential configurations (valid shapes, and chains / keys invalid in one respect);
//!   (b) for the valid configurations, every single attacker move on every handshake datagram:
//!       per TLV field flip-first-bit / flip-last-bit / delete / truncate-at / transplant from
//!       another honest handshake, header bit flips, drop, duplicate, replay of the stale
//!       datagram of another handshake - on the full handshake and on the resumption handshake;
//!   (c) (thorough) each of those crossed with one extra loss of another handshake datagram.
//! Oracle on the session tables of both ends after the horizon (see `judge`).

use std::cell::RefCell;
use std::rc::Rc;

use core::num::NonZeroU8;

use embassy_futures::select::select;
use rayon::prelude::*;
use serde_json::{json, Value};

use rs_matter::cert::gen::{Validity, VALID_FOREVER};
use rs_matter::crypto::CanonPkcSecretKey;
use rs_matter::dm::clusters::time_sync::{GranularityEnum, TimeSourceEnum};
use rs_matter::error::Error;
use rs_matter::respond::Responder;
use rs_matter::sc::case::CaseInitiator;
use rs_matter::sc::SecureChannel;
use rs_matter::transport::exchange::Exchange;
use rs_matter::transport::network::NoNetwork;
use rs_matter::transport::session::SessionMode;
use rs_matter::Matter;

use crate::common::creds::{self, FabricMaterial, NodeCreds};
use crate::common::nodes;
use crate::common::rng::SeededRng;
use crate::common::sim::{addr_of, Dgram, Exec, Net, Owned};
use crate::common::wire::{parse_plain, parse_proto, top_fields};
use crate::common::{self, hex, vclock, Ctx, Evidence, Report, Tier};

const I_NODE: u64 = 0x1111;
const R_NODE: u64 = 0x2222;
/// 2026-01-01 in seconds since the Matter epoch (2000-01-01)
const T0_S: u64 = 820_454_400;
const START_US: u64 = 7_000_000_000;

#[derive(Clone, Copy, Debug, PartialEq, Eq, Hash)]
enum CredCfg {
    Valid,
    ValidIcac,
    ValidCats,
    /// R holds fabrics F1 and F2, I is a member of (and addresses) F2
    TwoFabricsAddrSecond,
    /// I's NOC names the fabric's real CA as issuer but is signed by another key
    InitiatorLookalikeSigner,
    /// I's NOC is fine but I signs the transcript with a key that is not the NOC's
    InitiatorWrongOpKey,
    InitiatorExpired,
    InitiatorNotYetValid,
    ResponderLookalikeSigner,
    ResponderWrongOpKey,
    ResponderExpired,
    /// same fabric id on both sides, different root authorities
    DifferentRoots,
}

impl CredCfg {
    fn acceptable(&self) -> bool {
        matches!(self, CredCfg::Valid | CredCfg::ValidIcac | CredCfg::ValidCats | CredCfg::TwoFabricsAddrSecond)
    }
}

#[derive(Clone, Debug, PartialEq, Eq, Hash)]
pub enum Mutn {
    None,
    Drop,
    Dup,
    /// replace the whole datagram by the corresponding one of another honest handshake
    Stale,
    /// flip bit 0 of byte `off` of the datagram (header fields)
    FlipByte(usize),
    /// flip bit `bit` of byte `off` of the datagram (thorough: every bit of every handshake datagram)
    FlipBit(usize, u8),
    FlipFirst(u8),
    FlipLast(u8),
    Delete(u8),
    TruncateAt(u8),
    Transplant(u8),
    /// replace the value bytes of a field (same length) - used for invalid curve points
    ReplaceValue(u8, Vec<u8>),
}

/// Which datagram: n-th first-transmission from `from` with secure-channel opcode `opcode`.
#[derive(Clone, Debug, PartialEq, Eq, Hash)]
pub struct Target {
    pub from: usize,
    pub opcode: u8,
    pub nth: usize,
}

#[derive(Clone, Debug)]
struct RunSpec {
    cred: CredCfg,
    handshakes: usize,
    target: Option<(Target, Mutn)>,
    /// additionally drop this datagram (first transmission)
    extra_drop: Option<Target>,
    seed: u64,
}

#[derive(Clone, Debug, PartialEq, Eq, Hash)]
struct SessSum {
    fab_idx: u8,
    peer: Option<u64>,
    cats: [u32; 3],
    enc: String,
    dec: String,
    reserved: bool,
    /// (local session id, peer session id)
    sids: (u16, u16),
}

#[derive(Clone, Debug, Default)]
struct Summary {
    i_sessions: Vec<SessSum>,
    r_sessions: Vec<SessSum>,
    i_reserved_left: usize,
    r_reserved_left: usize,
    results: Vec<Result<(), String>>,
    client_done: bool,
    wire: Vec<Dgram>,
    applied: bool,
    /// more than 400 datagrams were exchanged: the two nodes keep answering each other
    storm: bool,
}

struct Material {
    f1: FabricMaterial,
    f2: FabricMaterial,
    i: NodeCreds,
    r: NodeCreds,
    r2: Option<NodeCreds>,
    i_fabric: FabricMaterial,
    r_fabric: FabricMaterial,
}

fn material(cred: CredCfg, seed: u64) -> Result<Material, Error> {
    let c = nodes::crypto(SeededRng::new(seed));
    let with_icac = cred == CredCfg::ValidIcac;
    let f1 = creds::mint_fabric(&c, 1, with_icac, VALID_FOREVER, 0xA1)?;
    let f2 = creds::mint_fabric(&c, 2, false, VALID_FOREVER, 0xA2)?;
    let evil: CanonPkcSecretKey = {
        use rs_matter::crypto::{Crypto, SecretKey};
        let k = c.generate_secret_key()?;
        let mut s = CanonPkcSecretKey::new();
        k.write_canon(&mut s)?;
        s
    };
    let expired = Validity { not_before: 1, not_after: (T0_S - 1000) as u32 };
    let future = Validity { not_before: (T0_S + 1000) as u32, not_after: 0 };
    let cats: &[u32] = if cred == CredCfg::ValidCats { &[0xABCD_0002, 0x1234_0001, 0xFFFF_FFFF] } else { &[] };
    let (i_fab, r_fab) = match cred {
        CredCfg::TwoFabricsAddrSecond => (f2.clone(), f2.clone()),
        CredCfg::DifferentRoots => (creds::mint_fabric(&c, 1, false, VALID_FOREVER, 0xA1)?, f1.clone()),
        _ => (f1.clone(), f1.clone()),
    };
    let mut i = creds::mint_noc(
        &c,
        &i_fab,
        I_NODE,
        cats,
        match cred {
            CredCfg::InitiatorExpired => expired,
            CredCfg::InitiatorNotYetValid => future,
            _ => VALID_FOREVER,
        },
        if cred == CredCfg::InitiatorLookalikeSigner { Some(&evil) } else { None },
    )?;
    let mut r = creds::mint_noc(
        &c,
        &r_fab,
        R_NODE,
        &[],
        if cred == CredCfg::ResponderExpired { expired } else { VALID_FOREVER },
        if cred == CredCfg::ResponderLookalikeSigner { Some(&evil) } else { None },
    )?;
    if cred == CredCfg::InitiatorWrongOpKey {
        i.secret = evil.clone();
    }
    if cred == CredCfg::ResponderWrongOpKey {
        r.secret = evil.clone();
    }
    let r2 = if cred == CredCfg::TwoFabricsAddrSecond { Some(creds::mint_noc(&c, &f1, R_NODE, &[], VALID_FOREVER, None)?) } else { None };
    Ok(Material { f1, f2, i, r, r2, i_fabric: i_fab, r_fabric: r_fab })
}

struct World {
    exec: Exec,
    net: Net,
    obs: Rc<RefCell<(Vec<Result<(), String>>, bool)>>,
    i: Owned<Matter<'static>>,
    r: Owned<Matter<'static>>,
}

fn set_clock(m: &Matter<'_>) {
    m.with_rtc(|rtc| {
        rtc.set_utc_time(T0_S * 1_000_000, GranularityEnum::MicrosecondsGranularity, TimeSourceEnum::Admin, &());
    });
}

fn build(spec: &RunSpec) -> Result<World, String> {
    vclock::reset(START_US);
    let mat = material(spec.cred, 4242).map_err(|e| format!("credential minting failed: {:?}", e))?;
    let net = Net::new(2);
    let i = Owned::from_box(nodes::new_matter());
    let r = Owned::from_box(nodes::new_matter());
    let (mi, mr) = (i.get(), r.get());
    set_clock(mi);
    set_clock(mr);
    let ci = nodes::crypto(SeededRng::new(spec.seed + 1));
    // R's fabric table
    if let Some(r2) = &mat.r2 {
        creds::install(mr, &ci, &mat.f1, r2, I_NODE).map_err(|e| format!("install R/F1: {:?}", e))?;
    }
    creds::install(mr, &ci, &mat.r_fabric, &mat.r, I_NODE).map_err(|e| format!("install R: {:?}", e))?;
    let i_fab_idx = creds::install(mi, &ci, &mat.i_fabric, &mat.i, I_NODE).map_err(|e| format!("install I: {:?}", e))?;
    let _ = &mat.f2;

    let obs = Rc::new(RefCell::new((Vec::new(), false)));
    let mut exec = Exec::new();
    {
        let (send, recv) = (net.end(1), net.end(1));
        let seed = spec.seed;
        exec.spawn("R", async move {
            let c = nodes::crypto(SeededRng::new(seed + 20));
            let sc = SecureChannel::new(&c, &());
            let responder = Responder::new("R", sc, mr, 0);
            let _ = select(mr.run(&c, send, recv, NoNetwork), responder.run::<2>()).await;
        });
    }
    {
        let (send, recv) = (net.end(0), net.end(0));
        let obs2 = obs.clone();
        let seed = spec.seed;
        let n = spec.handshakes;
        exec.spawn("I", async move {
            let c = nodes::crypto(SeededRng::new(seed + 10));
            let client = async {
                for _ in 0..n {
                    let r: Result<(), Error> = async {
                        let exchange = Exchange::initiate_plaintext(mi, &c, addr_of(1)).await?;
                        CaseInitiator::perform(exchange, &c, i_fab_idx, R_NODE).await
                    }
                    .await;
                    obs2.borrow_mut().0.push(r.map_err(|e| format!("{:?}", e.code())));
                }
                obs2.borrow_mut().1 = true;
                core::future::pending::<()>().await
            };
            let _ = select(mi.run(&c, send, recv, NoNetwork), client).await;
        });
    }
    Ok(World { exec, net, obs, i, r })
}

fn sessions_of(m: &Matter<'_>) -> (Vec<SessSum>, usize) {
    m.with_state(|state| {
        let mut v = Vec::new();
        let mut reserved = 0;
        for s in state.verif_sessions().iter() {
            let (res, _exp, _) = s.verif_flags();
            if res {
                reserved += 1;
            }
            if let SessionMode::Case { fab_idx, cat_ids } = s.get_session_mode() {
                v.push(SessSum {
                    fab_idx: fab_idx.get(),
                    peer: s.get_peer_node_id(),
                    cats: *cat_ids,
                    enc: s.get_enc_key().map(|k| hex(k.access())).unwrap_or_default(),
                    dec: s.get_dec_key().map(|k| hex(k.access())).unwrap_or_default(),
                    reserved: res,
                    sids: (s.get_local_sess_id(), s.get_peer_sess_id()),
                });
            }
        }
        (v, reserved)
    })
}

pub fn sc_opcode(d: &[u8]) -> Option<(u8, usize)> {
    let p = parse_plain(d)?;
    if p.sess_id != 0 {
        return None;
    }
    let pr = parse_proto(d, &p)?;
    if pr.proto_id != 0 {
        return None;
    }
    Some((pr.opcode, pr.payload))
}

pub fn matches(t: &Target, d: &Dgram, seen: &mut Vec<(usize, u8, u32)>) -> Option<usize> {
    // count first transmissions only (distinct counters) per (from, opcode)
    let (op, _) = sc_opcode(&d.bytes)?;
    let ctr = parse_plain(&d.bytes)?.ctr;
    let key = (d.from, op, ctr);
    let nth = if let Some(pos) = seen.iter().filter(|k| k.0 == d.from && k.1 == op).position(|k| *k == key) {
        pos
    } else {
        seen.push(key);
        seen.iter().filter(|k| k.0 == d.from && k.1 == op).count() - 1
    };
    let _ = t;
    Some(nth)
}

/// Apply a mutation to the datagram bytes; `other` is the corresponding datagram of another honest run.
pub fn mutate(bytes: &[u8], m: &Mutn, other: Option<&[u8]>) -> Option<Vec<u8>> {
    let (_, pay) = sc_opcode(bytes)?;
    let fields = top_fields(&bytes[pay..]);
    let field = |tag: u8| fields.iter().find(|f| f.0 == tag).map(|f| (pay + f.1, pay + f.2, pay + f.3));
    match m {
        Mutn::FlipByte(off) => {
            let mut v = bytes.to_vec();
            *v.get_mut(*off)? ^= 1;
            Some(v)
        }
        Mutn::FlipBit(off, bit) => {
            let mut v = bytes.to_vec();
            *v.get_mut(*off)? ^= 1 << bit;
            Some(v)
        }
        Mutn::FlipFirst(tag) => {
            let (_, e, vs) = field(*tag)?;
            if vs >= e {
                return None;
            }
            let mut v = bytes.to_vec();
            v[vs] ^= 1;
            Some(v)
        }
        Mutn::FlipLast(tag) => {
            let (_, e, vs) = field(*tag)?;
            if vs >= e {
                return None;
            }
            let mut v = bytes.to_vec();
            v[e - 1] ^= 1;
            Some(v)
        }
        Mutn::Delete(tag) => {
            let (s, e, _) = field(*tag)?;
            let mut v = bytes[..s].to_vec();
            v.extend_from_slice(&bytes[e..]);
            Some(v)
        }
        Mutn::TruncateAt(tag) => {
            let (s, _, _) = field(*tag)?;
            Some(bytes[..s].to_vec())
        }
        Mutn::Transplant(tag) => {
            let o = other?;
            let (_, opay) = sc_opcode(o)?;
            let of = top_fields(&o[opay..]);
            let (os, oe) = of.iter().find(|f| f.0 == *tag).map(|f| (opay + f.1, opay + f.2))?;
            let (s, e, _) = field(*tag)?;
            if o[os..oe] == bytes[s..e] {
                return None; // identical in both handshakes: nothing to transplant
            }
            let mut v = bytes[..s].to_vec();
            v.extend_from_slice(&o[os..oe]);
            v.extend_from_slice(&bytes[e..]);
            Some(v)
        }
        Mutn::ReplaceValue(tag, val) => {
            let (_, e, vs) = field(*tag)?;
            if e - vs != val.len() || bytes[vs..e] == val[..] {
                return None;
            }
            let mut v = bytes.to_vec();
            v[vs..e].copy_from_slice(val);
            Some(v)
        }
        Mutn::Stale => {
            let o = other?;
            if o == bytes {
                None
            } else {
                Some(o.to_vec())
            }
        }
        _ => None,
    }
}

fn run(spec: &RunSpec, other_wire: Option<&[Dgram]>) -> Result<Summary, String> {
    let mut w = build(spec)?;
    w.exec.run()?;
    let mut seen: Vec<(usize, u8, u32)> = Vec::new();
    let mut applied = false;
    let mut extra_applied = false;
    let mut quiet: Option<u64> = None;
    let mut storm = false;
    loop {
        let now = vclock::now();
        if now > START_US + 400_000_000 {
            break;
        }
        if w.net.0.borrow().log.len() > 400 {
            storm = true;
            break;
        }
        let done = w.obs.borrow().1;
        if done && w.net.inflight_len() == 0 {
            // long enough for every exchange / handshake time-out of the responder to expire
            let q = *quiet.get_or_insert(now);
            if now >= q + 100_000_000 {
                break;
            }
        } else if !done {
            quiet = None;
        }
        if w.net.inflight_len() > 0 {
            vclock::advance_by_ms(1);
            let d = w.net.0.borrow().inflight[0].clone();
            let nth = matches(&Target { from: 0, opcode: 0, nth: 0 }, &d, &mut seen);
            let op = sc_opcode(&d.bytes).map(|x| x.0);
            let mut handled = false;
            if let (Some(nth), Some(op)) = (nth, op) {
                // is this datagram a first transmission (not a retransmission already seen going out)?
                let first_tx = w.net.0.borrow().log.iter().filter(|x| x.from == d.from && x.bytes == d.bytes && x.id < d.id).count() == 0;
                if first_tx {
                    if let Some((t, m)) = &spec.target {
                        if !applied && t.from == d.from && t.opcode == op && t.nth == nth {
                            applied = true;
                            match m {
                                Mutn::None => {}
                                Mutn::Drop => {
                                    w.net.drop_dgram(0);
                                    handled = true;
                                }
                                Mutn::Dup => {
                                    w.net.deliver(0, true);
                                    handled = true;
                                }
                                other_m => {
                                    let other = other_wire.and_then(|ow| nth_of(ow, d.from, op, nth));
                                    match mutate(&d.bytes, other_m, other.map(|x| x.bytes.as_slice())) {
                                        Some(nb) => {
                                            w.net.0.borrow_mut().inflight[0].bytes = nb;
                                        }
                                        None => {
                                            // not applicable to this datagram: report as such
                                            return Err("mutation-not-applicable".into());
                                        }
                                    }
                                }
                            }
                        }
                    }
                    if !handled {
                        if let Some(t) = &spec.extra_drop {
                            if !extra_applied && t.from == d.from && t.opcode == op && t.nth == nth {
                                extra_applied = true;
                                w.net.drop_dgram(0);
                                handled = true;
                            }
                        }
                    }
                }
            }
            if !handled {
                w.net.deliver(0, false);
            }
        } else if let Some(t) = vclock::next_deadline() {
            vclock::advance_to(t);
        } else {
            break;
        }
        w.exec.run()?;
    }
    let (i_sessions, i_res) = sessions_of(w.i.get());
    let (r_sessions, r_res) = sessions_of(w.r.get());
    let obs = w.obs.borrow();
    let wire = w.net.0.borrow().log.clone();
    Ok(Summary { i_sessions, r_sessions, i_reserved_left: i_res, r_reserved_left: r_res, results: obs.0.clone(), client_done: obs.1, wire, applied, storm })
}

pub fn nth_of(wire: &[Dgram], from: usize, op: u8, nth: usize) -> Option<&Dgram> {
    let mut seen: Vec<u32> = Vec::new();
    for d in wire {
        if d.from != from {
            continue;
        }
        if sc_opcode(&d.bytes).map(|x| x.0) != Some(op) {
            continue;
        }
        let ctr = parse_plain(&d.bytes)?.ctr;
        if !seen.contains(&ctr) {
            seen.push(ctr);
            if seen.len() - 1 == nth {
                return Some(d);
            }
        }
    }
    None
}

/// Expected identity of the sessions in the untouched run.
fn identity(s: &SessSum) -> (u8, Option<u64>, [u32; 3]) {
    (s.fab_idx, s.peer, s.cats)
}

fn judge(spec: &RunSpec, honest: Option<&Summary>, s: &Summary) -> Vec<(String, String)> {
    let mut v = Vec::new();
    let tag = match &spec.target {
        None => "untouched".to_string(),
        Some((t, m)) => format!("op{:02x}:{}", t.opcode, match m {
            Mutn::FlipByte(_) => "header-bit".to_string(),
            Mutn::FlipBit(..) => "single-bit".to_string(),
            Mutn::FlipFirst(_) | Mutn::FlipLast(_) => "field-bitflip".to_string(),
            Mutn::Delete(_) => "field-deleted".to_string(),
            Mutn::TruncateAt(_) => "truncated".to_string(),
            Mutn::Transplant(_) => "field-transplanted".to_string(),
            Mutn::ReplaceValue(..) => "field-replaced".to_string(),
            other => format!("{:?}", other).to_lowercase(),
        }),
    };
    let live = |v: &Vec<SessSum>| v.iter().filter(|s| !s.reserved).cloned().collect::<Vec<_>>();
    let (is, rs) = (live(&s.i_sessions), live(&s.r_sessions));
    if s.storm {
        v.push((format!("C01:{:?}:datagram-storm:{}", spec.cred, tag), format!("more than 400 datagrams exchanged; last ones: {:?}", s.wire.iter().rev().take(6).map(|d| (d.from, d.bytes.len(), sc_opcode(&d.bytes).map(|x| x.0))).collect::<Vec<_>>())));
        return v;
    }
    if !s.client_done {
        v.push((format!("C01:{:?}:initiator-hangs:{}", spec.cred, tag), format!("CaseInitiator::perform did not return within 400 s; results {:?}", s.results)));
    }
    if s.i_reserved_left + s.r_reserved_left > 0 {
        v.push((format!("C01:{:?}:reserved-session-slot-leaked:{}", spec.cred, tag), format!("reserved slots left: initiator {}, responder {}", s.i_reserved_left, s.r_reserved_left)));
    }
    if !spec.cred.acceptable() {
        // a chain / key that is invalid in one respect must never yield a session at either end
        if !is.is_empty() || !rs.is_empty() {
            v.push((
                format!("C01:{:?}:session-established-with-invalid-credentials", spec.cred),
                format!("initiator sessions {:?}, responder sessions {:?}, results {:?}", is.iter().map(identity).collect::<Vec<_>>(), rs.iter().map(identity).collect::<Vec<_>>(), s.results),
            ));
        }
        if s.results.iter().any(|r| r.is_ok()) {
            v.push((format!("C01:{:?}:handshake-reported-success-with-invalid-credentials", spec.cred), format!("{:?}", s.results)));
        }
        return v;
    }
    // acceptable credentials
    let exp_r_fab = if spec.cred == CredCfg::TwoFabricsAddrSecond { 2 } else { 1 };
    let exp_cats: [u32; 3] = if spec.cred == CredCfg::ValidCats { [0xABCD_0002, 0x1234_0001, 0xFFFF_FFFF] } else { [0; 3] };
    for x in &rs {
        if x.peer != Some(I_NODE) || x.fab_idx != exp_r_fab || x.cats != exp_cats {
            v.push((format!("C01:{:?}:responder-session-bound-to-wrong-identity:{}", spec.cred, tag), format!("{:?}, expected fabric {} peer {:#x} cats {:x?}", identity(x), exp_r_fab, I_NODE, exp_cats)));
        }
    }
    for x in &is {
        if x.peer != Some(R_NODE) || x.fab_idx != 1 {
            v.push((format!("C01:{:?}:initiator-session-bound-to-wrong-identity:{}", spec.cred, tag), format!("{:?}", identity(x))));
        }
    }
    if spec.target.is_none() && spec.extra_drop.is_none() {
        // the untouched run establishes exactly one session per handshake at each end, with matching keys
        if is.len() != spec.handshakes || rs.len() != spec.handshakes || s.results.iter().any(|r| r.is_err()) {
            v.push((format!("C01:{:?}:untouched-handshake-fails", spec.cred), format!("sessions I {} R {}, results {:?}", is.len(), rs.len(), s.results)));
        }
    }
    if let Some(h) = honest {
        if is.len() > live(&h.i_sessions).len() || rs.len() > live(&h.r_sessions).len() {
            v.push((format!("C01:{:?}:more-sessions-than-untouched-run:{}", spec.cred, tag), format!("I {} R {}", is.len(), rs.len())));
        }
    }
    // whenever both ends hold a session they hold the same directional keys: pair them up
    for x in &is {
        // the two halves of one session name each other's session ids; keys alone would not pair
        // up two halves that agree on nothing
        let partner = rs.iter().find(|y| (y.sids.0, y.sids.1) == (x.sids.1, x.sids.0)).or_else(|| rs.iter().find(|y| y.dec == x.enc || y.enc == x.dec));
        match partner {
            Some(y) => {
                if y.dec != x.enc || y.enc != x.dec {
                    v.push((format!("C01:{:?}:directional-keys-differ:{}", spec.cred, tag), format!("I enc {} dec {} / R enc {} dec {}", x.enc, x.dec, y.enc, y.dec)));
                }
            }
            None => {
                // a session held by one end only is what the property allows (the message that would
                // have completed the other end was lost or damaged)
            }
        }
    }
    v
}

pub fn mutation_catalog_of(wire: &[Dgram], every_bit: bool) -> Vec<(Target, Mutn)> {
    mutation_catalog(&Summary { wire: wire.to_vec(), ..Default::default() }, every_bit)
}

fn mutation_catalog(honest: &Summary, every_bit: bool) -> Vec<(Target, Mutn)> {
    let mut out = Vec::new();
    let mut seen: Vec<(usize, u8, u32)> = Vec::new();
    for d in &honest.wire {
        let Some((op, pay)) = sc_opcode(&d.bytes) else { continue };
        let ctr = parse_plain(&d.bytes).unwrap().ctr;
        if seen.contains(&(d.from, op, ctr)) {
            continue;
        }
        let nth = seen.iter().filter(|k| k.0 == d.from && k.1 == op).count();
        seen.push((d.from, op, ctr));
        let t = Target { from: d.from, opcode: op, nth };
        out.push((t.clone(), Mutn::Drop));
        out.push((t.clone(), Mutn::Dup));
        if op == 0x10 {
            continue; // standalone acks: loss / duplication only
        }
        out.push((t.clone(), Mutn::Stale));
        if every_bit {
            for off in 0..d.bytes.len() {
                for bit in 0..8u8 {
                    out.push((t.clone(), Mutn::FlipBit(off, bit)));
                }
            }
        } else {
            // the framing bytes no field move touches: start and end of the payload's root structure
            for off in [pay, d.bytes.len() - 1] {
                for bit in [0u8, 7] {
                    out.push((t.clone(), Mutn::FlipBit(off, bit)));
                }
            }
        }
        // header: message counter, exchange flags, opcode, exchange id
        let p = parse_plain(&d.bytes).unwrap();
        for off in [4usize, p.end, p.end + 1, p.end + 2] {
            out.push((t.clone(), Mutn::FlipByte(off)));
        }
        let fields = top_fields(&d.bytes[pay..]);
        if fields.is_empty() {
            // not TLV (status report): flip each payload byte's low bit, truncate
            for off in pay..d.bytes.len().min(pay + 8) {
                out.push((t.clone(), Mutn::FlipByte(off)));
            }
        }
        for f in fields {
            for m in [Mutn::FlipFirst(f.0), Mutn::FlipLast(f.0), Mutn::Delete(f.0), Mutn::TruncateAt(f.0), Mutn::Transplant(f.0)] {
                out.push((t.clone(), m));
            }
        }
    }
    out
}

fn spec_json(s: &RunSpec) -> Value {
    json!({"cred": format!("{:?}", s.cred), "handshakes": s.handshakes, "seed": s.seed,
        "target": s.target.as_ref().map(|(t, m)| json!({"from": t.from, "opcode": t.opcode, "nth": t.nth, "mutation": format!("{:?}", m)})),
        "extra_drop": s.extra_drop.as_ref().map(|t| json!({"from": t.from, "opcode": t.opcode, "nth": t.nth}))})
}

fn all_creds() -> Vec<CredCfg> {
    vec![
        CredCfg::Valid,
        CredCfg::ValidIcac,
        CredCfg::ValidCats,
        CredCfg::TwoFabricsAddrSecond,
        CredCfg::InitiatorLookalikeSigner,
        CredCfg::InitiatorWrongOpKey,
        CredCfg::InitiatorExpired,
        CredCfg::InitiatorNotYetValid,
        CredCfg::ResponderLookalikeSigner,
        CredCfg::ResponderWrongOpKey,
        CredCfg::ResponderExpired,
        CredCfg::DifferentRoots,
    ]
}

pub fn parse_mutn(s: &str) -> Mutn {
    let num = |s: &str| s.trim_end_matches(')').split('(').nth(1).and_then(|x| x.parse::<usize>().ok()).unwrap_or(0);
    if s.starts_with("FlipBit") {
        let inner = s.trim_start_matches("FlipBit(").trim_end_matches(')');
        let mut it = inner.split(',').map(|x| x.trim().parse::<usize>().unwrap_or(0));
        Mutn::FlipBit(it.next().unwrap_or(0), it.next().unwrap_or(0) as u8)
    } else if s.starts_with("ReplaceValue") {
        let inner = s.trim_start_matches("ReplaceValue(").trim_end_matches(')');
        let (tag, rest) = inner.split_once(',').unwrap_or(("0", "[]"));
        let bytes: Vec<u8> = rest.trim().trim_start_matches('[').trim_end_matches(']').split(',').filter_map(|x| x.trim().parse::<u8>().ok()).collect();
        Mutn::ReplaceValue(tag.trim().parse().unwrap_or(0), bytes)
    } else if s.starts_with("FlipByte") {
        Mutn::FlipByte(num(s))
    } else if s.starts_with("FlipFirst") {
        Mutn::FlipFirst(num(s) as u8)
    } else if s.starts_with("FlipLast") {
        Mutn::FlipLast(num(s) as u8)
    } else if s.starts_with("Delete") {
        Mutn::Delete(num(s) as u8)
    } else if s.starts_with("TruncateAt") {
        Mutn::TruncateAt(num(s) as u8)
    } else if s.starts_with("Transplant") {
        Mutn::Transplant(num(s) as u8)
    } else {
        match s {
            "Drop" => Mutn::Drop,
            "Dup" => Mutn::Dup,
            "Stale" => Mutn::Stale,
            _ => Mutn::None,
        }
    }
}

fn replay(ctx: &Ctx, path: &std::path::Path) -> i32 {
    let doc: Value = serde_json::from_str(&std::fs::read_to_string(path).expect("replay file")).expect("json");
    let r = &doc["replay"];
    if !r["reissued"].is_null() {
        let mut report = Report::new();
        match super::c01r::replay(r) {
            Err(e) => {
                eprintln!("MACHINERY: {}", e);
                return 2;
            }
            Ok(v) => {
                for (sig, what) in v {
                    println!("  {} {}", sig, what);
                    report.violation(sig, what, r.clone());
                }
            }
        }
        return common::finish(ctx, report, Evidence::new("model_checking"));
    }
    if !r["certificate_catalog"].is_null() {
        let mut report = Report::new();
        match super::c19::replay_label(&r["certificate_catalog"]) {
            Err(e) => {
                eprintln!("MACHINERY: {}", e);
                return 2;
            }
            Ok(v) => {
                for (sig, what) in v {
                    println!("  {} {}", sig, what);
                    report.violation(sig.replacen("C19:", "C01:certificate-catalog:", 1), what, r.clone());
                }
            }
        }
        return common::finish(ctx, report, Evidence::new("model_checking"));
    }
    let cred = all_creds().into_iter().find(|c| format!("{:?}", c) == r["cred"].as_str().unwrap_or("")).unwrap_or(CredCfg::Valid);
    let tgt = |v: &Value| Target { from: v["from"].as_u64().unwrap() as usize, opcode: v["opcode"].as_u64().unwrap() as u8, nth: v["nth"].as_u64().unwrap() as usize };
    let spec = RunSpec {
        cred,
        handshakes: r["handshakes"].as_u64().unwrap_or(1) as usize,
        seed: r["seed"].as_u64().unwrap_or(100),
        target: if r["target"].is_null() { None } else { Some((tgt(&r["target"]), parse_mutn(r["target"]["mutation"].as_str().unwrap_or("")))) },
        extra_drop: if r["extra_drop"].is_null() { None } else { Some(tgt(&r["extra_drop"])) },
    };
    std::env::set_var("MC_SHOW_PANICS", "1");
    let honest = run(&RunSpec { target: None, extra_drop: None, ..spec.clone() }, None).ok();
    let other = run(&RunSpec { target: None, extra_drop: None, seed: spec.seed + 1000, ..spec.clone() }, None).ok();
    let mut report = Report::new();
    match run(&spec, other.as_ref().map(|o| o.wire.as_slice())) {
        Err(e) => println!("run: {}", e),
        Ok(s) => {
            for d in &s.wire {
                println!("  t={:>9}us {}->{} len {:>4} {}", d.sent_at_us - START_US, d.from, d.to, d.bytes.len(), sc_opcode(&d.bytes).map(|x| format!("SC opcode {:02x}", x.0)).unwrap_or_else(|| "secured".into()));
            }
            println!("results {:?}\nI sessions {:?}\nR sessions {:?}", s.results, s.i_sessions, s.r_sessions);
            for (sig, what) in judge(&spec, honest.as_ref(), &s) {
                println!("  {} {}", sig, what);
                report.violation(sig, what, r.clone());
            }
        }
    }
    common::finish(ctx, report, Evidence::new("model_checking"))
}

pub fn run_check(ctx: &Ctx) -> i32 {
    if let Some(p) = &ctx.replay {
        return replay(ctx, p);
    }
    let quick = ctx.tier == Tier::Quick;
    let mut report = Report::new();
    let mut specs: Vec<(RunSpec, usize)> = Vec::new(); // (spec, honest index)
    let mut honest_runs: Vec<(RunSpec, Summary, Summary)> = Vec::new();
    let seed = 100 + ctx.seed;
    // untouched runs for every credential configuration, with and without a resumption handshake
    for cred in all_creds() {
        for handshakes in [1usize, 2] {
            if !cred.acceptable() && handshakes == 2 {
                continue;
            }
            let spec = RunSpec { cred, handshakes, target: None, extra_drop: None, seed };
            let h = common::catch(|| run(&spec, None));
            let h = match h {
                Err(p) => {
                    report.violation(format!("C01:{:?}:panic:{}", cred, p.class()), p.to_string(), spec_json(&spec));
                    continue;
                }
                Ok(Err(e)) => {
                    eprintln!("MACHINERY: untouched run {:?}: {}", spec, e);
                    return 2;
                }
                Ok(Ok(h)) => h,
            };
            for (sig, what) in judge(&spec, None, &h) {
                report.violation(sig, format!("{:?}: {}", spec, what), spec_json(&spec));
            }
            let other = run(&RunSpec { seed: seed + 1000, ..spec.clone() }, None).unwrap_or_default();
            if std::env::var_os("MC_TRACE").is_some() {
                eprintln!("honest {:?} x{} done at {:.1}s", cred, handshakes, ctx.start.elapsed().as_secs_f64());
            }
            honest_runs.push((spec, h, other));
        }
    }
    // single attacker moves on the acceptable configurations
    for (hi, (spec, h, _)) in honest_runs.iter().enumerate() {
        if !spec.cred.acceptable() {
            continue;
        }
        if quick && !(spec.cred == CredCfg::ValidCats || (spec.cred == CredCfg::Valid && spec.handshakes == 2)) {
            continue;
        }
        let cat = mutation_catalog(h, !quick && matches!(spec.cred, CredCfg::Valid | CredCfg::ValidIcac));
        for (t, m) in &cat {
            specs.push((RunSpec { target: Some((t.clone(), m.clone())), ..spec.clone() }, hi));
        }
        if !quick && spec.cred == CredCfg::Valid {
            // each attacker move crossed with one extra loss of another handshake datagram
            let drops: Vec<Target> = cat.iter().filter(|(_, m)| *m == Mutn::Drop).map(|(t, _)| t.clone()).collect();
            for (t, m) in &cat {
                if matches!(m, Mutn::Drop | Mutn::Dup | Mutn::FlipBit(..)) {
                    continue;
                }
                for d in &drops {
                    if d != t {
                        specs.push((RunSpec { target: Some((t.clone(), m.clone())), extra_drop: Some(d.clone()), ..spec.clone() }, hi));
                    }
                }
            }
        }
    }
    let results: Vec<(usize, Result<Result<Summary, String>, common::Panic>)> = specs
        .par_iter()
        .enumerate()
        .map(|(k, (spec, hi))| {
            let t = std::time::Instant::now();
            if std::env::var("MC_TRACE").ok().as_deref() == Some("2") {
                eprintln!("start {} {}", k, spec_json(spec));
            }
            let r = common::catch(|| run(spec, Some(honest_runs[*hi].2.wire.as_slice())));
            if std::env::var("MC_TRACE").ok().as_deref() == Some("2") {
                eprintln!("end {} {:.2}", k, t.elapsed().as_secs_f64());
            }
            if t.elapsed().as_secs_f64() > 0.3 && std::env::var_os("MC_TRACE").is_some() {
                eprintln!("slow run {:.1}s: {}", t.elapsed().as_secs_f64(), spec_json(spec));
            }
            (k, r)
        })
        .collect();
    let mut executed = 0u64;
    let mut not_applicable = 0u64;
    let mut outcomes = std::collections::BTreeSet::new();
    let mut both = 0u64;
    let mut none = 0u64;
    let mut one_side = 0u64;
    for (k, r) in results {
        let (spec, hi) = &specs[k];
        match r {
            Err(p) => report.violation(format!("C01:{:?}:panic:{}", spec.cred, p.class()), format!("{:?}: {}", spec, p), spec_json(spec)),
            Ok(Err(e)) if e == "mutation-not-applicable" => not_applicable += 1,
            Ok(Err(e)) => {
                eprintln!("MACHINERY: {:?}: {}", spec, e);
                return 2;
            }
            Ok(Ok(s)) => {
                executed += 1;
                let (ni, nr) = (s.i_sessions.iter().filter(|x| !x.reserved).count(), s.r_sessions.iter().filter(|x| !x.reserved).count());
                if ni > 0 && nr > 0 && ni == nr {
                    both += 1;
                } else if ni == 0 && nr == 0 {
                    none += 1;
                } else {
                    one_side += 1;
                }
                outcomes.insert((ni, nr, s.results.clone()));
                for (sig, what) in judge(spec, Some(&honest_runs[*hi].1), &s) {
                    report.violation(sig, format!("{}: {}", spec_json(spec), what), spec_json(spec));
                }
            }
        }
    }
    // the per-field certificate defect catalog (C19's) presented through the real handshake, by
    // either side: a session may only come out of the defect-free chains
    let (cat_violations, cat_runs, cat_sessions) = match super::c19::case_catalog(ctx.tier) {
        Ok(r) => r,
        Err(e) => {
            eprintln!("MACHINERY: certificate catalog: {}", e);
            return 2;
        }
    };
    for (sig, what, label) in cat_violations {
        report.violation(sig.replacen("C19:", "C01:certificate-catalog:", 1), what, json!({"certificate_catalog": label}));
    }
    // re-issued credentials: sequences of full / resumed handshakes by two instances of one node id
    let (re_violations, re_handshakes, re_judged, re_resumed) = match super::c01r::sweep(ctx.tier, ctx.seed) {
        Ok(r) => r,
        Err(e) => {
            eprintln!("MACHINERY: re-issued credentials: {}", e);
            return 2;
        }
    };
    for (sig, what, label) in re_violations {
        report.violation(sig, what, label);
    }
    if report.violations.is_empty() && (re_resumed == 0 || re_judged < re_handshakes) {
        eprintln!("MACHINERY: vacuous re-issued-credentials sweep ({} handshakes, {} judged, {} resumptions)", re_handshakes, re_judged, re_resumed);
        return 2;
    }
    let sample = specs.get(specs.len() / 2).map(|(s, _)| spec_json(s));
    let mut ev = Evidence::new("model_checking");
    ev.set("states", json!(outcomes.len() + honest_runs.len()))
        .set("transitions", json!(executed + honest_runs.len() as u64 * 2))
        .set("traces_validated_against_impl", json!(executed + honest_runs.len() as u64 * 2))
        .set("exhaustive", json!(true))
        .set("samples", json!([sample, {"untouched": spec_json(&honest_runs[0].0)}]))
        .set("reissued_credentials", json!({"handshakes": re_handshakes, "sessions_judged_at_both_ends": re_judged, "of_which_resumptions": re_resumed, "rule": "two instances of one node id with certificates carrying different CASE authenticated tags (either the initiator or the responder is the re-issued one), 6 ordered pairs of tag sets, every sequence of 2..n handshakes over the two instances (n = 3 quick, 5 thorough); after every handshake the new session at each end carries the peer's node id and exactly the tags of the peer instance's certificate, equal keys"}))
        .set("certificate_catalog_handshakes", json!(cat_runs))
        .set("certificate_catalog_handshakes_ending_in_a_session", json!(cat_sessions))
        .set("vacuity", json!({"credential_configurations": honest_runs.len(), "attacker_runs": executed, "mutations_not_applicable": not_applicable, "runs_ending_with_sessions_at_both_ends": both, "runs_ending_with_no_session": none, "runs_ending_with_a_session_at_one_end_only": one_side, "distinct_end_states": outcomes.len()}))
        .set("rule", json!("every credential configuration of the catalog untouched (full handshake, and full + resumption handshake for the acceptable ones); for the acceptable ones every single attacker move (per TLV field: flip first bit / flip last bit / delete / truncate-at / transplant from another honest handshake; header bit flips of counter, exchange flags, opcode, exchange id; drop; duplicate; replay of the stale datagram of another handshake) on every first transmission of every handshake datagram incl. acks and the final status; thorough: additionally crossed with the loss of any one other handshake datagram. 'states' = distinct (sessions at I, sessions at R, results) end states"));
    ev.assume("cryptographic hardness (forging a signature / MAC, colliding a hash) is assumed, not enumerated");
    ev.assume("invalid credentials: those expressible with the repo's public certificate generators (look-alike signer, wrong operational key, validity window, different root) crossed with the attacker moves, plus the single-defect certificate catalog of C19 (harness-side certificate writer) presented untouched by either side");
    ev.assume("a session held by the initiator only is reported as a violation; a session held by the responder only (final status lost or damaged) is what the property allows");
    if report.violations.is_empty() && (executed == 0 || both == 0 || none == 0) {
        eprintln!("MACHINERY: vacuous C01 run (executed {}, both {}, none {})", executed, both, none);
        return 2;
    }
    common::finish(ctx, report, ev)
}
