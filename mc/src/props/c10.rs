//! C10 — a message reaches only its own exchange, and the receive path never wedges.
//!
//! E1 (stateless deviation-bounded DFS) on two real nodes with two pre-established secure
//! sessions. The client opens several concurrent exchanges (on one session and on two), each
//! carrying a tagged message; the device runs a responder pool of two handlers whose behaviour
//! is selected per message: answer promptly, answer late (after the client gave up, so the answer
//! hits an unknown exchange), accept and never answer, drop the exchange before / after
//! receiving. More exchanges than handlers make some messages wait for the accept deadline.
//! At every quiescent point the explorer may drop / duplicate / reorder datagrams or let a timer
//! fire first. Oracle: every reply a client exchange receives carries that exchange's tag; every
//! handler sees only the message of the exchange it accepted, once; after the horizon no
//! exchange slot is occupied at either node; and a fresh probe request is answered (the receive
//! path is not wedged).

use std::cell::RefCell;
use std::rc::Rc;

use core::num::NonZeroU8;

use embassy_futures::join::join4;
use embassy_futures::select::{select, Either};
use embassy_time::{Duration, Timer};
use serde_json::{json, Value};

use rs_matter::error::Error;
use rs_matter::respond::{ExchangeHandler, Responder};
use rs_matter::transport::exchange::{Exchange, MessageMeta};
use rs_matter::transport::network::NoNetwork;
use rs_matter::Matter;

use crate::common::e1::{self, Outcome};
use crate::common::nodes::{self, SessKind, NODE_A, NODE_B};
use crate::common::rng::SeededRng;
use crate::common::sim::{addr_of, Exec, Net, Owned};
use crate::common::{self, vclock, Ctx, Evidence, Report, Tier};

const PROTO: u16 = 0x7777;
const START_US: u64 = 15_000_000_000;

#[derive(Clone, Copy, Debug, PartialEq, Eq, Hash)]
enum Beh {
    Prompt,
    /// answer after 12 s: the client has given up after 10 s and dropped its exchange
    Late,
    /// accept, read, then hold the exchange for 40 s without answering
    Never,
    DropBeforeRecv,
    DropAfterRecv,
    /// keep receiving on the exchange until 3 s pass without a message, then answer the first one
    Hold,
}

impl Beh {
    fn code(&self) -> u8 {
        match self {
            Beh::Prompt => 1,
            Beh::Late => 2,
            Beh::Never => 3,
            Beh::DropBeforeRecv => 4,
            Beh::DropAfterRecv => 5,
            Beh::Hold => 6,
        }
    }
    fn from(c: u8) -> Beh {
        match c {
            2 => Beh::Late,
            3 => Beh::Never,
            4 => Beh::DropBeforeRecv,
            5 => Beh::DropAfterRecv,
            6 => Beh::Hold,
            _ => Beh::Prompt,
        }
    }
}

#[derive(Clone, Debug)]
struct Cfg {
    /// per client exchange: (behaviour requested from the device, use the second session)
    exchanges: Vec<(Beh, bool)>,
    /// the last exchange's opening message does not ask for an acknowledgement
    unreliable_last: bool,
}

#[derive(Default, Debug)]
struct Obs {
    /// per client exchange: outcome ("reply:<tag>", "timeout", "err:<code>")
    client: Vec<Option<String>>,
    /// messages seen by device handlers: (handler invocation id, tag)
    handled: Vec<(usize, u8)>,
    invocations: usize,
    /// probe on the first (CASE) session and on the second (PASE) session
    probe: [Option<String>; 2],
    /// a new exchange opened on the first session right after that session was lost / expired at the
    /// device, while its other exchanges are still in flight
    early_probe: Option<String>,
    all_done: bool,
}

struct Handler {
    obs: Rc<RefCell<Obs>>,
}

fn reply_meta(tag: u8) -> MessageMeta {
    // answers to forged traffic (tags >= 0x40) are unreliable: the forging peer has no stack to acknowledge them
    MessageMeta::new(PROTO, 2, tag < 0x40 || tag == 0x77 || tag == 0x78)
}

impl ExchangeHandler for Handler {
    async fn handle(&self, mut exchange: Exchange<'_>) -> Result<(), Error> {
        let inv = {
            let mut o = self.obs.borrow_mut();
            o.invocations += 1;
            o.invocations
        };
        // the behaviour is encoded in the message; peek it without consuming
        exchange.recv_fetch().await?;
        let (tag, beh) = {
            let rx = exchange.rx()?;
            let p = rx.payload();
            (p.first().copied().unwrap_or(0xff), Beh::from(p.get(1).copied().unwrap_or(1)))
        };
        if beh == Beh::DropBeforeRecv {
            return Ok(());
        }
        exchange.rx_done()?;
        self.obs.borrow_mut().handled.push((inv, tag));
        match beh {
            Beh::Prompt => exchange.send(reply_meta(tag), &[tag, 0xEE]).await,
            Beh::Late => {
                Timer::after(Duration::from_secs(12)).await;
                exchange.send(reply_meta(tag), &[tag, 0xEE]).await
            }
            Beh::Never => {
                Timer::after(Duration::from_secs(40)).await;
                Ok(())
            }
            Beh::Hold => {
                loop {
                    let more = {
                        let mut recv = core::pin::pin!(exchange.recv());
                        let mut timeout = core::pin::pin!(Timer::after(Duration::from_secs(3)));
                        match select(&mut recv, &mut timeout).await {
                            Either::First(rx) => Some(rx?.payload().first().copied().unwrap_or(0xff)),
                            Either::Second(_) => None,
                        }
                    };
                    match more {
                        Some(t) => self.obs.borrow_mut().handled.push((inv, t)),
                        None => break,
                    }
                }
                exchange.send(reply_meta(tag), &[tag, 0xEE]).await
            }
            _ => Ok(()),
        }
    }
}

struct World {
    exec: Exec,
    a_task: usize,
    early: Rc<std::cell::Cell<bool>>,
    net: Net,
    obs: Rc<RefCell<Obs>>,
    _h: Owned<Handler>,
    a: Owned<Matter<'static>>,
    b: Owned<Matter<'static>>,
}

const NODE_X: u64 = 0x0000_0000_0000_C003;
const PASSCODE: u32 = 20202021;

async fn one_exchange(ma: &'static Matter<'static>, seed: u64, second: bool, tag: u8, beh: Beh) -> String {
    one_exchange_rel(ma, seed, second, tag, beh, true).await
}

async fn one_exchange_rel(ma: &'static Matter<'static>, seed: u64, second: bool, tag: u8, beh: Beh, reliable: bool) -> String {
    let c = nodes::crypto(SeededRng::new(seed));
    let r: Result<String, Error> = async {
        let mut ex = if second { Exchange::initiate_pase(ma, &c, addr_of(1), PASSCODE).await? } else { Exchange::initiate(ma, &c, NonZeroU8::new(1).unwrap(), NODE_B).await? };
        ex.send(MessageMeta::new(PROTO, 1, reliable), &[tag, beh.code(), 0xAA]).await?;
        let out = {
            let mut recv = core::pin::pin!(ex.recv());
            let mut timeout = core::pin::pin!(Timer::after(Duration::from_secs(10)));
            let r = select(&mut recv, &mut timeout).await;
            match r {
                Either::First(rx) => match rx {
                    Ok(rx) => Ok(format!("reply:{}", rx.payload().first().copied().unwrap_or(0xff))),
                    Err(e) => Err(e),
                },
                Either::Second(_) => Ok("timeout".to_string()),
            }
        };
        out
    }
    .await;
    match r {
        Ok(s) => s,
        Err(e) => format!("err:{:?}", e.code()),
    }
}

/// Session layout (local id at A / at B): S1 = CASE 1/2, S2 = PASE 3/4, S3 = CASE between the
/// forging peer X (no stack, network node 2) and B: 5/6.
fn build(cfg: &Cfg, start_delay_ms: u64, pool3: bool) -> World {
    vclock::reset(START_US);
    let net = Net::new(3);
    let a = Owned::from_box(nodes::new_matter());
    let b = Owned::from_box(nodes::new_matter());
    let (ma, mb) = (a.get(), b.get());
    nodes::add_fabric(ma);
    nodes::add_fabric(mb);
    let (k1, k2, k3, k4, k5, k6) = (nodes::key(0x11), nodes::key(0x22), nodes::key(0x33), nodes::key(0x44), nodes::key(0x55), nodes::key(0x66));
    nodes::install_session(ma, SeededRng::new(101), SessKind::Case, NODE_A, NODE_B, 1, 2, addr_of(1), &k2, &k1).unwrap();
    nodes::install_session(mb, SeededRng::new(202), SessKind::Case, NODE_B, NODE_A, 2, 1, addr_of(0), &k1, &k2).unwrap();
    nodes::install_session(ma, SeededRng::new(102), SessKind::Pase, NODE_A, NODE_B, 3, 4, addr_of(1), &k4, &k3).unwrap();
    nodes::install_session(mb, SeededRng::new(203), SessKind::Pase, NODE_B, NODE_A, 4, 3, addr_of(0), &k3, &k4).unwrap();
    nodes::install_session(mb, SeededRng::new(205), SessKind::Case, NODE_B, NODE_X, 6, 5, addr_of(2), &k5, &k6).unwrap();
    let obs = Rc::new(RefCell::new(Obs::default()));
    obs.borrow_mut().client = vec![None; cfg.exchanges.len()];
    let h = Owned::new(Handler { obs: obs.clone() });
    let mut exec = Exec::new();
    {
        let (send, recv) = (net.end(1), net.end(1));
        let hh = h.get();
        exec.spawn("B", async move {
            let c = nodes::crypto(SeededRng::new(204));
            let responder = Responder::new("B", hh, mb, 0);
            if pool3 {
                let _ = select(mb.run(&c, send, recv, NoNetwork), responder.run::<4>()).await;
            } else {
                let _ = select(mb.run(&c, send, recv, NoNetwork), responder.run::<2>()).await;
            }
        });
    }
    let early = Rc::new(std::cell::Cell::new(false));
    let a_task = {
        let (send, recv) = (net.end(0), net.end(0));
        let obs2 = obs.clone();
        let exs = cfg.exchanges.clone();
        let unreliable_last = cfg.unreliable_last;
        let n_exchanges = cfg.exchanges.len();
        let early2 = early.clone();
        exec.spawn("A", async move {
            let c = nodes::crypto(SeededRng::new(104));
            let obs4 = obs2.clone();
            let early_probe = async {
                core::future::poll_fn(|_| if early2.get() { core::task::Poll::Ready(()) } else { core::task::Poll::Pending }).await;
                let r = one_exchange(ma, 397, false, 0x79, Beh::Prompt).await;
                obs4.borrow_mut().early_probe = Some(r);
                core::future::pending::<()>().await
            };
            let client = async {
                if start_delay_ms > 0 {
                    Timer::after(Duration::from_millis(start_delay_ms)).await;
                }
                let get = |k: usize| exs.get(k).copied();
                let run_k = |k: usize| {
                    let obs3 = obs2.clone();
                    async move {
                        if let Some((beh, second)) = get(k) {
                            let reliable = !(unreliable_last && k + 1 == n_exchanges);
                            let r = one_exchange_rel(ma, 300 + k as u64, second, k as u8, beh, reliable).await;
                            obs3.borrow_mut().client[k] = Some(r);
                        }
                    }
                };
                join4(run_k(0), run_k(1), run_k(2), run_k(3)).await;
                obs2.borrow_mut().all_done = true;
                // let every device-side time-out (late answers, held exchanges) run out, then probe
                Timer::after(Duration::from_secs(60)).await;
                let r = one_exchange(ma, 399, false, 0x77, Beh::Prompt).await;
                obs2.borrow_mut().probe[0] = Some(r);
                let r = one_exchange(ma, 398, true, 0x78, Beh::Prompt).await;
                obs2.borrow_mut().probe[1] = Some(r);
                core::future::pending::<()>().await
            };
            let _ = embassy_futures::select::select3(ma.run(&c, send, recv, NoNetwork), client, early_probe).await;
        })
    };
    World { exec, a_task, early, net, obs, _h: h, a, b }
}

#[derive(Clone, Copy, Debug, PartialEq, Eq)]
enum Action {
    Deliver(usize),
    Drop(usize),
    Dup(usize),
    Tick,
    /// the first session disappears at this node (what RemoveFabric does to the sessions of a fabric)
    Vanish(usize),
    /// the first session is marked expired at the device (RemoveFabric issued over that very session)
    ExpireAtDevice,
}

fn enabled(w: &World, session_event_used: bool) -> Vec<Action> {
    let n = w.net.inflight_len();
    let timer = vclock::next_deadline().is_some();
    let mut v = Vec::new();
    if n > 0 {
        v.push(Action::Deliver(0));
        v.push(Action::Drop(0));
        v.push(Action::Dup(0));
        if n > 1 {
            v.push(Action::Deliver(1));
        }
        if timer {
            v.push(Action::Tick);
        }
        if !session_event_used {
            v.push(Action::Vanish(1));
            v.push(Action::Vanish(0));
            v.push(Action::ExpireAtDevice);
        }
    } else if timer {
        v.push(Action::Tick);
    }
    v
}

struct RunResult {
    violations: Vec<(String, String)>,
    class: String,
}

type Slot = (u16, u16, bool, bool);

/// (local session id, exchange id, initiator role, dropped) of every occupied exchange slot
fn slots(m: &Matter<'_>) -> Vec<Slot> {
    m.with_state(|s| {
        let mut v = Vec::new();
        for x in s.verif_sessions().iter() {
            for e in x.verif_exchanges().flatten() {
                v.push((x.get_local_sess_id(), e.0, e.1, e.2));
            }
        }
        v.sort();
        v
    })
}

fn session_event(w: &World, act: Action) {
    let fab = NonZeroU8::new(1).unwrap();
    match act {
        Action::Vanish(node) => {
            let m = if node == 0 { w.a.get() } else { w.b.get() };
            m.with_state(|s| s.verif_sessions_mut().remove_for_fabric(fab, None));
        }
        Action::ExpireAtDevice => {
            // unique ids are handed out in installation order: S1 is 0
            w.b.get().with_state(|s| s.verif_sessions_mut().remove_for_fabric(fab, Some(0)));
        }
        _ => {}
    }
}

fn run_one(cfg: &Cfg, prefix: &[usize]) -> Result<Outcome<RunResult>, String> {
    let mut w = build(cfg, 0, false);
    let mut trace = Vec::new();
    w.exec.run()?;
    let mut step = 0usize;
    let mut probe_done_at: Option<u64> = None;
    let mut event: Option<Action> = None;
    loop {
        let now = vclock::now();
        if now > START_US + 400_000_000 {
            break;
        }
        if w.net.0.borrow().log.len() > 3000 {
            break;
        }
        if w.obs.borrow().probe[1].is_some() && w.net.inflight_len() == 0 {
            let t = *probe_done_at.get_or_insert(now);
            if now > t + 5_000_000 {
                break;
            }
        }
        // only the disturbance phase is adversarial (it includes the late answers); the probes run over a FIFO network
        let adversarial = !w.obs.borrow().all_done || now < START_US + 20_000_000;
        let en = enabled(&w, event.is_some() || !adversarial);
        if en.is_empty() {
            break;
        }
        let choice = if en.len() == 1 || !adversarial {
            0
        } else {
            let c = if step < prefix.len() { prefix[step] } else { 0 };
            if c >= en.len() {
                return Err(format!("replay divergence at choice point {}: {} enabled, {} requested", step, en.len(), c));
            }
            trace.push((en.len(), c));
            step += 1;
            c
        };
        match en[choice] {
            Action::Deliver(k) => {
                vclock::advance_by_ms(1);
                w.net.deliver(k, false);
            }
            Action::Drop(k) => {
                w.net.drop_dgram(k);
            }
            Action::Dup(k) => {
                vclock::advance_by_ms(1);
                w.net.deliver(k, true);
            }
            Action::Tick => {
                if let Some(t) = vclock::next_deadline() {
                    vclock::advance_to(t);
                }
            }
            act => {
                session_event(&w, act);
                event = Some(act);
                if matches!(act, Action::ExpireAtDevice | Action::Vanish(1)) {
                    // the client opens one more exchange on that session at once
                    w.early.set(true);
                    w.exec.wake(w.a_task);
                }
            }
        }
        w.exec.run()?;
    }
    if step < prefix.len() {
        return Err(format!("replay divergence: execution ended after {} of {} choices", step, prefix.len()));
    }
    // ---- oracle
    let obs = w.obs.borrow();
    let mut v = Vec::new();
    for (k, r) in obs.client.iter().enumerate() {
        match r {
            Some(s) if s.starts_with("reply:") => {
                let tag: u8 = s[6..].parse().unwrap_or(0xff);
                if tag as usize != k {
                    v.push(("C10:reply-delivered-to-the-wrong-exchange".to_string(), format!("client exchange {} received the reply tagged {}", k, tag)));
                }
                if !matches!(cfg.exchanges[k].0, Beh::Prompt | Beh::Late | Beh::Hold) {
                    v.push(("C10:reply-from-a-handler-that-never-answers".to_string(), format!("client exchange {} ({:?}) got {}", k, cfg.exchanges[k].0, s)));
                }
            }
            None => v.push(("C10:client-exchange-hangs".to_string(), format!("client exchange {} never finished; outcomes {:?}", k, obs.client))),
            _ => {}
        }
    }
    // no message is handled by two exchanges, and handlers see only what was sent
    let mut tags: Vec<u8> = obs.handled.iter().map(|h| h.1).collect();
    tags.sort();
    let before = tags.len();
    tags.dedup();
    if tags.len() != before {
        v.push(("C10:message-handled-by-two-exchanges".to_string(), format!("handled {:?}", obs.handled)));
    }
    if tags.contains(&0x79) || matches!(obs.early_probe.as_deref(), Some(s) if s.starts_with("reply:")) {
        // an initiator message opens an exchange only on a session that is neither gone nor expired
        v.push(("C10:new-exchange-opened-on-a-lost-or-expired-session".to_string(), format!("after {:?} a message opening a new exchange on the first session was handed to a handler (handled {:?}); the client got {:?}", event, obs.handled, obs.early_probe)));
    }
    if tags.iter().any(|t| (*t as usize) >= cfg.exchanges.len() && *t != 0x77 && *t != 0x78 && *t != 0x79) {
        v.push(("C10:handler-saw-a-message-nobody-sent".to_string(), format!("handled {:?}", obs.handled)));
    }
    // the receive path is not wedged: the probes are answered. The probe on the first session is
    // owed an answer only if that session still exists at both ends.
    if event.is_none() && obs.probe[0].as_deref() != Some("reply:119") {
        v.push(("C10:receive-path-wedged".to_string(), format!("the probe on the first session, issued 60 s after the disturbance, ended with {:?}; client outcomes {:?}", obs.probe[0], obs.client)));
    }
    if obs.probe[1].as_deref() != Some("reply:120") {
        v.push((
            format!("C10:receive-path-wedged{}", if event.is_some() { ":other-session-after-session-loss" } else { "" }),
            format!("the probe on the second session, issued 60 s after the disturbance, ended with {:?} (first-session probe {:?}, session event {:?}); client outcomes {:?}", obs.probe[1], obs.probe[0], event, obs.client),
        ));
    }
    if event.is_some() && matches!(obs.probe[0].as_deref(), Some(s) if s.starts_with("reply:")) && !matches!(event, Some(Action::Vanish(_) | Action::ExpireAtDevice) if false) {
        // a request on a session that is gone / expired at one end must not be served
        v.push(("C10:request-served-on-a-lost-session".to_string(), format!("after {:?} the first-session probe got {:?}", event, obs.probe[0])));
    }
    // nothing is left behind
    let (sa, sb) = (slots(w.a.get()), slots(w.b.get()));
    if !sa.is_empty() || !sb.is_empty() {
        v.push(("C10:exchange-slots-left-occupied".to_string(), format!("after the horizon (session event {:?}): client {:?}, device {:?} (local session id, exchange id, initiator role, dropped)", event, sa, sb)));
    }
    let class = format!("{:?}|probe={:?}|handled={}|event={:?}", obs.client, obs.probe, obs.handled.len(), event);
    let digest = common::digest(&(&class, w.net.0.borrow().log.iter().map(|d| (d.from, d.bytes.clone(), d.sent_at_us)).collect::<Vec<_>>()));
    Ok(Outcome { trace, digest, result: RunResult { violations: v, class } })
}

fn cfgs(tier: Tier) -> Vec<Cfg> {
    let behs = [Beh::Prompt, Beh::Late, Beh::Never, Beh::DropBeforeRecv, Beh::DropAfterRecv];
    let mut v = Vec::new();
    // every pair of behaviours on one session, and across two sessions; plus triples that exceed the pool
    for a in behs {
        for b in behs {
            v.push(Cfg { exchanges: vec![(a, false), (b, false)], unreliable_last: false });
            if tier == Tier::Thorough || a == Beh::Prompt || b == Beh::Never {
                v.push(Cfg { exchanges: vec![(a, false), (b, true)], unreliable_last: false });
            }
        }
    }
    for a in [Beh::Never, Beh::Late, Beh::Prompt] {
        for b in [Beh::Never, Beh::DropAfterRecv] {
            v.push(Cfg { exchanges: vec![(a, false), (b, false), (Beh::Prompt, false)], unreliable_last: false });
            if tier == Tier::Thorough {
                v.push(Cfg { exchanges: vec![(a, false), (b, true), (Beh::Prompt, false), (Beh::Prompt, true)], unreliable_last: false });
            }
        }
    }
    // both handlers of the pool busy for long, and a third exchange whose opening message asks for no
    // acknowledgement: nobody accepts it within the accept deadline and nothing is owed to the peer
    for (b, third_second) in [(Beh::Never, false), (Beh::Never, true), (Beh::Late, false)] {
        v.push(Cfg { exchanges: vec![(Beh::Never, false), (b, false), (Beh::Prompt, third_second)], unreliable_last: true });
    }
    v
}

fn cfg_json(c: &Cfg) -> Value {
    json!({"exchanges": c.exchanges.iter().map(|(b, s)| json!([b.code(), s])).collect::<Vec<_>>(), "unreliable_last": c.unreliable_last})
}

// ------------------------------------------------------------------------------------------
// Part F: every combination of exchange id / initiator flag / opcode / reliability / ack on a
// received message, offered at four moments of an honest exchange, on three (node, session)
// targets. The pre-state is read from the real exchange table; only the matching rule is the
// harness's own.

#[derive(Clone, Copy, Debug, PartialEq, Eq, Hash)]
enum Target {
    /// to the device, on the session the honest exchange runs on (a peer misusing exchange ids)
    DeviceS1,
    /// to the device, on another peer's session
    DeviceS3,
    /// to the client, on the session the honest exchange runs on
    ClientS1,
}

#[derive(Clone, Copy, Debug, PartialEq, Eq, Hash)]
enum Eid {
    /// the id of the honest exchange (0x1111 while it does not exist)
    Honest,
    Fresh,
    /// the id the previous forged message used
    Previous,
}

#[derive(Clone, Copy, Debug, PartialEq, Eq, Hash)]
enum Moment {
    BeforeStart,
    /// the device's handler holds the honest exchange
    Held,
    /// the device's answer is on the wire, not yet delivered
    ReplyInFlight,
    After,
}

#[derive(Clone, Copy, Debug, PartialEq, Eq, Hash)]
struct Forged {
    target: Target,
    eid: Eid,
    initiator: bool,
    /// 0 application opcode 1, 1 application opcode 9, 2 standalone ack, 3 status report, 4 Interaction Model read request
    kind: u8,
    reliable: bool,
    ack: bool,
    moment: Moment,
}

impl Forged {
    fn may_open(&self) -> bool {
        self.initiator && !matches!(self.kind, 2 | 3)
    }
    fn json(&self) -> Value {
        json!({"target": format!("{:?}", self.target), "eid": format!("{:?}", self.eid), "initiator": self.initiator, "kind": self.kind, "reliable": self.reliable, "ack": self.ack, "moment": format!("{:?}", self.moment)})
    }
    fn from_json(v: &Value) -> Forged {
        Forged {
            target: match v["target"].as_str().unwrap() {
                "DeviceS1" => Target::DeviceS1,
                "DeviceS3" => Target::DeviceS3,
                _ => Target::ClientS1,
            },
            eid: match v["eid"].as_str().unwrap() {
                "Honest" => Eid::Honest,
                "Fresh" => Eid::Fresh,
                _ => Eid::Previous,
            },
            initiator: v["initiator"].as_bool().unwrap(),
            kind: v["kind"].as_u64().unwrap() as u8,
            reliable: v["reliable"].as_bool().unwrap(),
            ack: v["ack"].as_bool().unwrap(),
            moment: match v["moment"].as_str().unwrap() {
                "BeforeStart" => Moment::BeforeStart,
                "Held" => Moment::Held,
                "ReplyInFlight" => Moment::ReplyInFlight,
                _ => Moment::After,
            },
        }
    }
}

fn forged_tag(i: usize, t: Target) -> u8 {
    (match t {
        Target::DeviceS1 => 0x40,
        Target::DeviceS3 => 0x60,
        Target::ClientS1 => 0x50,
    }) + i as u8
}

fn run_forged(list: &[Forged]) -> Result<(Vec<(String, String)>, String), String> {
    let cfg = Cfg { exchanges: vec![(Beh::Hold, false)], unreliable_last: false };
    let mut w = build(&cfg, 1000, true);
    w.exec.run()?;
    let mut v: Vec<(String, String)> = Vec::new();
    let mut next = 0usize;
    let mut prev_eid = 0x2222u16;
    let mut honest_eid: Option<u16> = None;
    let mut probe_done_at: Option<u64> = None;
    // per forged message: was it entitled to reach an application (matched an exchange of its own session, or opened one)
    let mut entitled = vec![false; list.len()];
    let mut matched_honest_client = false;
    let mut waiting_since: Option<u64> = None;
    // the peer of the first session sent an extra message on a live exchange of that session: what
    // becomes of that session is between the two of them, the rest of the node must be unaffected
    let mut own_session_misused = false;
    let (k1, k2, k5) = (nodes::key(0x11), nodes::key(0x22), nodes::key(0x55));
    loop {
        let now = vclock::now();
        if now > START_US + 400_000_000 || w.net.0.borrow().log.len() > 3000 {
            break;
        }
        if w.obs.borrow().probe[1].is_some() && w.net.inflight_len() == 0 {
            let t = *probe_done_at.get_or_insert(now);
            if now > t + 5_000_000 {
                break;
            }
        }
        if honest_eid.is_none() {
            honest_eid = slots(w.a.get()).iter().find(|s| s.0 == 1).map(|s| s.1);
        }
        // is the next forged message due?
        if next < list.len() {
            let f = list[next];
            let device_holds = slots(w.b.get()).iter().any(|s| s.0 == 2 && Some(s.1) == honest_eid && !s.2);
            let reply_in_flight = w.net.0.borrow().inflight.first().map(|d| d.from == 1 && d.to == 0 && now > START_US + 3_500_000).unwrap_or(false);
            let due = match f.moment {
                Moment::BeforeStart => true,
                // (a moment that has passed while waiting for a free receive slot degrades to 'now')
                Moment::Held => (device_holds && w.net.inflight_len() == 0) || w.obs.borrow().all_done,
                Moment::ReplyInFlight => reply_in_flight || w.obs.borrow().all_done,
                Moment::After => w.obs.borrow().all_done && now > START_US + 20_000_000,
            };
            // the receive slot of the target must be free, so that the forged message is processed
            // against the table the harness reads now (not an unknown later one)
            let tnode = if f.target == Target::ClientS1 { 0 } else { 1 };
            let tm = if tnode == 0 { w.a.get() } else { w.b.get() };
            let rx_free = w.net.0.borrow().inbox[tnode].is_empty() && !tm.transport().verif_rx_occupied();
            if due && !rx_free {
                // wait (time only; nothing is delivered, so the moment stays). A message nobody
                // picks up must be gone after the accept deadline / the owner's MRP deadline:
                // a slot still occupied after 30 s is a wedged receive path.
                let since = *waiting_since.get_or_insert(now);
                if now > since + 30_000_000 {
                    v.push(("C10:receive-slot-never-freed".to_string(), format!("the receive slot of the {} is still occupied 30 s after forged message #{} was delivered; forged {:?}", if tnode == 0 { "client" } else { "device" }, next.saturating_sub(1), list)));
                    next = list.len();
                    continue;
                }
                if let Some(t) = vclock::next_deadline() {
                    vclock::advance_to(t);
                    w.exec.run()?;
                    continue;
                }
            } else {
                waiting_since = None;
            }
            if due && rx_free {
                let eid = match f.eid {
                    Eid::Honest => honest_eid.unwrap_or(0x1111),
                    Eid::Fresh => 0x4242 + next as u16,
                    Eid::Previous => prev_eid,
                };
                prev_eid = eid;
                let tag = forged_tag(next, f.target);
                let (proto, opcode) = match f.kind {
                    0 => (PROTO, 1),
                    1 => (PROTO, 9),
                    2 => (0, 0x10),
                    3 => (0, 0x40),
                    _ => (1, 2),
                };
                let flags = (f.initiator as u8) | if f.reliable { 0x04 } else { 0 };
                let payload = [tag, Beh::Hold.code(), 0, 0, 0, 0, 0, 0];
                // counters: ahead of the impersonated sender's own, inside the receive window
                let (node, local_sess, bytes) = match f.target {
                    Target::DeviceS1 => {
                        let ctr = w.a.get().with_state(|s| s.verif_sessions().iter().find(|x| x.get_local_sess_id() == 1).map(|x| x.verif_flags().2)).unwrap_or(1000);
                        (1usize, 2u16, crate::common::wire::craft_secure(&k1, 2, ctr.wrapping_add(12 + next as u32), NODE_A, flags, opcode, eid, proto, f.ack.then_some(0x0bad_0000), &payload))
                    }
                    Target::DeviceS3 => (1usize, 6u16, crate::common::wire::craft_secure(&k5, 6, 5000 + next as u32, NODE_X, flags, opcode, eid, proto, f.ack.then_some(0x0bad_0000), &payload)),
                    Target::ClientS1 => {
                        let ctr = w.b.get().with_state(|s| s.verif_sessions().iter().find(|x| x.get_local_sess_id() == 2).map(|x| x.verif_flags().2)).unwrap_or(1000);
                        (0usize, 1u16, crate::common::wire::craft_secure(&k2, 1, ctr.wrapping_add(12 + next as u32), NODE_B, flags, opcode, eid, proto, f.ack.then_some(0x0bad_0000), &payload))
                    }
                };
                let m = if node == 0 { w.a.get() } else { w.b.get() };
                let pre = slots(m);
                let session_there = m.with_state(|s| s.verif_sessions().iter().any(|x| x.get_local_sess_id() == local_sess && !x.verif_flags().1));
                // the harness's own statement of the matching rule
                let matched = pre.iter().any(|s| s.0 == local_sess && s.1 == eid && (f.initiator != s.2));
                let expect_new = session_there && !matched && f.may_open();
                entitled[next] = matched || expect_new;
                if matched && node == 0 {
                    matched_honest_client = true;
                }
                if matched && f.target != Target::DeviceS3 {
                    own_session_misused = true;
                }
                let from = if f.target == Target::DeviceS1 { 0 } else if f.target == Target::ClientS1 { 1 } else { 2 };
                w.net.inject(from, node, bytes);
                let last = w.net.inflight_len() - 1;
                vclock::advance_by_ms(1);
                w.net.deliver(last, false);
                w.exec.run()?;
                let post = slots(m);
                let created: Vec<&Slot> = post.iter().filter(|s| !pre.contains(s) && !pre.iter().any(|p| p.0 == s.0 && p.1 == s.1 && p.2 == s.2)).collect();
                let what = format!("forged message #{} {:?} (exchange id {:#x}) at {:?}: slots before {:?}, after {:?}", next, f, eid, if node == 0 { "client" } else { "device" }, pre, post);
                if expect_new {
                    if !created.iter().any(|s| s.0 == local_sess && s.1 == eid && !s.2) {
                        v.push((format!("C10:initiator-message-did-not-open-an-exchange:kind{}:ack{}", f.kind, f.ack), what.clone()));
                    }
                } else if !created.is_empty() {
                    v.push((format!("C10:exchange-opened-by-a-message-that-may-not:{}:kind{}", if f.initiator { "initiator" } else { "responder-flag" }, f.kind), what.clone()));
                }
                if created.iter().any(|s| s.0 != local_sess) {
                    v.push(("C10:exchange-opened-on-another-session".to_string(), what.clone()));
                }
                next += 1;
                continue;
            }
        }
        let n = w.net.inflight_len();
        if n > 0 {
            vclock::advance_by_ms(1);
            w.net.deliver(0, false);
        } else if let Some(t) = vclock::next_deadline() {
            vclock::advance_to(t);
        } else {
            break;
        }
        w.exec.run()?;
    }
    if next < list.len() {
        return Err(format!("forged message #{} ({:?}) never became due", next, list[next]));
    }
    // ---- oracle
    let obs = w.obs.borrow();
    // client: its exchange receives its own answer, or a forged message that was addressed to exactly that exchange
    match obs.client[0].as_deref() {
        Some("reply:0") => {}
        Some(s) if s.starts_with("reply:") && matched_honest_client => {}
        Some(s) if s.starts_with("err:") && matched_honest_client => {}
        other => v.push(("C10:honest-exchange-disturbed-by-foreign-message".to_string(), format!("the honest client exchange ended with {:?} under forged messages {:?}", other, list))),
    }
    // device handlers: a forged tag is seen only if entitled; one invocation never mixes sessions
    let mut by_inv: std::collections::BTreeMap<usize, Vec<u8>> = Default::default();
    for (inv, t) in obs.handled.iter() {
        by_inv.entry(*inv).or_default().push(*t);
    }
    let sess_of = |t: u8| if (0x60..0x70).contains(&t) { 3 } else if t == 0x78 { 2 } else { 1 };
    for (inv, tags) in by_inv.iter() {
        if tags.iter().any(|t| sess_of(*t) != sess_of(tags[0])) {
            v.push(("C10:one-exchange-received-messages-of-two-sessions".to_string(), format!("handler invocation {} saw tags {:?}; forged {:?}", inv, tags, list)));
        }
        for t in tags {
            let idx = (*t & 0x0f) as usize;
            if (0x40..0x70).contains(t) && !(0x50..0x60).contains(t) && !entitled.get(idx).copied().unwrap_or(false) {
                v.push((format!("C10:dropped-kind-of-message-reached-an-application:kind{}", list.get(idx).map(|f| f.kind).unwrap_or(9)), format!("handler invocation {} saw tag {:#x} of forged message {:?}", inv, t, list.get(idx))));
            }
            if (0x50..0x60).contains(t) {
                v.push(("C10:client-bound-message-reached-a-device-handler".to_string(), format!("tags {:?}", tags)));
            }
        }
    }
    if (obs.probe[0].as_deref() != Some("reply:119") && !own_session_misused) || obs.probe[1].as_deref() != Some("reply:120") {
        v.push(("C10:receive-path-wedged:after-forged-messages".to_string(), format!("probes ended with {:?} after forged messages {:?}", obs.probe, list)));
    }
    let (sa, sb) = (slots(w.a.get()), slots(w.b.get()));
    if !sa.is_empty() || !sb.is_empty() {
        v.push(("C10:exchange-slots-left-occupied:after-forged-messages".to_string(), format!("client {:?}, device {:?}; forged {:?}", sa, sb, list)));
    }
    let class = format!("{:?}|{:?}|{:?}|{:?}", obs.client, obs.probe, by_inv.values().collect::<Vec<_>>(), entitled);
    Ok((v, class))
}

fn forged_space(prev: bool) -> Vec<Forged> {
    let mut v = Vec::new();
    for target in [Target::DeviceS1, Target::DeviceS3, Target::ClientS1] {
        for eid in [Eid::Honest, Eid::Fresh, Eid::Previous] {
            if eid == Eid::Previous && !prev {
                continue;
            }
            for initiator in [true, false] {
                for kind in 0..5u8 {
                    for reliable in [false, true] {
                        for ack in [false, true] {
                            for moment in [Moment::BeforeStart, Moment::Held, Moment::ReplyInFlight, Moment::After] {
                                v.push(Forged { target, eid, initiator, kind, reliable, ack, moment });
                            }
                        }
                    }
                }
            }
        }
    }
    v
}

fn forged_lists(tier: Tier) -> Vec<Vec<Forged>> {
    let singles = forged_space(false);
    let mut out: Vec<Vec<Forged>> = singles.iter().map(|f| vec![*f]).collect();
    let order = |m: Moment| match m {
        Moment::BeforeStart => 0,
        Moment::Held => 1,
        Moment::ReplyInFlight => 2,
        Moment::After => 3,
    };
    let seconds = forged_space(true);
    for a in singles.iter() {
        // quick: pairs whose first message opens an exchange while the honest one is held
        if tier == Tier::Quick && !(a.moment == Moment::Held && a.kind == 0 && !a.ack && !a.reliable) {
            continue;
        }
        for b in seconds.iter() {
            if order(b.moment) < order(a.moment) {
                continue;
            }
            if tier == Tier::Quick && (b.moment != a.moment || b.target != a.target) {
                continue;
            }
            out.push(vec![*a, *b]);
        }
    }
    out
}

fn replay(ctx: &Ctx, path: &std::path::Path) -> i32 {
    let doc: Value = serde_json::from_str(&std::fs::read_to_string(path).expect("replay file")).expect("json");
    let r = &doc["replay"];
    std::env::set_var("MC_SHOW_PANICS", "1");
    let mut report = Report::new();
    if let Some(list) = r["forged"].as_array() {
        let list: Vec<Forged> = list.iter().map(Forged::from_json).collect();
        match run_forged(&list) {
            Err(e) => {
                eprintln!("MACHINERY: {}", e);
                return 2;
            }
            Ok((v, class)) => {
                println!("{}", class);
                for (sig, what) in v {
                    println!("  {} {}", sig, what);
                    report.violation(sig, what, r.clone());
                }
            }
        }
        return common::finish(ctx, report, Evidence::new("model_checking"));
    }
    let cfg = Cfg { exchanges: r["cfg"]["exchanges"].as_array().unwrap().iter().map(|e| (Beh::from(e[0].as_u64().unwrap() as u8), e[1].as_bool().unwrap())).collect(), unreliable_last: r["cfg"]["unreliable_last"].as_bool().unwrap_or(false) };
    let prefix: Vec<usize> = r["choices"].as_array().unwrap().iter().map(|c| c.as_u64().unwrap() as usize).collect();
    match run_one(&cfg, &prefix) {
        Err(e) => {
            eprintln!("MACHINERY: {}", e);
            return 2;
        }
        Ok(out) => {
            println!("{}", out.result.class);
            for (sig, what) in out.result.violations {
                println!("  {} {}", sig, what);
                report.violation(sig, what, r.clone());
            }
        }
    }
    common::finish(ctx, report, Evidence::new("model_checking"))
}

pub fn run_check(ctx: &Ctx) -> i32 {
    use rayon::prelude::*;
    if let Some(p) = &ctx.replay {
        return replay(ctx, p);
    }
    let bound = match ctx.tier {
        Tier::Quick => 2,
        Tier::Thorough => 3,
    };
    let mut report = Report::new();
    let (mut execs, mut points, mut outcomes) = (0u64, 0u64, 0usize);
    let mut classes = std::collections::BTreeSet::new();
    let mut capped = false;
    let mut per = Vec::new();
    for cfg in cfgs(ctx.tier) {
        let viol = std::sync::Mutex::new(Vec::new());
        let cls = std::sync::Mutex::new(std::collections::BTreeSet::new());
        let bound = if cfg.exchanges.len() > 3 { bound - 1 } else { bound };
        let stats = e1::explore(
            bound,
            if ctx.tier == Tier::Quick { 30_000 } else { 3_000_000 },
            64,
            |prefix| match common::catch(|| run_one(&cfg, prefix)) {
                Ok(r) => r,
                Err(p) => Ok(Outcome { trace: prefix.iter().map(|c| (c + 1, *c)).collect(), digest: 0, result: RunResult { violations: vec![(format!("C10:panic:{}", p.class()), p.to_string())], class: "panic".into() } }),
            },
            |_prefix, out| {
                let choices: Vec<usize> = out.trace.iter().map(|c| c.1).collect();
                if !out.result.violations.is_empty() {
                    let mut g = viol.lock().unwrap();
                    for (sig, what) in &out.result.violations {
                        g.push((sig.clone(), what.clone(), choices.clone()));
                    }
                }
                cls.lock().unwrap().insert(out.result.class.clone());
            },
        );
        let stats = match stats {
            Ok(s) => s,
            Err(e) => {
                eprintln!("MACHINERY: {}", e);
                return 2;
            }
        };
        let mut vs = viol.into_inner().unwrap();
        vs.sort_by_key(|(_, _, c)| (c.iter().filter(|x| **x != 0).count(), c.len()));
        for (sig, what, choices) in vs {
            report.violation(sig, format!("cfg {:?}, schedule {:?}: {}", cfg, choices, what), json!({"cfg": cfg_json(&cfg), "choices": choices}));
        }
        execs += stats.executions;
        points += stats.choice_points;
        outcomes += stats.distinct_outcomes;
        capped |= stats.capped;
        let c = cls.into_inner().unwrap();
        per.push(json!({"cfg": cfg_json(&cfg), "deviation_bound": bound, "executions": stats.executions, "choice_points": stats.choice_points, "distinct_observations": stats.distinct_outcomes, "outcome_classes": c.len(), "capped": stats.capped}));
        classes.extend(c);
    }
    // ---- part F
    let lists = forged_lists(ctx.tier);
    let results: Vec<Result<(Vec<(String, String)>, String), String>> = lists
        .par_iter()
        .map(|l| match common::catch(|| run_forged(l)) {
            Ok(r) => r,
            Err(p) => Ok((vec![(format!("C10:panic:{}", p.class()), p.to_string())], "panic".to_string())),
        })
        .collect();
    let mut fclasses = std::collections::BTreeSet::new();
    for (l, r) in lists.iter().zip(results) {
        match r {
            Err(e) => {
                eprintln!("MACHINERY: {}", e);
                return 2;
            }
            Ok((v, class)) => {
                fclasses.insert(class);
                for (sig, what) in v {
                    report.violation(sig, what, json!({"forged": l.iter().map(|f| f.json()).collect::<Vec<_>>()}));
                }
            }
        }
    }
    let mut ev = Evidence::new("model_checking");
    ev.set("states", json!(outcomes + fclasses.len()))
        .set("transitions", json!(points))
        .set("traces_validated_against_impl", json!(execs + lists.len() as u64))
        .set("executions", json!(execs))
        .set("forged_message_runs", json!(lists.len()))
        .set("forged_outcome_classes", json!(fclasses.len()))
        .set("exhaustive", json!(!capped))
        .set("deviation_bound_completed", json!(if capped { bound - 1 } else { bound }))
        .set("samples", json!([{"cfg": {"exchanges": [[3, false], [5, false], [1, false]]}, "choices": [0, 2, 0], "meaning": "behaviour codes 1 prompt / 2 late / 3 never / 4 drop-before-recv / 5 drop-after-recv, second element = on the second (PASE) session; choice = index into [deliver oldest, drop, duplicate, deliver second-oldest, timer first, first session vanishes at device, at client, is marked expired at device]"}]))
        .set("per_configuration", Value::Array(per))
        .set("vacuity", json!({"distinct_outcome_classes": classes.len(), "forged_outcome_classes": fclasses.len()}))
        .set("rule", json!(format!("part E: every schedule with at most {} (one fewer for four concurrent exchanges) non-default adversary decisions (drop / duplicate / reorder / timer first / loss or expiry of the first session at either node) during the disturbance phase, for every pair of handler behaviours on one and on two sessions and for triples / quadruples that exceed the two-handler pool, followed by 60 s of virtual time and a probe exchange on each session over a FIFO network. Part F: every forged message (3 targets x exchange id honest/fresh x initiator flag x 5 opcode kinds x reliable x ack) at 4 moments of an honest held exchange, and pairs of them; the exchange table is compared before / after each forged message against the matching rule", bound)));
    ev.assume("forged messages are sealed with the repo's own AEAD routine (header layout is harness-side); group sessions and unsecured sessions are not part of the forged-message sweep");
    if report.violations.is_empty() && (classes.len() < 3 || fclasses.len() < 3) {
        eprintln!("MACHINERY: vacuous C10 run");
        return 2;
    }
    common::finish(ctx, report, ev)
}
