//! C02 — PASE admits only a peer that knows the passcode, only while a window is open.
//!
//! Two real nodes: initiator I (`Exchange::initiate_pase` -> `PaseInitiator`) and device R
//! (`SecureChannel` responder) over the adversarial network and the virtual clock. Enumerated:
//!   (a) passcode pairs (equal / off by one / zero / maximal);
//!   (b) for the equal pair every single attacker move on every handshake datagram (the C01
//!       catalog) plus every invalid / special curve point in place of pA and pB;
//!   (c) the window state machine interleaved with the handshake: close, close-and-reopen, expiry,
//!       placed before the delivery of each handshake datagram; no window at all; a window opened
//!       late; a second concurrent initiator;
//!   (d) 21 consecutive wrong-passcode attempts (failure counting and revocation).
//! Oracle (see `judge`): sessions only with an open window and the right passcode and an
//! unmodified handshake; directional keys equal when both ends hold one; failures counted;
//! advertised as commissionable iff a window is open.

use std::cell::RefCell;
use std::rc::Rc;

use embassy_futures::select::select;
use rayon::prelude::*;
use serde_json::{json, Value};

use rs_matter::error::Error;
use rs_matter::respond::Responder;
use rs_matter::sc::SecureChannel;
use rs_matter::transport::exchange::Exchange;
use rs_matter::transport::network::NoNetwork;
use rs_matter::transport::session::SessionMode;
use rs_matter::Matter;

use super::c01::{matches, mutate, mutation_catalog_of, nth_of, parse_mutn, sc_opcode, Mutn, Target};
use crate::common::nodes;
use crate::common::rng::SeededRng;
use crate::common::sim::{addr_of, Dgram, Exec, Net, Owned};
use crate::common::{self, hex, vclock, Ctx, Evidence, Report, Tier};

const START_US: u64 = 9_000_000_000;
const DEVICE_PASSCODE: u32 = 20202021;
const WINDOW_SECS: u16 = 300;

#[derive(Clone, Debug, PartialEq, Eq, Hash)]
enum WinAct {
    Close,
    CloseReopen,
    /// advance the clock beyond the window's expiry
    Expire,
    /// the window is closed and another one is opened with another passcode
    CloseReopenOtherPasscode,
    /// advance the clock to one second past the window's expiry (with a late handshake: while that
    /// handshake is younger than the responder's own 60 s establishment timeout)
    ExpireJust,
}

#[derive(Clone, Debug)]
struct RunSpec {
    /// passcodes the initiator(s) try, in order (one handshake each)
    passcodes: Vec<u32>,
    /// whether the device opens a window before anything happens
    window_at_start: bool,
    target: Option<(Target, Mutn)>,
    /// window action right before the first transmission of this datagram is delivered
    window_action: Option<(Target, WinAct)>,
    /// a second initiator starts its own handshake concurrently
    second_initiator: bool,
    seed: u64,
    /// the initiator starts its (first) handshake this many seconds after the window was opened
    start_delay_s: u64,
    /// the application polls the window's expiry (`Pase::check_comm_window_timeout`, what
    /// `InteractionModel::run` does every second) after every step
    poll: bool,
    /// the first n handshakes are *rude wrong proofs*: the confirmation in their Pake3 is altered in
    /// flight and the peer goes silent afterwards (the device's failure report is never acknowledged);
    /// the window is opened for 890 s so that twenty of them fit
    rude: usize,
}

#[derive(Clone, Debug, PartialEq, Eq, Hash)]
struct SessSum {
    enc: String,
    dec: String,
    reserved: bool,
    /// (local session id, peer session id)
    sids: (u16, u16),
}

#[derive(Clone, Debug, Default)]
struct Summary {
    i_sessions: Vec<SessSum>,
    r_sessions: Vec<SessSum>,
    results: Vec<Result<(), String>>,
    results2: Vec<Result<(), String>>,
    client_done: bool,
    wire: Vec<Dgram>,
    /// (virtual time, window open?) whenever a PASE session came into existence at R
    r_session_births: Vec<(u64, bool)>,
    /// sessions born after the window was replaced by one with a passcode nobody tried
    births_under_replaced_window: usize,
    window_open_at_end: bool,
    /// session births at instants at which, by the harness's own account of the windows it opened and
    /// closed and of the clock, no window was open
    births_after_expiry: Vec<u64>,
    open_after_poll: Option<String>,
    failures_at_end: u8,
    max_failures_seen: u8,
    advertised_mismatch: Option<String>,
    failsafe_armed_at_end: bool,
    storm: bool,
}

struct World {
    exec: Exec,
    net: Net,
    obs: Rc<RefCell<(Vec<Result<(), String>>, Vec<Result<(), String>>, usize)>>,
    i: Owned<Matter<'static>>,
    i2: Owned<Matter<'static>>,
    r: Owned<Matter<'static>>,
}

fn build(spec: &RunSpec) -> Result<World, String> {
    vclock::reset(START_US);
    let net = Net::new(3);
    let i = Owned::from_box(nodes::new_matter());
    let i2 = Owned::from_box(nodes::new_matter());
    let r = Owned::from_box(nodes::new_matter());
    let (mi, mi2, mr) = (i.get(), i2.get(), r.get());
    if spec.window_at_start {
        let c = nodes::crypto(SeededRng::new(spec.seed + 5));
        mr.open_basic_comm_window(if spec.rude > 0 { 890 } else { WINDOW_SECS }, &c, &()).map_err(|e| format!("open window: {:?}", e))?;
    }
    let obs = Rc::new(RefCell::new((Vec::new(), Vec::new(), 0usize)));
    let mut exec = Exec::new();
    {
        let (send, recv) = (net.end(1), net.end(1));
        let seed = spec.seed;
        exec.spawn("R", async move {
            let c = nodes::crypto(SeededRng::new(seed + 20));
            let sc = SecureChannel::new(&c, &());
            let responder = Responder::new("R", sc, mr, 0);
            let _ = select(mr.run(&c, send, recv, NoNetwork), responder.run::<3>()).await;
        });
    }
    let clients = if spec.second_initiator { 2 } else { 1 };
    for (k, m) in [(0usize, mi), (2usize, mi2)].into_iter().take(clients) {
        let (send, recv) = (net.end(k), net.end(k));
        let obs2 = obs.clone();
        let seed = spec.seed + k as u64 * 7;
        let passcodes = spec.passcodes.clone();
        let start_delay_s = spec.start_delay_s;
        let rude = spec.rude;
        exec.spawn(if k == 0 { "I" } else { "I2" }, async move {
            let c = nodes::crypto(SeededRng::new(seed + 10));
            let client = async {
                if start_delay_s > 0 {
                    embassy_time::Timer::after(embassy_time::Duration::from_secs(start_delay_s)).await;
                }
                for (n, pc) in passcodes.into_iter().enumerate() {
                    let r: Result<(), Error> = if n < rude && k == 0 {
                        // (a rude peer does not wait for the verdict)
                        match embassy_time::with_timeout(embassy_time::Duration::from_secs(4), Exchange::initiate_pase(m, &c, addr_of(1), pc)).await {
                            Ok(r) => r.map(|_| ()),
                            Err(_) => {
                                // (the device takes one handshake at a time: let it finish with this one)
                                embassy_time::Timer::after(embassy_time::Duration::from_secs(25)).await;
                                Err(rs_matter::error::ErrorCode::RxTimeout.into())
                            }
                        }
                    } else {
                        Exchange::initiate_pase(m, &c, addr_of(1), pc).await.map(|_| ())
                    };
                    let mut o = obs2.borrow_mut();
                    let res = r.map_err(|e| format!("{:?}", e.code()));
                    if k == 0 {
                        o.0.push(res);
                    } else {
                        o.1.push(res);
                    }
                }
                obs2.borrow_mut().2 += 1;
                core::future::pending::<()>().await
            };
            let _ = select(m.run(&c, send, recv, NoNetwork), client).await;
        });
    }
    Ok(World { exec, net, obs, i, i2, r })
}

fn pase_sessions(m: &Matter<'_>) -> Vec<SessSum> {
    m.with_state(|state| {
        state
            .verif_sessions()
            .iter()
            .filter(|s| matches!(s.get_session_mode(), SessionMode::Pase { .. }))
            .map(|s| SessSum {
                enc: s.get_enc_key().map(|k| hex(k.access())).unwrap_or_default(),
                dec: s.get_dec_key().map(|k| hex(k.access())).unwrap_or_default(),
                reserved: s.verif_flags().0,
                sids: (s.get_local_sess_id(), s.get_peer_sess_id()),
            })
            .collect()
    })
}

fn window_open(m: &Matter<'_>) -> bool {
    m.comm_window_state().is_open()
}

fn advertised_commissionable(m: &Matter<'_>) -> bool {
    let mut n = 0;
    let fabrics = m.with_state(|s| s.fabrics.iter().count());
    let _ = m.mdns_services(|_svc| {
        n += 1;
        Ok(())
    });
    // no fabrics in this harness: every published service is the commissionable one
    n > fabrics
}

fn run(spec: &RunSpec, other_wire: Option<&[Dgram]>) -> Result<Summary, String> {
    let mut w = build(spec)?;
    w.exec.run()?;
    let mut seen: Vec<(usize, u8, u32)> = Vec::new();
    let (mut applied, mut win_applied) = (false, false);
    let mut other_window = false;
    let mut quiet: Option<u64> = None;
    let mut out = Summary::default();
    let clients = if spec.second_initiator { 2 } else { 1 };
    let mut known_r_sessions = 0usize;
    // reference: the instant the window the harness opened last expires (None: no window)
    let mut ref_expiry: Option<u64> = if spec.window_at_start { Some(START_US + if spec.rude > 0 { 890 } else { WINDOW_SECS as u64 } * 1_000_000) } else { None };
    let (mut rude_done, mut silence) = (0usize, false);
    loop {
        let now = vclock::now();
        if now > START_US + if spec.rude > 0 { 3_000_000_000 } else { 900_000_000 } {
            break;
        }
        if w.net.0.borrow().log.len() > 2000 {
            out.storm = true;
            break;
        }
        let done = w.obs.borrow().2 >= clients;
        if done && w.net.inflight_len() == 0 {
            let q = *quiet.get_or_insert(now);
            if now >= q + 100_000_000 {
                break;
            }
        } else if !done {
            quiet = None;
        }
        if w.net.inflight_len() > 0 {
            vclock::advance_by_ms(1);
            let d = w.net.0.borrow().inflight[0].clone();
            let nth = matches(&Target { from: 0, opcode: 0, nth: 0 }, &d, &mut seen);
            let op = sc_opcode(&d.bytes).map(|x| x.0);
            let mut handled = false;
            if spec.rude > 0 {
                if d.from == 0 && op == Some(0x20) {
                    // a new handshake begins: the peer talks again
                    silence = false;
                }
                let first_tx = w.net.0.borrow().log.iter().filter(|x| x.from == d.from && x.bytes == d.bytes && x.id < d.id).count() == 0;
                if d.from == 0 && op == Some(0x24) && first_tx && rude_done < spec.rude {
                    match mutate(&d.bytes, &Mutn::FlipFirst(1), None) {
                        Some(nb) => w.net.0.borrow_mut().inflight[0].bytes = nb,
                        None => return Err("harness: the confirmation of Pake3 could not be altered".into()),
                    }
                    rude_done += 1;
                    silence = true;
                    w.net.deliver(0, false);
                    handled = true;
                } else if silence && d.from == 1 && d.to == 0 {
                    w.net.drop_dgram(0);
                    handled = true;
                }
            }
            if let (Some(nth), Some(op), false) = (nth, op, handled) {
                let first_tx = w.net.0.borrow().log.iter().filter(|x| x.from == d.from && x.bytes == d.bytes && x.id < d.id).count() == 0;
                if first_tx {
                    if let Some((t, a)) = &spec.window_action {
                        if !win_applied && t.from == d.from && t.opcode == op && t.nth == nth {
                            win_applied = true;
                            let mr = w.r.get();
                            match a {
                                WinAct::Close => {
                                    let _ = mr.close_comm_window(&());
                                    ref_expiry = None;
                                }
                                WinAct::CloseReopen => {
                                    let _ = mr.close_comm_window(&());
                                    let c = nodes::crypto(SeededRng::new(spec.seed + 77));
                                    let _ = mr.open_basic_comm_window(WINDOW_SECS, &c, &());
                                    ref_expiry = Some(vclock::now() + WINDOW_SECS as u64 * 1_000_000);
                                }
                                WinAct::ExpireJust => {
                                    let until = START_US + (WINDOW_SECS as u64 + 1) * 1_000_000;
                                    if vclock::now() < until {
                                        vclock::advance_to(until);
                                    }
                                    w.exec.run()?;
                                }
                                WinAct::CloseReopenOtherPasscode => {
                                    let _ = mr.close_comm_window(&());
                                    let other: rs_matter::BasicCommData = rs_matter::BasicCommData { password: 87654322u32.to_le_bytes().into(), discriminator: 250 };
                                    let r = mr.with_state(|s| {
                                        let (_, _, pase) = s.verif_failsafe_and_fabrics();
                                        pase.open_basic_comm_window(0x1234_5678_9abc, &[0x5c; 16], other.password.reference(), 250, WINDOW_SECS, None, || {}, |_, _| {})
                                    });
                                    if let Err(e) = r {
                                        return Err(format!("harness: opening the second window failed: {:?}", e.code()));
                                    }
                                    other_window = true;
                                    ref_expiry = Some(vclock::now() + WINDOW_SECS as u64 * 1_000_000);
                                }
                                WinAct::Expire => {
                                    vclock::advance_by_ms((WINDOW_SECS as u64 + 1) * 1000);
                                    w.exec.run()?;
                                }
                            }
                        }
                    }
                    if let Some((t, m)) = &spec.target {
                        if !applied && t.from == d.from && t.opcode == op && t.nth == nth {
                            applied = true;
                            match m {
                                Mutn::None => {}
                                Mutn::Drop => {
                                    w.net.drop_dgram(0);
                                    handled = true;
                                }
                                Mutn::Dup => {
                                    w.net.deliver(0, true);
                                    handled = true;
                                }
                                other_m => {
                                    let other = other_wire.and_then(|ow| nth_of(ow, d.from, op, nth));
                                    match mutate(&d.bytes, other_m, other.map(|x| x.bytes.as_slice())) {
                                        Some(nb) => w.net.0.borrow_mut().inflight[0].bytes = nb,
                                        None => return Err("mutation-not-applicable".into()),
                                    }
                                }
                            }
                        }
                    }
                }
            }
            if !handled {
                w.net.deliver(0, false);
            }
        } else if let Some(t) = vclock::next_deadline() {
            vclock::advance_to(t);
        } else {
            break;
        }
        w.exec.run()?;
        // per-step observations at R
        let mr = w.r.get();
        // a session exists from the moment the device accepted the proof and keyed it (its slot may
        // still be marked reserved until the handler has sent the final status)
        if spec.poll {
            let r = mr.with_state(|s| {
                let (_, _, pase) = s.verif_failsafe_and_fabrics();
                pase.check_comm_window_timeout(|| {}, |_, _| {})
            });
            if let Err(e) = r {
                return Err(format!("harness: polling the window failed: {:?}", e.code()));
            }
            if ref_expiry.map(|t| vclock::now() > t).unwrap_or(false) && window_open(mr) && out.open_after_poll.is_none() {
                out.open_after_poll = Some(format!("at {} us the window that expired at {} us is still open after the expiry poll", vclock::now() - START_US, ref_expiry.unwrap() - START_US));
            }
        }
        let n = pase_sessions(mr).len();
        if n > known_r_sessions {
            if !ref_expiry.map(|t| vclock::now() <= t).unwrap_or(false) {
                out.births_after_expiry.push(vclock::now());
            }
            out.r_session_births.push((vclock::now(), window_open(mr)));
            if other_window {
                out.births_under_replaced_window += 1;
            }
        }
        known_r_sessions = n;
        let f = mr.with_state(|s| s.verif_pase().verif_state().1);
        out.max_failures_seen = out.max_failures_seen.max(f);
        let (adv, open) = (advertised_commissionable(mr), window_open(mr));
        if adv != open && out.advertised_mismatch.is_none() {
            out.advertised_mismatch = Some(format!("at {} us: advertised {} but window open {}", vclock::now() - START_US, adv, open));
        }
    }
    let mr = w.r.get();
    out.i_sessions = pase_sessions(w.i.get());
    out.i_sessions.extend(pase_sessions(w.i2.get()));
    out.r_sessions = pase_sessions(mr);
    let obs = w.obs.borrow();
    out.results = obs.0.clone();
    out.results2 = obs.1.clone();
    out.client_done = obs.2 >= clients;
    out.wire = w.net.0.borrow().log.clone();
    out.window_open_at_end = window_open(mr);
    out.failures_at_end = mr.with_state(|s| s.verif_pase().verif_state().1);
    out.failsafe_armed_at_end = mr.with_state(|s| s.verif_failsafe().verif_state().0.is_some());
    Ok(out)
}

fn tag_of(spec: &RunSpec) -> String {
    let mut t = String::new();
    if let Some((tg, m)) = &spec.target {
        t = format!("op{:02x}:{}", tg.opcode, match m {
            Mutn::FlipByte(_) => "header-bit".to_string(),
            Mutn::FlipBit(..) => "single-bit".to_string(),
            Mutn::FlipFirst(_) | Mutn::FlipLast(_) => "field-bitflip".to_string(),
            Mutn::Delete(_) => "field-deleted".to_string(),
            Mutn::TruncateAt(_) => "truncated".to_string(),
            Mutn::Transplant(_) => "field-transplanted".to_string(),
            Mutn::ReplaceValue(..) => "curve-point-replaced".to_string(),
            other => format!("{:?}", other).to_lowercase(),
        });
    }
    if let Some((tg, a)) = &spec.window_action {
        t = format!("window-{:?}-before-op{:02x}", a, tg.opcode).to_lowercase();
    }
    if spec.second_initiator {
        t.push_str(":second-initiator");
    }
    if t.is_empty() {
        t = "untouched".into();
    }
    t
}

fn judge(spec: &RunSpec, s: &Summary) -> Vec<(String, String)> {
    let mut v = Vec::new();
    let tag = tag_of(spec);
    let live = |x: &Vec<SessSum>| x.iter().filter(|s| !s.reserved).cloned().collect::<Vec<_>>();
    let (is, rs) = (live(&s.i_sessions), live(&s.r_sessions));
    let right = spec.passcodes.iter().filter(|p| **p == DEVICE_PASSCODE).count();
    if s.storm {
        v.push((format!("C02:datagram-storm:{}", tag), "more than 2000 datagrams".into()));
        return v;
    }
    if !s.client_done {
        v.push((format!("C02:initiator-hangs:{}", tag), format!("results {:?}", s.results)));
    }
    // (i) a session comes into existence only while a window is open
    for (t, open) in &s.r_session_births {
        if !open {
            v.push((format!("C02:session-created-while-no-window-is-open:{}", tag), format!("a PASE session appeared at the device at {} us with no commissioning window open", t - START_US)));
        }
    }
    for t in &s.births_after_expiry {
        v.push((format!("C02:session-created-after-the-window-expired-or-closed:{}", tag), format!("a PASE session appeared at the device at {} us; by then the window opened by the harness had expired or been closed", t - START_US)));
    }
    if let Some(m) = &s.open_after_poll {
        v.push((format!("C02:expired-window-survives-the-expiry-poll:{}", tag), m.clone()));
    }
    if s.births_under_replaced_window > 0 {
        v.push((format!("C02:session-for-the-passcode-of-a-window-that-was-replaced:{}", tag), format!("{} PASE session(s) appeared after the window the handshake started under was closed and another window with another passcode was opened", s.births_under_replaced_window)));
    }
    // (ii) never more sessions than handshakes with the right passcode; none at all without a window or with only wrong passcodes
    let max_ok = if spec.window_at_start { right * if spec.second_initiator { 2 } else { 1 } } else { 0 };
    if rs.len() > max_ok {
        v.push((format!("C02:session-without-knowing-the-passcode-or-without-window:{}", tag), format!("{} PASE sessions at the device, at most {} handshakes could legitimately succeed (passcodes tried {:?}, window at start {})", rs.len(), max_ok, spec.passcodes, spec.window_at_start)));
    }
    let ok_results = s.results.iter().chain(s.results2.iter()).filter(|r| r.is_ok()).count();
    if ok_results > max_ok {
        v.push((format!("C02:initiator-reports-success-illegitimately:{}", tag), format!("{:?} {:?}", s.results, s.results2)));
    }
    // (iii) keys equal whenever both ends hold a session
    for x in &is {
        // the two halves of one session name each other's session ids
        if let Some(y) = rs.iter().find(|y| (y.sids.0, y.sids.1) == (x.sids.1, x.sids.0)).or_else(|| rs.iter().find(|y| y.dec == x.enc || y.enc == x.dec)) {
            if y.dec != x.enc || y.enc != x.dec {
                v.push((format!("C02:directional-keys-differ:{}", tag), format!("I enc {} dec {} / R enc {} dec {}", x.enc, x.dec, y.enc, y.dec)));
            }
        }
    }
    // (iv) the untouched handshake with the right passcode and an open window succeeds
    if spec.target.is_none() && spec.window_action.is_none() && !spec.second_initiator && spec.window_at_start && spec.passcodes.len() <= 20 {
        let right = right.saturating_sub(spec.rude);
        if rs.len() != right || is.len() != right {
            v.push(("C02:untouched-handshake-fails".into(), format!("sessions I {} R {} expected {}; results {:?}", is.len(), rs.len(), right, s.results)));
        }
        // every wrong passcode is a counted failure (the window is still open, so the counter is visible)
        let wrong = spec.passcodes.len() - right;
        if s.window_open_at_end && (s.max_failures_seen as usize) < wrong.min(19) {
            v.push(("C02:failed-proof-not-counted".into(), format!("{} wrong-passcode handshakes, failure counter reached {}", wrong, s.max_failures_seen)));
        }
    }
    // (v) revocation after twenty failed proofs
    if spec.rude > 0 {
        // every altered confirmation is a failed proof, acknowledged failure report or not
        if s.window_open_at_end && (s.max_failures_seen as usize) < spec.rude.min(19) {
            v.push(("C02:failed-proof-not-counted:failure-report-never-acknowledged".into(), format!("{} handshakes with an altered confirmation whose failure report was never acknowledged, failure counter reached {}", spec.rude, s.max_failures_seen)));
        }
        if spec.rude >= 20 && s.window_open_at_end {
            v.push(("C02:window-not-revoked-after-20-failures:failure-report-never-acknowledged".into(), format!("{} handshakes with an altered confirmation, window still open, counter {}", spec.rude, s.failures_at_end)));
        }
        if s.r_sessions.len() > spec.passcodes.len().saturating_sub(spec.rude) {
            v.push(("C02:session-after-an-altered-confirmation".into(), format!("{} sessions at the device, {} handshakes were left alone", s.r_sessions.len(), spec.passcodes.len().saturating_sub(spec.rude))));
        }
    }
    let wrong = spec.passcodes.iter().filter(|p| **p != DEVICE_PASSCODE).count();
    if spec.window_at_start && spec.target.is_none() && spec.window_action.is_none() && wrong >= 20 && s.window_open_at_end {
        v.push(("C02:window-not-revoked-after-20-failures".into(), format!("{} wrong-passcode handshakes, window still open, counter {}", wrong, s.failures_at_end)));
    }
    // (vi) advertisement follows the window
    if let Some(m) = &s.advertised_mismatch {
        v.push((format!("C02:advertisement-does-not-follow-window:{}", tag), m.clone()));
    }
    v
}

fn spec_json(s: &RunSpec) -> Value {
    json!({"passcodes": s.passcodes, "window_at_start": s.window_at_start, "second_initiator": s.second_initiator, "seed": s.seed, "start_delay_s": s.start_delay_s, "poll": s.poll, "rude": s.rude,
        "target": s.target.as_ref().map(|(t, m)| json!({"from": t.from, "opcode": t.opcode, "nth": t.nth, "mutation": format!("{:?}", m)})),
        "window_action": s.window_action.as_ref().map(|(t, a)| json!({"from": t.from, "opcode": t.opcode, "nth": t.nth, "action": format!("{:?}", a)}))})
}

fn replay(ctx: &Ctx, path: &std::path::Path) -> i32 {
    let doc: Value = serde_json::from_str(&std::fs::read_to_string(path).expect("replay file")).expect("json");
    let r = &doc["replay"];
    let tgt = |v: &Value| Target { from: v["from"].as_u64().unwrap() as usize, opcode: v["opcode"].as_u64().unwrap() as u8, nth: v["nth"].as_u64().unwrap() as usize };
    let spec = RunSpec {
        passcodes: r["passcodes"].as_array().unwrap().iter().map(|x| x.as_u64().unwrap() as u32).collect(),
        window_at_start: r["window_at_start"].as_bool().unwrap_or(true),
        second_initiator: r["second_initiator"].as_bool().unwrap_or(false),
        seed: r["seed"].as_u64().unwrap_or(100),
        start_delay_s: r["start_delay_s"].as_u64().unwrap_or(0),
        rude: r["rude"].as_u64().unwrap_or(0) as usize,
        poll: r["poll"].as_bool().unwrap_or(false),
        target: if r["target"].is_null() { None } else { Some((tgt(&r["target"]), parse_mutn(r["target"]["mutation"].as_str().unwrap_or("")))) },
        window_action: if r["window_action"].is_null() {
            None
        } else {
            Some((tgt(&r["window_action"]), match r["window_action"]["action"].as_str() {
                Some("CloseReopen") => WinAct::CloseReopen,
                Some("CloseReopenOtherPasscode") => WinAct::CloseReopenOtherPasscode,
                Some("Expire") => WinAct::Expire,
                Some("ExpireJust") => WinAct::ExpireJust,
                _ => WinAct::Close,
            }))
        },
    };
    std::env::set_var("MC_SHOW_PANICS", "1");
    let other = run(&RunSpec { target: None, window_action: None, seed: spec.seed + 1000, ..spec.clone() }, None).ok();
    let mut report = Report::new();
    match run(&spec, other.as_ref().map(|o| o.wire.as_slice())) {
        Err(e) => println!("run: {}", e),
        Ok(s) => {
            for d in s.wire.iter().take(60) {
                println!("  t={:>10}us {}->{} len {:>4} {}", d.sent_at_us - START_US, d.from, d.to, d.bytes.len(), sc_opcode(&d.bytes).map(|x| format!("SC opcode {:02x}", x.0)).unwrap_or_else(|| "secured".into()));
            }
            println!("results {:?} {:?}\nI sessions {}\nR sessions {} births {:?}\nwindow open at end {} failures {} (max {}) fail-safe armed {}", s.results, s.results2, s.i_sessions.len(), s.r_sessions.len(), s.r_session_births, s.window_open_at_end, s.failures_at_end, s.max_failures_seen, s.failsafe_armed_at_end);
            for (sig, what) in judge(&spec, &s) {
                println!("  {} {}", sig, what);
                report.violation(sig, what, r.clone());
            }
        }
    }
    common::finish(ctx, report, Evidence::new("model_checking"))
}

const M_POINT: [u8; 65] = [
    0x04, 0x88, 0x6e, 0x2f, 0x97, 0xac, 0xe4, 0x6e, 0x55, 0xba, 0x9d, 0xd7, 0x24, 0x25, 0x79, 0xf2, 0x99, 0x3b, 0x64, 0xe1, 0x6e, 0xf3, 0xdc, 0xab, 0x95, 0xaf, 0xd4, 0x97, 0x33, 0x3d, 0x8f, 0xa1, 0x2f,
    0x5f, 0xf3, 0x55, 0x16, 0x3e, 0x43, 0xce, 0x22, 0x4e, 0x0b, 0x0e, 0x65, 0xff, 0x02, 0xac, 0x8e, 0x5c, 0x7b, 0xe0, 0x94, 0x19, 0xc7, 0x85, 0xe0, 0xca, 0x54, 0x7d, 0x55, 0xa1, 0x2e, 0x2d, 0x20,
];
const N_POINT: [u8; 65] = [
    0x04, 0xd8, 0xbb, 0xd6, 0xc6, 0x39, 0xc6, 0x29, 0x37, 0xb0, 0x4d, 0x99, 0x7f, 0x38, 0xc3, 0x77, 0x07, 0x19, 0xc6, 0x29, 0xd7, 0x01, 0x4d, 0x49, 0xa2, 0x4b, 0x4f, 0x98, 0xba, 0xa1, 0x29, 0x2b, 0x49,
    0x07, 0xd6, 0x0a, 0xa6, 0xbf, 0xad, 0xe4, 0x50, 0x08, 0xa6, 0x36, 0x33, 0x7f, 0x51, 0x68, 0xc6, 0x4d, 0x9b, 0xd3, 0x60, 0x34, 0x80, 0x8c, 0xd5, 0x64, 0x49, 0x0b, 0x1e, 0x65, 0x6e, 0xdb, 0xe7,
];

fn special_points() -> Vec<Vec<u8>> {
    let mut v = vec![M_POINT.to_vec(), N_POINT.to_vec()];
    let mut zero = vec![0u8; 65];
    zero[0] = 0x04;
    v.push(zero); // (0,0): not on the curve
    v.push(vec![0u8; 65]); // identity-like encoding
    v.push(vec![0xffu8; 65]);
    let mut wrong_prefix = M_POINT.to_vec();
    wrong_prefix[0] = 0x05;
    v.push(wrong_prefix);
    let mut compressed_prefix = M_POINT.to_vec();
    compressed_prefix[0] = 0x02;
    v.push(compressed_prefix);
    // the P-256 generator
    let g: [u8; 65] = [
        0x04, 0x6b, 0x17, 0xd1, 0xf2, 0xe1, 0x2c, 0x42, 0x47, 0xf8, 0xbc, 0xe6, 0xe5, 0x63, 0xa4, 0x40, 0xf2, 0x77, 0x03, 0x7d, 0x81, 0x2d, 0xeb, 0x33, 0xa0, 0xf4, 0xa1, 0x39, 0x45, 0xd8, 0x98, 0xc2,
        0x96, 0x4f, 0xe3, 0x42, 0xe2, 0xfe, 0x1a, 0x7f, 0x9b, 0x8e, 0xe7, 0xeb, 0x4a, 0x7c, 0x0f, 0x9e, 0x16, 0x2b, 0xce, 0x33, 0x57, 0x6b, 0x31, 0x5e, 0xce, 0xcb, 0xb6, 0x40, 0x68, 0x37, 0xbf, 0x51, 0xf5,
    ];
    v.push(g.to_vec());
    v
}

pub fn run_check(ctx: &Ctx) -> i32 {
    if let Some(p) = &ctx.replay {
        return replay(ctx, p);
    }
    let quick = ctx.tier == Tier::Quick;
    let seed = 300 + ctx.seed;
    let base = RunSpec { passcodes: vec![DEVICE_PASSCODE], window_at_start: true, target: None, window_action: None, second_initiator: false, seed, start_delay_s: 0, poll: false, rude: 0 };
    let mut specs: Vec<RunSpec> = Vec::new();
    // (a) passcode pairs, no window, second initiator
    for pcs in [vec![DEVICE_PASSCODE], vec![DEVICE_PASSCODE - 1], vec![DEVICE_PASSCODE + 1], vec![0], vec![99_999_998], vec![DEVICE_PASSCODE - 1, DEVICE_PASSCODE], vec![1, 2, 3, DEVICE_PASSCODE]] {
        specs.push(RunSpec { passcodes: pcs.clone(), ..base.clone() });
        specs.push(RunSpec { passcodes: pcs, window_at_start: false, ..base.clone() });
    }
    specs.push(RunSpec { second_initiator: true, ..base.clone() });
    // (d) 21 wrong attempts, and 20 wrong + the right one
    specs.push(RunSpec { passcodes: vec![11111111; 21], ..base.clone() });
    let mut p = vec![11111111; 20];
    p.push(DEVICE_PASSCODE);
    specs.push(RunSpec { passcodes: p, ..base.clone() });
    let mut p = vec![11111111; 19];
    p.push(DEVICE_PASSCODE);
    specs.push(RunSpec { passcodes: p, ..base.clone() });

    // (d') rude wrong proofs: the confirmation altered, the failure report never acknowledged
    for n in [1usize, 19, 20, 21] {
        specs.push(RunSpec { passcodes: vec![DEVICE_PASSCODE; n + 1], rude: n, ..base.clone() });
    }
    // honest wire logs for catalogs
    let honest = match run(&base, None) {
        Ok(h) => h,
        Err(e) => {
            eprintln!("MACHINERY: honest PASE run: {}", e);
            return 2;
        }
    };
    let other = run(&RunSpec { seed: seed + 1000, ..base.clone() }, None).unwrap_or_default();
    // (b) attacker moves
    let cat = mutation_catalog_of(&honest.wire, !quick);
    for (t, m) in &cat {
        specs.push(RunSpec { target: Some((t.clone(), m.clone())), ..base.clone() });
    }
    for (op, from) in [(0x22u8, 0usize), (0x23, 1)] {
        for pt in special_points() {
            specs.push(RunSpec { target: Some((Target { from, opcode: op, nth: 0 }, Mutn::ReplaceValue(1, pt))), ..base.clone() });
        }
    }
    // (c) window actions before each handshake datagram
    let drops: Vec<Target> = cat.iter().filter(|(_, m)| *m == Mutn::Drop).map(|(t, _)| t.clone()).collect();
    for t in &drops {
        for a in [WinAct::Close, WinAct::CloseReopen, WinAct::Expire, WinAct::CloseReopenOtherPasscode] {
            specs.push(RunSpec { window_action: Some((t.clone(), a.clone())), ..base.clone() });
            specs.push(RunSpec { window_action: Some((t.clone(), a.clone())), second_initiator: true, ..base.clone() });
            if !quick {
                // crossed with the loss of each handshake datagram
                for d in &drops {
                    specs.push(RunSpec { window_action: Some((t.clone(), a.clone())), target: Some((d.clone(), Mutn::Drop)), ..base.clone() });
                }
            }
        }
    }
    // a handshake that starts late in the window's life, the window expiring (just) before the delivery of
    // each of its datagrams, with and without the application's expiry poll; and the late handshake alone
    let delays: Vec<u64> = if ctx.deep() { (236..=296u64).step_by(4).chain([298, 299]).collect() } else { vec![240, 280, 299] };
    for delay in delays {
        for poll in [false, true] {
            specs.push(RunSpec { start_delay_s: delay, poll, ..base.clone() });
            for t in &drops {
                specs.push(RunSpec { start_delay_s: delay, poll, window_action: Some((t.clone(), WinAct::ExpireJust)), ..base.clone() });
                if !quick {
                    specs.push(RunSpec { start_delay_s: delay, poll, second_initiator: true, window_action: Some((t.clone(), WinAct::ExpireJust)), ..base.clone() });
                    specs.push(RunSpec { start_delay_s: delay, poll, passcodes: vec![DEVICE_PASSCODE - 1, DEVICE_PASSCODE], window_action: Some((t.clone(), WinAct::ExpireJust)), ..base.clone() });
                }
            }
        }
    }

    let results: Vec<(usize, Result<Result<Summary, String>, common::Panic>)> =
        specs.par_iter().enumerate().map(|(k, spec)| (k, common::catch(|| run(spec, Some(other.wire.as_slice()))))).collect();
    let mut report = Report::new();
    let (mut executed, mut na, mut with_session, mut without, mut failures_counted) = (0u64, 0u64, 0u64, 0u64, 0u64);
    let mut outcomes = std::collections::BTreeSet::new();
    for (k, r) in results {
        let spec = &specs[k];
        match r {
            Err(p) => report.violation(format!("C02:panic:{}", p.class()), format!("{}: {}", spec_json(spec), p), spec_json(spec)),
            Ok(Err(e)) if e == "mutation-not-applicable" => na += 1,
            Ok(Err(e)) => {
                eprintln!("MACHINERY: {}: {}", spec_json(spec), e);
                return 2;
            }
            Ok(Ok(s)) => {
                executed += 1;
                let nr = s.r_sessions.iter().filter(|x| !x.reserved).count();
                if nr > 0 {
                    with_session += 1;
                } else {
                    without += 1;
                }
                if s.max_failures_seen > 0 {
                    failures_counted += 1;
                }
                outcomes.insert((nr, s.i_sessions.len(), s.results.clone(), s.window_open_at_end, s.max_failures_seen));
                for (sig, what) in judge(spec, &s) {
                    report.violation(sig, format!("{}: {}", spec_json(spec), what), spec_json(spec));
                }
            }
        }
    }
    let mut ev = Evidence::new("model_checking");
    ev.set("states", json!(outcomes.len()))
        .set("transitions", json!(executed))
        .set("traces_validated_against_impl", json!(executed))
        .set("exhaustive", json!(true))
        .set("samples", json!([spec_json(&specs[specs.len() / 2]), spec_json(&specs[specs.len() - 1])]))
        .set("vacuity", json!({"runs": executed, "mutations_not_applicable": na, "runs_with_a_device_session": with_session, "runs_without": without, "runs_in_which_failures_were_counted": failures_counted, "distinct_end_states": outcomes.len()}))
        .set("rule", json!("passcode catalog x {window, no window}; second concurrent initiator; 19/20/21 wrong attempts; every single attacker move of the C01 catalog on every PASE datagram (thorough: every bit); 9 special / invalid curve points in place of pA and pB; window close / close-and-reopen / expiry placed before the delivery of each handshake datagram (with and without a second initiator; thorough: crossed with the loss of each datagram); handshakes starting 240 / 280 / 299 s (thorough: every 4 s from 236 to 296 s, 298 and 299 s) into the 300 s window with the window expiring just before the delivery of each of their datagrams, with and without the expiry poll. 'states' = distinct (sessions, results, window state, failure counter) end states"));
    ev.assume("cryptographic hardness of SPAKE2+ / PBKDF2 is assumed");
    ev.assume("the expiry poll of `InteractionModel::run` is represented by the harness calling `Pase::check_comm_window_timeout` after every step in the scenarios marked `poll`; in the others an expired window is closed at the next PASE request; the advertisement check compares against `comm_window_state()` at every step, session births are judged against the harness's own account of the window and the clock");
    if report.violations.is_empty() && (executed == 0 || with_session == 0 || without == 0 || failures_counted == 0) {
        eprintln!("MACHINERY: vacuous C02 run");
        return 2;
    }
    common::finish(ctx, report, ev)
}
