//! C01, re-issued credentials: a session is bound to the tags of the certificate that was presented
//! for *it* (a resumed session: for the handshake whose shared secret it resumes).
//!
//! Three real nodes of one fabric. Mode "initiator re-issued": two instances X_a / X_b of the same
//! node id with operational certificates that carry different CASE authenticated tags (the node was
//! re-issued a certificate; the second instance starts without any resumption state) and one
//! responder Y. Mode "responder re-issued": one initiator X and two responders Y_a / Y_b with the
//! same node id and different tags. Every sequence of at most n handshakes over {a, b} is executed
//! (a handshake resumes whenever both ends hold a matching record, otherwise it is a full one - the
//! stack decides). After every handshake the session it created must carry, at each end, the peer's
//! node id and exactly the tags of the certificate the peer instance holds, with equal directional
//! keys at both ends.

use std::cell::RefCell;
use std::rc::Rc;

use embassy_futures::select::select;
use serde_json::{json, Value};

use rs_matter::cert::gen::VALID_FOREVER;
use rs_matter::error::Error;
use rs_matter::respond::Responder;
use rs_matter::sc::case::CaseInitiator;
use rs_matter::sc::SecureChannel;
use rs_matter::transport::exchange::Exchange;
use rs_matter::transport::network::NoNetwork;
use rs_matter::transport::session::SessionMode;
use rs_matter::Matter;

use crate::common::creds;
use crate::common::nodes;
use crate::common::rng::SeededRng;
use crate::common::sim::{addr_of, Exec, Net, Owned};
use crate::common::{hex, vclock, Tier};

const X_NODE: u64 = 0x1111;
const Y_NODE: u64 = 0x2222;
const START_US: u64 = 9_000_000_000;
const T0_S: u64 = 820_454_400;

const CAT_SETS: [&[u32]; 3] = [&[0xABCD_0002, 0x1234_0001], &[0xABCD_0001], &[]];

fn cats3(c: &[u32]) -> [u32; 3] {
    let mut v = [0u32; 3];
    for (i, x) in c.iter().enumerate() {
        v[i] = *x;
    }
    v
}

#[derive(Clone, Debug, PartialEq, Eq)]
struct Sess {
    peer: Option<u64>,
    cats: [u32; 3],
    enc: String,
    dec: String,
    sids: (u16, u16),
}

fn sessions(m: &Matter<'_>) -> Vec<Sess> {
    m.with_state(|state| {
        state
            .verif_sessions()
            .iter()
            .filter_map(|s| match s.get_session_mode() {
                SessionMode::Case { cat_ids, .. } if !s.verif_flags().0 => Some(Sess {
                    peer: s.get_peer_node_id(),
                    cats: *cat_ids,
                    enc: s.get_enc_key().map(|k| hex(k.access())).unwrap_or_default(),
                    dec: s.get_dec_key().map(|k| hex(k.access())).unwrap_or_default(),
                    sids: (s.get_local_sess_id(), s.get_peer_sess_id()),
                }),
                _ => None,
            })
            .collect()
    })
}

fn set_clock(m: &Matter<'_>) {
    use rs_matter::dm::clusters::time_sync::{GranularityEnum, TimeSourceEnum};
    m.with_rtc(|rtc| {
        rtc.set_utc_time(T0_S * 1_000_000, GranularityEnum::MicrosecondsGranularity, TimeSourceEnum::Admin, &());
    });
}

/// One scenario; returns (violations, handshakes run, sessions judged, resumptions seen)
fn scenario(initiator_reissued: bool, ca: usize, cb: usize, steps: &[u8], seed: u64) -> Result<(Vec<(String, String)>, u64, u64, u64), String> {
    vclock::reset(START_US);
    let c = nodes::crypto(SeededRng::new(seed));
    let e = |x: Error| format!("{:?}", x.code());
    let fab = creds::mint_fabric(&c, 1, false, VALID_FOREVER, 0xA1).map_err(e)?;
    let net = Net::new(3);
    // node 1 is the single one; nodes 0 and 2 are the two instances a / b of the re-issued identity
    let single_node = if initiator_reissued { Y_NODE } else { X_NODE };
    let twin_node = if initiator_reissued { X_NODE } else { Y_NODE };
    let ms: Vec<Owned<Matter<'static>>> = (0..3).map(|_| Owned::from_box(nodes::new_matter())).collect();
    let twin_cats = [CAT_SETS[ca], CAT_SETS[cb]];
    let mut fab_idx = Vec::new();
    for (k, m) in ms.iter().enumerate() {
        set_clock(m.get());
        let (node, cats): (u64, &[u32]) = match k {
            1 => (single_node, &[0x7777_0001]),
            0 => (twin_node, twin_cats[0]),
            _ => (twin_node, twin_cats[1]),
        };
        let nc = creds::mint_noc(&c, &fab, node, cats, VALID_FOREVER, None).map_err(e)?;
        fab_idx.push(creds::install(m.get(), &c, &fab, &nc, 0xAD).map_err(e)?);
    }
    let mut exec = Exec::new();
    // who responds / who initiates
    let responders: Vec<usize> = if initiator_reissued { vec![1] } else { vec![0, 2] };
    let mut tasks: Vec<Option<usize>> = vec![None, None, None];
    for &k in &responders {
        let m = ms[k].get();
        let (send, recv) = (net.end(k), net.end(k));
        tasks[k] = Some(exec.spawn("responder", async move {
            let c = nodes::crypto(SeededRng::new(seed + 20 + k as u64));
            let sc = SecureChannel::new(&c, &());
            let responder = Responder::new("R", sc, m, 0);
            let _ = select(m.run(&c, send, recv, NoNetwork), responder.run::<2>()).await;
        }));
    }
    exec.run()?;
    let mut violations = Vec::new();
    let (mut handshakes, mut judged, mut resumed) = (0u64, 0u64, 0u64);
    for (n, step) in steps.iter().enumerate() {
        let twin = if *step == 0 { 0usize } else { 2 };
        let (ini, rsp) = if initiator_reissued { (twin, 1usize) } else { (1usize, twin) };
        let (mi, mr) = (ms[ini].get(), ms[rsp].get());
        let (before_i, before_r) = (sessions(mi), sessions(mr));
        let log_before = net.0.borrow().log.len();
        if let Some(t) = tasks[ini].take() {
            exec.cancel(t);
        }
        let out: Rc<RefCell<Option<Result<(), String>>>> = Rc::new(RefCell::new(None));
        {
            let (send, recv) = (net.end(ini), net.end(ini));
            let out2 = out.clone();
            let fi = fab_idx[ini];
            let peer_node = if initiator_reissued { Y_NODE } else { Y_NODE };
            let s2 = seed + 100 + n as u64 * 7 + ini as u64;
            tasks[ini] = Some(exec.spawn("initiator", async move {
                let c = nodes::crypto(SeededRng::new(s2));
                let client = async {
                    let r: Result<(), Error> = async {
                        let exchange = Exchange::initiate_plaintext(mi, &c, addr_of(rsp)).await?;
                        CaseInitiator::perform(exchange, &c, fi, peer_node).await
                    }
                    .await;
                    *out2.borrow_mut() = Some(r.map_err(|e| format!("{:?}", e.code())));
                    core::future::pending::<()>().await
                };
                let _ = select(mi.run(&c, send, recv, NoNetwork), client).await;
            }));
        }
        exec.run()?;
        let deadline = vclock::now() + 60_000_000;
        let mut quiet_since: Option<u64> = None;
        for _ in 0..5000 {
            if net.inflight_len() > 0 {
                vclock::advance_by_ms(1);
                net.deliver(0, false);
                quiet_since = None;
            } else if out.borrow().is_some() {
                // let the acknowledgements and the responder's bookkeeping settle
                let q = *quiet_since.get_or_insert(vclock::now());
                if vclock::now() >= q + 2_000_000 {
                    break;
                }
                match vclock::next_deadline() {
                    Some(t) if t <= q + 2_000_000 => vclock::advance_to(t),
                    _ => vclock::advance_to(q + 2_000_000),
                }
            } else if let Some(t) = vclock::next_deadline() {
                if t > deadline {
                    break;
                }
                vclock::advance_to(t);
            } else {
                break;
            }
            exec.run()?;
        }
        handshakes += 1;
        let label = format!("{}:{}", if initiator_reissued { "initiator-re-issued" } else { "responder-re-issued" }, if steps[..n].contains(step) { "repeat" } else { "first" });
        let res = out.borrow().clone();
        if res != Some(Ok(())) {
            violations.push((format!("C01:re-issued:handshake-failed:{}", label), format!("step {} ({}): result {:?}", n, step, res)));
            continue;
        }
        // was this a resumption? (a Sigma2Resume, opcode 0x33, on the wire)
        let was_resumption = net.0.borrow().log[log_before..].iter().any(|d| super::c01::sc_opcode(&d.bytes).map(|x| x.0) == Some(0x33));
        if was_resumption {
            resumed += 1;
        }
        let kind = if was_resumption { "resumed" } else { "full" };
        let new_i: Vec<Sess> = sessions(mi).into_iter().filter(|s| !before_i.contains(s)).collect();
        let new_r: Vec<Sess> = sessions(mr).into_iter().filter(|s| !before_r.contains(s)).collect();
        if new_i.len() != 1 || new_r.len() != 1 {
            violations.push((format!("C01:re-issued:not-one-new-session-per-end:{}", label), format!("step {}: new at initiator {:?}, new at responder {:?}", n, new_i, new_r)));
            continue;
        }
        judged += 1;
        let (si, sr) = (&new_i[0], &new_r[0]);
        let ini_cats = cats3(if ini == 1 { &[0x7777_0001] } else { twin_cats[if ini == 0 { 0 } else { 1 }] });
        let rsp_cats = cats3(if rsp == 1 { &[0x7777_0001] } else { twin_cats[if rsp == 0 { 0 } else { 1 }] });
        if sr.peer != Some(X_NODE) || sr.cats != ini_cats {
            violations.push((format!("C01:re-issued:responder-session-bound-to-tags-the-peer's-certificate-does-not-carry:{}:{}", kind, label), format!("steps {:?}, step {}: the responder's new session has peer {:x?} tags {:x?}; the initiator's certificate carries {:x?}", steps, n, sr.peer, sr.cats, ini_cats)));
        }
        if si.peer != Some(Y_NODE) || si.cats != rsp_cats {
            violations.push((format!("C01:re-issued:initiator-session-bound-to-tags-the-peer's-certificate-does-not-carry:{}:{}", kind, label), format!("steps {:?}, step {}: the initiator's new session has peer {:x?} tags {:x?}; the responder's certificate carries {:x?}", steps, n, si.peer, si.cats, rsp_cats)));
        }
        if si.enc != sr.dec || si.dec != sr.enc || si.sids != (sr.sids.1, sr.sids.0) {
            violations.push((format!("C01:re-issued:keys-or-session-ids-differ:{}:{}", kind, label), format!("steps {:?}, step {}: initiator {:?} responder {:?}", steps, n, si, sr)));
        }
    }
    for t in tasks.into_iter().flatten() {
        exec.cancel(t);
    }
    drop(exec);
    Ok((violations, handshakes, judged, resumed))
}

pub fn replay(doc: &Value) -> Result<Vec<(String, String)>, String> {
    let r = &doc["reissued"];
    let steps: Vec<u8> = r["steps"].as_array().map(|a| a.iter().map(|x| x.as_u64().unwrap_or(0) as u8).collect()).unwrap_or_default();
    scenario(r["initiator_reissued"].as_bool().unwrap_or(true), r["ca"].as_u64().unwrap_or(0) as usize, r["cb"].as_u64().unwrap_or(1) as usize, &steps, r["seed"].as_u64().unwrap_or(1)).map(|x| x.0)
}

/// (violations with their replay labels, handshakes, sessions judged, resumptions)
#[allow(clippy::type_complexity)]
pub fn sweep(tier: Tier, seed: u64) -> Result<(Vec<(String, String, Value)>, u64, u64, u64), String> {
    use rayon::prelude::*;
    let len = if tier == Tier::Quick { 3 } else { 5 };
    let mut cases = Vec::new();
    for mode in [true, false] {
        for ca in 0..3usize {
            for cb in 0..3usize {
                if ca == cb {
                    continue;
                }
                for l in 2..=len {
                    for bits in 0..(1u32 << l) {
                        let steps: Vec<u8> = (0..l).map(|i| ((bits >> i) & 1) as u8).collect();
                        cases.push((mode, ca, cb, steps));
                    }
                }
            }
        }
    }
    let results: Vec<_> = cases
        .par_iter()
        .map(|(mode, ca, cb, steps)| {
            let r = crate::common::catch(|| scenario(*mode, *ca, *cb, steps, 700 + seed));
            (json!({"reissued": {"initiator_reissued": mode, "ca": ca, "cb": cb, "steps": steps, "seed": 700 + seed}}), r)
        })
        .collect();
    let mut out = Vec::new();
    let (mut h, mut j, mut rs) = (0u64, 0u64, 0u64);
    for (label, r) in results {
        match r {
            Err(p) => out.push((format!("C01:re-issued:panic:{}", p.class()), p.to_string(), label)),
            Ok(Err(e)) => return Err(e),
            Ok(Ok((v, hh, jj, rr))) => {
                h += hh;
                j += jj;
                rs += rr;
                for (sig, what) in v {
                    out.push((sig, what, label.clone()));
                }
            }
        }
    }
    Ok((out, h, j, rs))
}
