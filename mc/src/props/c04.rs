//! C04 — a message counter is accepted at most once per secure peer; newer ones always.
//!
//! E2 (explicit-state BFS, states rebuilt by re-execution) over histories of offered counter
//! values, on the *real* receive window of a real `Session` (unicast, through the
//! `verif_rx_ctr` hook which calls the very `post_recv` the transport calls) and on the real
//! `GroupCtrStore` (groups), against a boring reference model (a set of accepted counters).

use std::collections::{BTreeMap, BTreeSet};

use serde_json::{json, Value};

use rs_matter::transport::network::Address;
use rs_matter::transport::session::Session;
use rs_matter::transport::verif::GroupCtrStore;

use crate::common::{self, e2, Ctx, Evidence, Report, Tier};

const WINDOW: u64 = 16;

#[derive(Clone, Copy, PartialEq, Eq, Hash, Debug)]
enum Mode {
    UniEnc,
    UniPlain,
}

impl Mode {
    fn name(&self) -> &'static str {
        match self {
            Mode::UniEnc => "unicast-enc",
            Mode::UniPlain => "unicast-plain",
        }
    }
}

#[derive(Clone, Copy, Debug, PartialEq, Eq)]
enum Expect {
    Accept(&'static str),
    Reject(&'static str),
    Any,
}

/// Reference model of one unicast receive window: the set of accepted counters.
#[derive(Default, Clone)]
struct RefUni {
    accepted: BTreeSet<u32>,
    max: Option<u32>,
    /// values whose status the property leaves open (window below a restarted counter)
    dontcare: BTreeSet<u32>,
    /// successive maxima (for classifying a violation)
    maxima: Vec<u32>,
}

impl RefUni {
    fn expect(&self, c: u32, encrypted: bool) -> Expect {
        let Some(max) = self.max else {
            return Expect::Accept("first-message-of-session");
        };
        if self.dontcare.contains(&c) {
            return Expect::Any;
        }
        if c > max {
            return Expect::Accept("greater-than-all-accepted");
        }
        if self.accepted.contains(&c) && (max - c) as u64 <= WINDOW {
            return Expect::Reject("already-accepted");
        }
        if (max - c) as u64 > WINDOW {
            if encrypted {
                return Expect::Reject("older-than-window");
            } else {
                return Expect::Accept("restart-of-unsecured-peer");
            }
        }
        Expect::Accept("unseen-in-window")
    }

    fn apply(&mut self, c: u32, accepted: bool, encrypted: bool) {
        if !accepted {
            return;
        }
        self.dontcare.remove(&c);
        match self.max {
            None => {
                self.max = Some(c);
                self.maxima.push(c);
                self.accepted.insert(c);
            }
            Some(max) => {
                if c > max {
                    self.max = Some(c);
                    self.maxima.push(c);
                    self.accepted.insert(c);
                } else if (max - c) as u64 <= WINDOW {
                    self.accepted.insert(c);
                } else if !encrypted {
                    // restart of the peer's counter: what lies below is left open by the property
                    self.accepted.clear();
                    self.dontcare.clear();
                    for k in 1..=WINDOW as u32 {
                        if let Some(v) = c.checked_sub(k) {
                            self.dontcare.insert(v);
                        }
                    }
                    self.accepted.insert(c);
                    self.max = Some(c);
                    self.maxima.clear();
                    self.maxima.push(c);
                } else {
                    // an older-than-window value was accepted: violation reported by caller
                    self.accepted.insert(c);
                }
            }
        }
    }

    /// Why was an unseen in-window value refused? Classify for the signature.
    fn classify_unseen(&self, c: u32) -> &'static str {
        if let Some(first) = self.maxima.first() {
            if c < *first {
                return "before-first-message-of-session";
            }
        }
        for w in self.maxima.windows(2) {
            if w[0] < c && c < w[1] && (w[1] - w[0]) as u64 >= WINDOW {
                return "overtaken-by-forward-jump>=16";
            }
        }
        "other"
    }
}

struct Uni {
    mode: Mode,
    sess: Session,
    refm: RefUni,
    trace: Vec<(u32, bool)>,
}

fn fresh_session() -> Session {
    Session::new(1, 1, false, Address::new(), None, 300, 300, 4000)
}

impl Uni {
    fn new(mode: Mode) -> Self {
        Self {
            mode,
            sess: fresh_session(),
            refm: RefUni::default(),
            trace: Vec::new(),
        }
    }

    fn encrypted(&self) -> bool {
        self.mode == Mode::UniEnc
    }

    /// Offer `c` to the real window; returns (verdict, expectation).
    fn offer(&mut self, c: u32) -> (Result<bool, common::Panic>, Expect) {
        let exp = self.refm.expect(c, self.encrypted());
        let enc = self.encrypted();
        let sess = &mut self.sess;
        let got = common::catch(|| sess.verif_rx_ctr(c, enc));
        if let Ok(b) = got {
            self.trace.push((c, b));
        }
        (got, exp)
    }
}

const BIG: i64 = 1 << 31;

fn deltas() -> Vec<i64> {
    let mut v: Vec<i64> = Vec::new();
    // simplest first: small forward, small backward, then window edges, then huge
    for d in 1..=18 {
        v.push(d);
    }
    v.push(0);
    for d in 1..=18 {
        v.push(-d);
    }
    v.extend_from_slice(&[20, 31, 32, 33, 40, -20, -31, -32, -33, -40]);
    v.extend_from_slice(&[BIG - 1, BIG, BIG + 1, -(BIG - 1), -BIG, -(BIG + 1)]);
    v
}

fn first_values() -> Vec<u32> {
    vec![
        1000,
        1,
        0,
        15,
        16,
        17,
        (1 << 28) - 1,
        (1u32 << 31) - 1,
        1u32 << 31,
        u32::MAX - 17,
        u32::MAX - 1,
        u32::MAX,
    ]
}

fn uni_ops(s: &Uni) -> Vec<u32> {
    match s.refm.max {
        None => first_values(),
        Some(max) => {
            let mut out = Vec::new();
            for d in deltas() {
                let c = max as i64 + d;
                if (0..=u32::MAX as i64).contains(&c) {
                    out.push(c as u32);
                }
            }
            for a in [0u32, 1, u32::MAX] {
                if !out.contains(&a) {
                    out.push(a);
                }
            }
            out
        }
    }
}

fn uni_build(mode: Mode, hist: &[u32]) -> Uni {
    let mut s = Uni::new(mode);
    for &c in hist {
        let (got, _) = s.offer(c);
        let enc = s.encrypted();
        if let Ok(b) = got {
            s.refm.apply(c, b, enc);
        }
    }
    s
}

fn uni_key(s: &Uni) -> (u8, u32, u16, u8, u64, u64, Vec<i32>, Vec<i32>) {
    let (imax, ibm) = s.sess.verif_rx_ctr_state();
    let (rel, dc, lo, hi, synced) = match s.refm.max {
        None => (vec![], vec![], 0, 0, 0u8),
        Some(max) => {
            let rel: Vec<i32> = s
                .refm
                .accepted
                .iter()
                .filter(|&&a| a <= max && (max - a) as u64 <= WINDOW)
                .map(|&a| (max - a) as i32)
                .collect();
            let dc: Vec<i32> = s
                .refm
                .dontcare
                .iter()
                .filter(|&&a| a <= max && (max - a) as u64 <= WINDOW)
                .map(|&a| (max - a) as i32)
                .collect();
            (
                rel,
                dc,
                (max as u64).min(64),
                ((u32::MAX - max) as u64).min(64),
                1 + (imax == max) as u8,
            )
        }
    };
    // before the first message the implementation's own (max,bitmap) is part of the state
    let imax_key = if s.refm.max.is_none() { imax } else { 0 };
    (s.mode as u8, imax_key, ibm, synced, lo, hi, rel, dc)
}

fn check_uni_step(
    s: &mut Uni,
    c: u32,
    hist: &[u32],
    report: &mut Report,
) -> bool {
    let (got, exp) = s.offer(c);
    let enc = s.encrypted();
    let mode = s.mode.name();
    let mut h: Vec<u32> = hist.to_vec();
    h.push(c);
    let replay = json!({"harness": mode, "counters": h});
    match got {
        Err(msg) => {
            report.violation(
                format!("C04:{}:panic:{}", mode, msg.class()),
                format!("post_recv({}) panicked after {:?}: {}", c, hist, msg),
                replay,
            );
            false
        }
        Ok(b) => {
            let ok = match exp {
                Expect::Any => true,
                Expect::Accept(_) => b,
                Expect::Reject(_) => !b,
            };
            if !ok {
                let sig = match exp {
                    Expect::Accept("unseen-in-window") => format!(
                        "C04:{}:unseen-in-window-rejected:{}",
                        mode,
                        s.refm.classify_unseen(c)
                    ),
                    Expect::Accept(why) => format!("C04:{}:{}-rejected", mode, why),
                    Expect::Reject(why) => format!("C04:{}:{}-accepted", mode, why),
                    Expect::Any => unreachable!(),
                };
                report.violation(
                    sig,
                    format!(
                        "history {:?} then counter {}: implementation {} it, reference expects {:?}",
                        hist,
                        c,
                        if b { "accepted" } else { "rejected" },
                        exp
                    ),
                    replay,
                );
                return false;
            }
            s.refm.apply(c, b, enc);
            true
        }
    }
}

// ---------------------------------------------------------------------------------------
// Groups

type Sender = (u8, u64);

#[derive(Clone, Default)]
struct RefSender {
    ctr_max: u32,
    pos_max: i128,
    accepted: BTreeSet<i128>,
}

struct Grp {
    store: GroupCtrStore,
    refs: BTreeMap<Sender, RefSender>,
}

fn sender_id(k: usize) -> Sender {
    // senders 0 and 1 share a node id across two fabrics, 2 and 3 share a fabric
    match k {
        0 => (1, 0x1111),
        1 => (2, 0x1111),
        _ => (1, 0x2000 + k as u64),
    }
}

impl Grp {
    fn new() -> Self {
        Self {
            store: GroupCtrStore::new(),
            refs: BTreeMap::new(),
        }
    }

    fn tracked(&self) -> BTreeMap<Sender, (u32, u16)> {
        self.store
            .verif_tracked()
            .map(|(f, n, m, b)| ((f, n), (m, b)))
            .collect()
    }
}

#[derive(Clone, Copy, Debug, PartialEq, Eq, Hash)]
struct GOp {
    sender: usize,
    ctr: u32,
}

fn grp_expect(r: Option<&RefSender>, c: u32) -> (Expect, i128) {
    let Some(r) = r else {
        return (Expect::Accept("new-sender"), 0);
    };
    let f = c.wrapping_sub(r.ctr_max);
    if f == 0 {
        return (Expect::Reject("already-accepted"), r.pos_max);
    }
    if f <= i32::MAX as u32 {
        return (Expect::Accept("greater-than-all-accepted"), r.pos_max + f as i128);
    }
    if f == 1u32 << 31 {
        return (Expect::Any, r.pos_max - (1i128 << 31));
    }
    let b = r.ctr_max.wrapping_sub(c) as i128;
    let pos = r.pos_max - b;
    if b as u64 > WINDOW {
        (Expect::Reject("older-than-window"), pos)
    } else if r.accepted.contains(&pos) {
        (Expect::Reject("already-accepted"), pos)
    } else {
        (Expect::Any, pos)
    }
}

fn check_grp_step(s: &mut Grp, op: GOp, hist: &[GOp], report: &mut Report) -> bool {
    let sender = sender_id(op.sender);
    let before = s.tracked();
    // A sender the implementation no longer tracks is a new sender again.
    if !before.contains_key(&sender) {
        s.refs.remove(&sender);
    }
    let (exp, pos) = grp_expect(s.refs.get(&sender), op.ctr);
    let store = &mut s.store;
    let got = common::catch(|| store.post_recv(sender.0, sender.1, op.ctr));
    let mut h: Vec<Value> = hist
        .iter()
        .map(|o| json!([o.sender, o.ctr]))
        .collect();
    h.push(json!([op.sender, op.ctr]));
    let replay = json!({"harness": "group", "ops": h});
    let b = match got {
        Err(msg) => {
            report.violation(
                format!("C04:group:panic:{}", msg.class()),
                format!("GroupCtrStore::post_recv panicked: {}", msg),
                replay,
            );
            return false;
        }
        Ok(b) => b,
    };
    let ok = match exp {
        Expect::Any => true,
        Expect::Accept(_) => b,
        Expect::Reject(_) => !b,
    };
    if !ok {
        let sig = match exp {
            Expect::Accept(why) => format!("C04:group:{}-rejected", why),
            Expect::Reject(why) => format!("C04:group:{}-accepted", why),
            Expect::Any => unreachable!(),
        };
        report.violation(
            sig,
            format!(
                "group history {:?} then sender {} counter {}: implementation {} it, reference expects {:?}",
                hist.iter().map(|o| (o.sender, o.ctr)).collect::<Vec<_>>(),
                op.sender,
                op.ctr,
                if b { "accepted" } else { "rejected" },
                exp
            ),
            replay,
        );
        return false;
    }
    let after = s.tracked();
    // Table invariants: only a *new* sender arriving at a *full* table may evict, and it evicts one.
    let lost: Vec<&Sender> = before.keys().filter(|k| !after.contains_key(*k)).collect();
    let was_new = !before.contains_key(&sender);
    let legal_evictions = if was_new && before.len() >= 16 { 1 } else { 0 };
    if lost.len() > legal_evictions || lost.contains(&&sender) {
        report.violation(
            "C04:group:tracked-sender-lost",
            format!("senders {:?} dropped from the table without need", lost),
            replay,
        );
        return false;
    }
    if !after.contains_key(&sender) {
        report.violation(
            "C04:group:sender-not-tracked-after-accept",
            format!("sender {:?} not tracked after its message", sender),
            replay,
        );
        return false;
    }
    // update reference
    if b {
        let now_max = after[&sender].0;
        match s.refs.get_mut(&sender) {
            None => {
                let mut r = RefSender {
                    ctr_max: op.ctr,
                    pos_max: 0,
                    accepted: BTreeSet::new(),
                };
                r.accepted.insert(0);
                s.refs.insert(sender, r);
            }
            Some(r) => {
                let f = op.ctr.wrapping_sub(r.ctr_max);
                let forward = if f == 1u32 << 31 {
                    now_max == op.ctr
                } else {
                    f >= 1 && f <= i32::MAX as u32
                };
                if forward {
                    r.pos_max += f as i128;
                    r.ctr_max = op.ctr;
                    let pm = r.pos_max;
                    r.accepted.insert(pm);
                    let lo = pm - WINDOW as i128;
                    r.accepted.retain(|p| *p >= lo);
                } else {
                    r.accepted.insert(pos);
                }
            }
        }
    }
    true
}

fn grp_build(hist: &[GOp]) -> Grp {
    let mut s = Grp::new();
    let mut scratch = Report::new();
    let mut done: Vec<GOp> = Vec::new();
    for op in hist {
        check_grp_step(&mut s, *op, &done, &mut scratch);
        done.push(*op);
    }
    s
}

fn grp_key(s: &Grp) -> Vec<(u8, u64, u16, u64, Vec<i64>)> {
    // table order matters for LRU only through `last_used`, which follows history order; the
    // projection keeps table order (over-fine is safe) and relative windows.
    s.store
        .verif_tracked()
        .map(|(f, n, m, b)| {
            let r = s.refs.get(&(f, n));
            let rel: Vec<i64> = r
                .map(|r| r.accepted.iter().map(|p| (r.pos_max - p) as i64).collect())
                .unwrap_or_default();
            let same = r.map(|r| r.ctr_max == m).unwrap_or(false) as u64;
            (f, n, b, same, rel)
        })
        .collect()
}

fn grp_ops(senders: &[usize], s: &Grp) -> Vec<GOp> {
    let mut out = Vec::new();
    let gd: [i64; 16] = [
        1,
        2,
        16,
        17,
        0,
        -1,
        -2,
        -16,
        -17,
        BIG - 1,
        BIG,
        BIG + 1,
        -(BIG - 1),
        18,
        -15,
        15,
    ];
    for &k in senders {
        let id = sender_id(k);
        match s.refs.get(&id) {
            Some(r) if s.tracked().contains_key(&id) => {
                for d in gd {
                    let c = (r.ctr_max as i64).wrapping_add(d) as u32; // modular
                    out.push(GOp { sender: k, ctr: c });
                }
            }
            _ => {
                for c in [100u32, 0, u32::MAX, u32::MAX - 8] {
                    out.push(GOp { sender: k, ctr: c });
                }
            }
        }
    }
    out
}

// ---------------------------------------------------------------------------------------

fn replay(ctx: &Ctx, path: &std::path::Path) -> i32 {
    let doc: Value = serde_json::from_str(&std::fs::read_to_string(path).expect("replay file")).expect("json");
    let r = &doc["replay"];
    let harness = r["harness"].as_str().unwrap_or("");
    let mut report = Report::new();
    match harness {
        "unicast-enc" | "unicast-plain" => {
            let mode = if harness == "unicast-enc" { Mode::UniEnc } else { Mode::UniPlain };
            let ctrs: Vec<u32> = r["counters"].as_array().unwrap().iter().map(|v| v.as_u64().unwrap() as u32).collect();
            let mut s = Uni::new(mode);
            let mut hist = Vec::new();
            for c in ctrs {
                let before = s.sess.verif_rx_ctr_state();
                let exp = s.refm.expect(c, s.encrypted());
                let ok = check_uni_step(&mut s, c, &hist, &mut report);
                let after = s.sess.verif_rx_ctr_state();
                println!(
                    "offer {:>10}  window (max={}, bitmap={:#06x}) -> (max={}, bitmap={:#06x})  verdict={:?} expected={:?} {}",
                    c, before.0, before.1, after.0, after.1, s.trace.last().map(|t| t.1), exp,
                    if ok { "" } else { "<== VIOLATION" }
                );
                hist.push(c);
            }
        }
        "group" => {
            let mut s = Grp::new();
            let mut hist = Vec::new();
            for o in r["ops"].as_array().unwrap() {
                let op = GOp { sender: o[0].as_u64().unwrap() as usize, ctr: o[1].as_u64().unwrap() as u32 };
                let ok = check_grp_step(&mut s, op, &hist, &mut report);
                println!("sender {} ctr {} {}", op.sender, op.ctr, if ok { "ok" } else { "<== VIOLATION" });
                hist.push(op);
            }
        }
        _ => {
            eprintln!("MACHINERY: unknown harness in replay");
            return 2;
        }
    }
    let ev = Evidence::new("model_checking");
    common::finish(ctx, report, ev)
}

pub fn run(ctx: &Ctx) -> i32 {
    if let Some(p) = &ctx.replay {
        return replay(ctx, p);
    }
    let (uni_depth, grp_depth, evict_depth) = match ctx.tier {
        Tier::Quick => (4, 4, 3),
        Tier::Thorough => (6, 5, 4),
    };
    let mut report = Report::new();
    let mut total_states = 0u64;
    let mut total_transitions = 0u64;
    let mut per = Vec::new();
    let mut samples: Vec<Value> = Vec::new();
    let mut accepted_in_window_hits = 0u64;
    let mut jump_ge16_hits = 0u64;

    for mode in [Mode::UniEnc, Mode::UniPlain] {
        let stats = {
            let report = std::cell::RefCell::new(&mut report);
            let hits = std::cell::Cell::new((0u64, 0u64));
            let st = e2::bfs(
                vec![vec![]],
                uni_depth,
                |h: &[u32]| uni_build(mode, h),
                |s| uni_ops(s),
                |s, &c, hist| {
                    let pre_max = s.refm.max;
                    let ok = check_uni_step(s, c, hist, &mut report.borrow_mut());
                    if let Some(m) = pre_max {
                        let (a, j) = hits.get();
                        let inwin = c < m && ((m - c) as u64) <= WINDOW;
                        let jump = c > m && ((c - m) as u64) >= WINDOW;
                        hits.set((a + inwin as u64, j + jump as u64));
                    }
                    ok
                },
                |s| uni_key(s),
            );
            let (a, j) = hits.get();
            accepted_in_window_hits += a;
            jump_ge16_hits += j;
            st
        };
        total_states += stats.states;
        total_transitions += stats.transitions;
        per.push(json!({"harness": mode.name(), "depth": uni_depth, "states": stats.states, "transitions": stats.transitions, "max_depth": stats.max_depth}));
    }
    // sample: one concrete default history
    {
        let s = uni_build(Mode::UniEnc, &[1000, 1001, 1003, 1002, 1020, 1010]);
        samples.push(json!({"harness": "unicast-enc", "offered": s.trace.iter().map(|t| json!([t.0, t.1])).collect::<Vec<_>>() }));
    }

    // groups: (a) one/two/three senders from the empty table
    {
        let senders = [0usize, 1, 2];
        let report_c = std::cell::RefCell::new(&mut report);
        let stats = e2::bfs(
            vec![vec![]],
            grp_depth,
            |h: &[GOp]| grp_build(h),
            |s| grp_ops(&senders, s),
            |s, op, hist| check_grp_step(s, *op, hist, &mut report_c.borrow_mut()),
            |s| grp_key(s),
        );
        total_states += stats.states;
        total_transitions += stats.transitions;
        per.push(json!({"harness": "group-3-senders", "depth": grp_depth, "states": stats.states, "transitions": stats.transitions, "max_depth": stats.max_depth}));
    }
    // (b) table filled with 15, 16 senders, then up to 2 new senders + LRU / MRU / middle ones
    {
        let mut roots = Vec::new();
        for n in [15usize, 16] {
            let mut h = Vec::new();
            for k in 0..n {
                h.push(GOp { sender: k, ctr: 1000 + k as u32 });
            }
            roots.push(h.clone());
            // variant: the oldest sender refreshed, so LRU is sender 1
            h.push(GOp { sender: 0, ctr: 2000 });
            roots.push(h);
        }
        let senders = [0usize, 1, 14, 15, 16, 17];
        let report_c = std::cell::RefCell::new(&mut report);
        let stats = e2::bfs(
            roots,
            evict_depth,
            |h: &[GOp]| grp_build(h),
            |s| grp_ops(&senders, s),
            |s, op, hist| check_grp_step(s, *op, hist, &mut report_c.borrow_mut()),
            |s| grp_key(s),
        );
        total_states += stats.states;
        total_transitions += stats.transitions;
        per.push(json!({"harness": "group-full-table-evictions", "depth_after_fill": evict_depth, "states": stats.states, "transitions": stats.transitions, "max_depth": stats.max_depth}));
        samples.push(json!({"harness": "group", "root": "15 senders tracked, then BFS over senders [0,1,14,15,16(new),17(new)] x counter deltas"}));
    }

    let mut ev = Evidence::new("model_checking");
    ev.set("states", json!(total_states))
        .set("transitions", json!(total_transitions))
        .set("traces_validated_against_impl", json!(total_transitions))
        .set("samples", Value::Array(samples))
        .set("per_harness", Value::Array(per))
        .set("exhaustive", json!(true))
        .set(
            "rule",
            json!("BFS over all histories of offered counters up to the stated depth; alphabet = first values {0,1,15,16,17,1000,2^28-1,2^31-1,2^31,2^32-18..2^32-1} then max+d for d in {-18..18, +-20, +-31..33, +-40, +-(2^31-1), +-2^31, +-(2^31+1)} plus absolute 0,1,2^32-1; every transition executes the real post_recv and is compared with the reference set model; states deduplicated on (real bitmap, reference window relative to max, distance of max to 0 and 2^32-1 capped at 64)"),
        )
        .set("vacuity", json!({"offers_inside_window": accepted_in_window_hits, "forward_jumps_ge_16": jump_ge16_hits}));
    ev.assume("the receive window is reached only through Session::post_recv / GroupCtrStore::post_recv (hook calls the same method with the same arguments)");
    ev.assume("state abstraction: behaviour depends on the absolute maximum only through its distance (capped at 64) to 0 and 2^32-1");
    ev.assume("group in-window not-yet-accepted values and the antipode (distance exactly 2^31) are left open by the property; the oracle adopts the implementation's verdict there and then holds it to 'never twice'");
    if report.violations.is_empty() && (accepted_in_window_hits == 0 || jump_ge16_hits == 0) {
        eprintln!("MACHINERY: vacuous exploration (no in-window offers or no jumps)");
        return 2;
    }
    common::finish(ctx, report, ev)
}
