//! C11 — persisted state survives a crash at any point and reloads to what was committed.
//!
//! The C08 world and its explicit-state BFS over administrative histories. After every operation
//! the key-value store's operation log is cut at every point inside that operation (a crash
//! between two store operations) and a fresh node is started from each such store: it must
//! start, and come up with either the configuration before or the configuration after the
//! operation. At the end of every history: a node restarted from the store reads back exactly
//! the configuration in memory; nine kinds of damaged session-resumption blobs do not change what
//! the node starts with; a factory reset leaves no key behind. (That a restart yields exactly the
//! last *acknowledged* configuration is the C08 oracle on the same histories.)

use serde_json::{json, Value};

use super::c08::{self, Op};
use crate::common::{self, Ctx, Evidence, Report, Tier};

fn two_fabrics() -> Vec<Op> {
    let mut v = c08::honest_prefix();
    v.extend([Op::OpenWindowC(1), Op::ArmP, Op::CsrP, Op::RootP, Op::AddNocP, Op::CompleteC(2)]);
    v
}

pub fn run_check(ctx: &Ctx) -> i32 {
    if let Some(p) = &ctx.replay {
        let doc: Value = serde_json::from_str(&std::fs::read_to_string(p).expect("replay file")).expect("json");
        std::env::set_var("MC_SHOW_PANICS", "1");
        let hist: Vec<Op> = doc["replay"]["history"].as_array().unwrap().iter().filter_map(|s| c08::parse_op(s.as_str().unwrap_or(""))).collect();
        let mut report = Report::new();
        match c08::execute_mode(&hist, 11) {
            Err(e) => {
                eprintln!("MACHINERY: {}", e);
                return 2;
            }
            Ok((_, v, _)) => {
                for (sig, what) in v {
                    println!("  {} {}", sig, what);
                    report.violation(sig, what, doc["replay"].clone());
                }
            }
        }
        return common::finish(ctx, report, Evidence::new("model_checking"));
    }
    let (d1, d2) = if ctx.tier == Tier::Quick { (4, 2) } else { (6, 4) };
    let mut report = Report::new();
    let (mut states, mut transitions) = (0usize, 0u64);
    let mut per_root = Vec::new();
    let pending_first = vec![Op::ArmP, Op::CsrP, Op::RootP, Op::AddNocP];
    let mut pending_update = c08::honest_prefix();
    pending_update.extend([Op::ArmC(1), Op::CsrUpdC(1), Op::UpdNocC(1)]);
    for (name, prefix, d) in [("factory-fresh", vec![], d1), ("one-fabric-commissioned", c08::honest_prefix(), d1), ("two-fabrics-commissioned", two_fabrics(), d2), ("first-fabric-pending-under-the-fail-safe", pending_first, d2), ("noc-update-pending-under-the-fail-safe", pending_update, d2)] {
        let r = match c08::bfs(prefix, d, if ctx.tier == Tier::Quick { 4_000 } else { 200_000 }, 11) {
            Ok(r) => r,
            Err(e) => {
                eprintln!("MACHINERY: {}", e);
                return 2;
            }
        };
        for (h, sig, what) in r.violations {
            report.violation(sig, format!("history {:?}: {}", h, what), json!({"history": h.iter().map(|o| format!("{:?}", o)).collect::<Vec<_>>()}));
        }
        states += r.states;
        transitions += r.transitions;
        per_root.push(json!({"root": name, "states": r.states, "transitions": r.transitions, "depth": d, "capped": r.capped}));
    }
    let (sd0, sd1) = if ctx.tier == Tier::Quick { (4, 3) } else { (6, 5) };
    for (name, prefix, class) in c08::settings_roots(true) {
        let d = if class == 0 { sd0 } else { sd1 };
        let r = match c08::bfs(prefix, d, if ctx.tier == Tier::Quick { 6_000 } else { 300_000 }, 11 | 0x80) {
            Ok(r) => r,
            Err(e) => {
                eprintln!("MACHINERY: {}", e);
                return 2;
            }
        };
        for (h, sig, what) in r.violations {
            report.violation(sig, format!("history {:?}: {}", h, what), json!({"history": h.iter().map(|o| format!("{:?}", o)).collect::<Vec<_>>()}));
        }
        states += r.states;
        transitions += r.transitions;
        per_root.push(json!({"root": name, "states": r.states, "transitions": r.transitions, "depth": d, "capped": r.capped}));
    }
    let mut ev = Evidence::new("model_checking");
    ev.set("states", json!(states))
        .set("transitions", json!(transitions))
        .set("traces_validated_against_impl", json!(transitions))
        .set("exhaustive", json!(true))
        .set("vacuity", json!({"operations_that_wrote_to_the_store": c08::C11_OPS_WITH_STORES.load(std::sync::atomic::Ordering::Relaxed), "crash_points_strictly_inside_an_operation": c08::C11_INTERMEDIATE_POINTS.load(std::sync::atomic::Ordering::Relaxed)}))
        .set("roots", Value::Array(per_root))
        .set("samples", json!([{"history": ["ArmP", "CsrP", "RootP", "AddNocP", "CompleteC(1)", "AclC(1)"]}]))
        .set("rule", json!(format!("every history of at most {} operations of the C08 alphabet from a factory-fresh node and a node with one fabric, at most {} from a node with two fabrics; after every operation a fresh node is started from the store cut at every point inside the operation; at the end of every history: read-back equality, 9 damaged resumption blobs, factory reset", d1, d2)));
    ev.assume("write granularity is one store / remove call of the key-value interface (a call is atomic; torn writes inside a call are the store implementation's business)");
    ev.assume("the settings alphabet (second exploration) writes the group key map, group membership, bindings (also a same-length replacement), user labels and the node label of endpoint 0; other basic-information attributes (location, local-config-disabled) and the time-zone lists are not written");
    if report.violations.is_empty() && (states < 20) {
        eprintln!("MACHINERY: vacuous C11 run");
        return 2;
    }
    common::finish(ctx, report, ev)
}
