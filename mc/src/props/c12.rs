//! C12 — durable counters never hand out the same value twice, across restarts too.
//!
//! E2 (explicit-state BFS over operation histories, states rebuilt by re-execution) on the three
//! real counters, each driven through its real persistence path over a recording key-value store
//! that survives "restarts" and can fail any store:
//!   G  global group data message counter: `Exchange::initiate_group` (real reservation + real
//!      store-before-use ordering), restart = fresh `Matter` + `Matter::startup`;
//!   E  event numbers: `Events::push`, restart = fresh `InteractionModelState` + the re-hydration
//!      step of `InteractionModel::startup`;
//!   C  check-in counter: the `Icd` counter API driven by an application that follows the
//!      interface contract (persist after load, persist what `advance`/`invalidate` demand before
//!      the next use).
//! Oracles: no value is yielded twice in a history (incl. restarts placed before/after any store
//! and failing stores), and at the moment a value is used the durable boundary covers it.

use std::collections::BTreeMap;
use core::num::NonZeroU8;

use serde_json::{json, Value};

use rs_matter::crypto::{default_crypto, CanonAeadKey, Crypto};
use rs_matter::dm::clusters::icd_mgmt::{Icd, IcdModeConfig};
use rs_matter::dm::devices::test::{DAC_PRIVKEY, TEST_DEV_ATT, TEST_DEV_COMM, TEST_DEV_DET};
use rs_matter::dm::networks::eth::EthNetwork;
use rs_matter::fabric::GroupKeyMapping;
use rs_matter::group_keys::{GroupEpochKeyEntry, GroupKeySet};
use rs_matter::im::{EventPriority, InteractionModelState};
use rs_matter::persist::{KvBlobStore, EVENT_EPOCH_KEY, GROUP_DATA_COUNTER_KEY, ICD_CHECK_IN_COUNTER_KEY};
use rs_matter::sc::checkin::CheckInCounter;
use rs_matter::tlv::TLVElement;
use rs_matter::transport::exchange::Exchange;
use rs_matter::transport::session::GROUP_DATA_CTR_EPOCH;
use rs_matter::Matter;

use crate::common::kv::RecKv;
use crate::common::rng::SeededRng;
use crate::common::{self, e2, vclock, Ctx, Evidence, Report, Tier};

const RANGE28: u32 = 0x0fff_ffff;
const GROUP_ID: u16 = 0x0042;
const KEY_SET_ID: u16 = 1;

fn new_matter() -> Box<Matter<'static>> {
    Box::new(Matter::new(&TEST_DEV_DET, TEST_DEV_COMM, &TEST_DEV_ATT, 0))
}

/// Keep the used values compact: sorted disjoint inclusive ranges.
#[derive(Clone, Default, Debug)]
struct UsedSet {
    ranges: Vec<(u64, u64)>,
    count: u64,
}

impl UsedSet {
    fn contains(&self, v: u64) -> bool {
        self.ranges.iter().any(|(a, b)| *a <= v && v <= *b)
    }
    fn insert(&mut self, v: u64) {
        self.count += 1;
        for r in self.ranges.iter_mut() {
            if r.1.checked_add(1) == Some(v) {
                r.1 = v;
                return;
            }
            if v.checked_add(1) == Some(r.0) {
                r.0 = v;
                return;
            }
        }
        self.ranges.push((v, v));
        self.ranges.sort();
    }
    fn rel(&self, anchor: u64) -> Vec<(i128, i128)> {
        self.ranges.iter().map(|(a, b)| (*a as i128 - anchor as i128, *b as i128 - anchor as i128)).collect()
    }
}

// =========================================================================================
// G: global group data message counter
// =========================================================================================

#[derive(Clone, Copy, Debug, PartialEq, Eq, Hash)]
enum GOp {
    Send,
    SendStoreFail,
    Burst,
    Restart,
}

struct GSys {
    kv: RecKv,
    rng: SeededRng,
    matter: Option<Box<Matter<'static>>>,
    fab: NonZeroU8,
    used: UsedSet,
    fault: Option<(String, String)>,
    sends_ok: u64,
    stores_failed: u64,
    restarts: u64,
}

#[derive(Clone, Debug)]
struct GSeed {
    stored: Option<u32>,
    first_random: u32,
}

impl GSys {
    fn new(seed: &GSeed) -> Self {
        vclock::reset(1_000_000_000);
        let kv = RecKv::new();
        if let Some(b) = seed.stored {
            kv.0.borrow_mut().map.insert(GROUP_DATA_COUNTER_KEY, b.to_le_bytes().to_vec());
        }
        let rng = SeededRng::new(7);
        let mut s = Self { kv, rng, matter: None, fab: NonZeroU8::new(1).unwrap(), used: UsedSet::default(), fault: None, sends_ok: 0, stores_failed: 0, restarts: 0 };
        s.boot(Some(seed.first_random));
        s
    }

    fn matter(&self) -> &'static Matter<'static> {
        // SAFETY: the box outlives every borrow handed out here (exchanges are dropped inside `send`).
        unsafe { &*(self.matter.as_ref().unwrap().as_ref() as *const Matter<'static>) }
    }

    fn boot(&mut self, first_random: Option<u32>) {
        self.matter = None;
        self.matter = Some(new_matter());
        let matter = self.matter();
        if let Err(e) = matter.startup(matter.kv(self.kv.clone())) {
            self.fault = Some(("C12:group:startup-failed".into(), format!("{:?}", e)));
            return;
        }
        // the first-use seed draws one u32 from the RNG
        if let Some(r) = first_random {
            self.rng.script_u32(&[r]);
        }
        let fab = matter.with_state(|state| {
            let f = state.fabrics.add_with_post_init(|_| Ok(())).unwrap();
            let fab_idx = f.fab_idx();
            let mut epoch_key = CanonAeadKey::new();
            epoch_key.load_from_array(&[0x11; 16]);
            let mut epoch_keys = rs_matter::utils::storage::Vec::new();
            epoch_keys.push(GroupEpochKeyEntry { epoch_key, epoch_start_time: 0 }).unwrap();
            f.groups_mut().key_set_add(GroupKeySet { group_key_set_id: KEY_SET_ID, group_key_security_policy: 0, epoch_keys }).unwrap();
            f.groups_mut().key_map_add(GroupKeyMapping { group_id: GROUP_ID, group_key_set_id: KEY_SET_ID }).unwrap();
            fab_idx
        });
        self.fab = fab;
    }

    fn durable(&self) -> Option<u32> {
        self.kv.map().get(&GROUP_DATA_COUNTER_KEY).map(|v| u32::from_le_bytes(v[..4].try_into().unwrap()))
    }

    fn state(&self) -> (u32, u32) {
        self.matter().with_state(|s| s.verif_sessions().verif_group_ctr_state())
    }

    /// One real `Exchange::initiate_group`; returns whether a value was put in use.
    fn send(&mut self, fail_store: bool) -> bool {
        if fail_store {
            self.kv.fail_next();
        }
        let matter = self.matter();
        let crypto = default_crypto(self.rng.clone(), DAC_PRIVKEY);
        let failures_before = self.kv.0.borrow().failures;
        let res = common::catch(|| {
            let r = Exchange::initiate_group(matter, &crypto, matter.kv(self.kv.clone()), self.fab, GROUP_ID);
            match r {
                Ok(exch) => {
                    let v = exch.verif_group_data_ctr();
                    drop(exch);
                    Ok(v)
                }
                Err(e) => Err(e),
            }
        });
        // an unused injected failure must not linger
        self.kv.0.borrow_mut().fail_attempt = None;
        let failed_store = self.kv.0.borrow().failures > failures_before;
        if failed_store {
            self.stores_failed += 1;
        }
        match res {
            Err(p) => {
                self.fault = Some((format!("C12:group:panic:{}", p.class()), p.to_string()));
                false
            }
            Ok(Err(e)) => {
                if !failed_store {
                    self.fault = Some(("C12:group:send-failed-without-store-failure".into(), format!("{:?}", e)));
                }
                false
            }
            Ok(Ok(None)) => {
                self.fault = Some(("C12:group:no-value-reserved".into(), "initiate_group succeeded without a reserved counter".into()));
                false
            }
            Ok(Ok(Some(v))) => {
                self.sends_ok += 1;
                if failed_store {
                    self.fault = Some(("C12:group:value-used-although-store-failed".into(), format!("value {} put in use although the boundary store failed", v)));
                    return true;
                }
                // durable coverage at the moment of use
                match self.durable() {
                    None => self.fault = Some(("C12:group:value-used-without-durable-boundary".into(), format!("value {} used, nothing stored", v))),
                    Some(b) => {
                        let d = b.wrapping_sub(v) & RANGE28;
                        if d == 0 || d > GROUP_DATA_CTR_EPOCH + 1 {
                            self.fault = Some((
                                "C12:group:value-used-not-covered-by-durable-boundary".into(),
                                format!("value {} used while the durable boundary is {} (a restart resumes at {} and hands it out again within {} sends)", v, b, b, (v.wrapping_sub(b) & RANGE28) as u64 + 1),
                            ));
                        }
                    }
                }
                if self.used.contains(v as u64) && self.used.count < RANGE28 as u64 {
                    self.fault = Some(("C12:group:value-yielded-twice".into(), format!("value {} handed out a second time", v)));
                }
                self.used.insert(v as u64);
                true
            }
        }
    }

    fn apply(&mut self, op: GOp) -> bool {
        match op {
            GOp::Send => self.send(false),
            GOp::SendStoreFail => {
                // only meaningful when this send has to store
                let (c, b) = self.state();
                if c != b && c != 0 {
                    return false;
                }
                self.send(true);
                true
            }
            GOp::Burst => {
                // real loop up to the point where the next send must extend the boundary
                let mut n = 0;
                loop {
                    let (c, b) = self.state();
                    if (c == b && n > 0) || n > GROUP_DATA_CTR_EPOCH + 5 || self.fault.is_some() {
                        break;
                    }
                    if !self.send(false) {
                        break;
                    }
                    n += 1;
                }
                n > 1
            }
            GOp::Restart => {
                self.restarts += 1;
                self.boot(None);
                true
            }
        }
    }

    fn key(&self) -> (u32, u32, Option<u32>, Vec<(i128, i128)>) {
        let (c, b) = self.state();
        (c, b, self.durable(), self.used.rel(c as u64))
    }
}

fn g_seeds(tier: Tier) -> Vec<GSeed> {
    let mut v = vec![
        GSeed { stored: None, first_random: 5000 },
        GSeed { stored: None, first_random: RANGE28 - 2 },
        GSeed { stored: None, first_random: 0 },
        GSeed { stored: Some(1000), first_random: 1 },
        GSeed { stored: Some(RANGE28), first_random: 1 },
        GSeed { stored: Some(RANGE28 - GROUP_DATA_CTR_EPOCH), first_random: 1 },
        GSeed { stored: Some(RANGE28 - GROUP_DATA_CTR_EPOCH + 1), first_random: 1 },
        GSeed { stored: Some(1), first_random: 1 },
    ];
    if tier == Tier::Thorough {
        for d in [0u32, 1, 2, 3, 998, 999, 1001, 1002] {
            v.push(GSeed { stored: Some(RANGE28 - d), first_random: 1 });
            v.push(GSeed { stored: None, first_random: RANGE28 - d });
        }
        v.push(GSeed { stored: Some(0), first_random: 1 });
        v.push(GSeed { stored: Some(2), first_random: 1 });
    }
    v
}

// =========================================================================================
// E: event numbers
// =========================================================================================

#[derive(Clone, Copy, Debug, PartialEq, Eq, Hash)]
enum EOp {
    Push,
    PushStoreFail,
    Burst,
    Restart,
}

const EVENT_EPOCH: u64 = 10000;

struct ESys {
    kv: RecKv,
    matter: Box<Matter<'static>>,
    ims: Option<Box<InteractionModelState<EthNetwork<'static>>>>,
    used: UsedSet,
    wrapped: bool,
    fault: Option<(String, String)>,
    pushes_ok: u64,
    stores_failed: u64,
    pushes_since_boot: u64,
    boot_durable: Option<u64>,
    /// failed stores since boot: hidden in-memory state may depend on them
    fails_since_boot: u64,
}

impl ESys {
    fn new(stored: Option<u64>) -> Self {
        vclock::reset(1_000_000_000);
        let kv = RecKv::new();
        if let Some(b) = stored {
            // the stored form is an anonymous TLV u64, written by the real writer
            use rs_matter::tlv::{TLVTag, TLVWrite};
            use rs_matter::utils::storage::WriteBuf;
            let mut buf = [0u8; 16];
            let mut wb = WriteBuf::new(&mut buf);
            wb.u64(&TLVTag::Anonymous, b).unwrap();
            kv.0.borrow_mut().map.insert(EVENT_EPOCH_KEY, wb.as_slice().to_vec());
        }
        let mut s = Self { kv, matter: new_matter(), ims: None, used: UsedSet::default(), wrapped: false, fault: None, pushes_ok: 0, stores_failed: 0, pushes_since_boot: 0, boot_durable: None, fails_since_boot: 0 };
        s.boot();
        s
    }

    fn boot(&mut self) {
        self.ims = None;
        let ims = Box::new(InteractionModelState::new(EthNetwork::new_default()));
        if let Err(e) = ims.verif_load_persist(self.matter.kv(self.kv.clone())) {
            self.fault = Some(("C12:events:startup-failed".into(), format!("{:?}", e)));
        }
        self.ims = Some(ims);
        self.pushes_since_boot = 0;
        self.fails_since_boot = 0;
        self.boot_durable = self.durable();
    }

    fn durable(&self) -> Option<u64> {
        self.kv.map().get(&EVENT_EPOCH_KEY).and_then(|v| TLVElement::new(v).u64().ok())
    }

    fn push(&mut self, fail_store: bool) -> bool {
        if fail_store {
            self.kv.fail_next();
        }
        let failures_before = self.kv.0.borrow().failures;
        let ims = self.ims.as_ref().unwrap();
        let kv = self.matter.kv(self.kv.clone());
        let res = common::catch(|| ims.events().push(1, 0x28, 0, EventPriority::Info, kv, |_tw| Ok(())));
        self.kv.0.borrow_mut().fail_attempt = None;
        let failed_store = self.kv.0.borrow().failures > failures_before;
        if failed_store {
            self.stores_failed += 1;
            self.fails_since_boot += 1;
        }
        match res {
            Err(p) => {
                self.fault = Some((format!("C12:events:panic:{}", p.class()), p.to_string()));
                false
            }
            Ok(Err(e)) => {
                if !failed_store {
                    self.fault = Some(("C12:events:push-failed-without-store-failure".into(), format!("{:?}", e)));
                }
                false
            }
            Ok(Ok(n)) => {
                self.pushes_ok += 1;
                self.pushes_since_boot += 1;
                let suffix = if self.wrapped { ":after-u64-wrap" } else { "" };
                if failed_store {
                    self.fault = Some((format!("C12:events:number-used-although-store-failed{}", suffix), format!("event number {}", n)));
                    return true;
                }
                match self.durable() {
                    None => self.fault = Some((format!("C12:events:number-used-without-durable-boundary{}", suffix), format!("event number {} used, nothing stored", n))),
                    Some(b) => {
                        let d = b.wrapping_sub(n);
                        if d == 0 || d > EVENT_EPOCH + 1 {
                            self.fault = Some((
                                format!("C12:events:number-used-not-covered-by-durable-boundary{}", suffix),
                                format!("event number {} used while the durable boundary is {}", n, b),
                            ));
                        }
                    }
                }
                if self.used.contains(n) {
                    self.fault = Some((format!("C12:events:number-yielded-twice{}", suffix), format!("event number {} handed out a second time", n)));
                }
                if let Some((_, hi)) = self.used.ranges.last() {
                    if n < *hi && *hi > u64::MAX - 3 * EVENT_EPOCH {
                        self.wrapped = true;
                    }
                }
                self.used.insert(n);
                true
            }
        }
    }

    fn next_is_store_point(&self) -> bool {
        // watermark() is pub(crate); infer from the last yielded number
        match self.used.ranges.iter().map(|r| r.1).max() {
            None => true,
            Some(last) => {
                let next = last.wrapping_add(1).max(1);
                next == 1 || next % EVENT_EPOCH == 0
            }
        }
    }

    fn apply(&mut self, op: EOp) -> bool {
        match op {
            EOp::Push => self.push(false),
            EOp::PushStoreFail => {
                self.push(true);
                true
            }
            EOp::Burst => {
                let mut n = 0u64;
                while n < EVENT_EPOCH + 5 && self.fault.is_none() {
                    if n > 0 && self.next_is_store_point() {
                        break;
                    }
                    if !self.push(false) {
                        break;
                    }
                    n += 1;
                }
                n > 1
            }
            EOp::Restart => {
                self.boot();
                true
            }
        }
    }

    fn key(&self) -> (Option<u64>, Vec<(i128, i128)>, bool, u64, Option<u64>, u64) {
        let anchor = self.used.ranges.iter().map(|r| r.1).max().unwrap_or(0);
        // the live counter is private; it is determined by the durable value at boot and the
        // number of successful pushes since (over-fine keys only cost time)
        (self.durable(), self.used.rel(anchor), self.wrapped, self.pushes_since_boot, self.boot_durable, self.fails_since_boot)
    }
}

// =========================================================================================
// C: check-in counter through the Icd API and a contract-following application
// =========================================================================================

const CI_EPOCH: u32 = 4;

#[derive(Clone, Copy, Debug, PartialEq, Eq, Hash)]
enum COp {
    Send,
    SendStoreFail,
    /// the value was used on the wire but the node died before `advance_counter`
    SendThenCrash,
    Invalidate(u32),
    Persist,
    PersistFail,
    Restart,
    RestartPersistFail,
}

struct CSys {
    kv: RecKv,
    rng: SeededRng,
    icd: Option<Box<Icd>>,
    /// the application knows a persist is still owed and must not send
    owes_persist: bool,
    used: UsedSet,
    fault: Option<(String, String)>,
    sends: u64,
    /// operations since boot that may have moved hidden in-memory state (over-fine key component)
    hidden: Vec<u8>,
}

fn icd_mode() -> IcdModeConfig {
    IcdModeConfig {
        idle_mode_duration_s: 60,
        active_mode_duration_ms: 1000,
        active_mode_threshold_ms: 300,
        user_active_mode_trigger_hint: 0,
        user_active_mode_trigger_instruction: "",
    }
}

impl CSys {
    fn new(stored: Option<u32>, first_random: u32) -> Self {
        let kv = RecKv::new();
        if let Some(b) = stored {
            kv.0.borrow_mut().map.insert(ICD_CHECK_IN_COUNTER_KEY, b.to_le_bytes().to_vec());
        }
        let rng = SeededRng::new(11);
        rng.script_u32(&[first_random]);
        let mut s = Self { kv, rng, icd: None, owes_persist: false, used: UsedSet::default(), fault: None, sends: 0, hidden: Vec::new() };
        s.boot(false);
        s
    }

    fn buf() -> [u8; 64] {
        [0u8; 64]
    }

    fn boot(&mut self, fail_persist: bool) {
        use rand_core::RngCore;
        // the application picks a random start, loads the stored boundary over it, and - as the
        // interface demands - immediately persists the boundary of this run
        let start = self.rng.next_u32();
        let icd = Box::new(Icd::new(CheckInCounter::new(start, CI_EPOCH), icd_mode()));
        let mut buf = Self::buf();
        if let Err(e) = icd.load_counter(self.kv.clone(), CI_EPOCH, &mut buf) {
            self.fault = Some(("C12:checkin:load-failed".into(), format!("{:?}", e)));
        }
        self.icd = Some(icd);
        self.owes_persist = true;
        self.hidden.clear();
        self.persist(fail_persist);
    }

    fn persist(&mut self, fail: bool) {
        if fail {
            self.kv.fail_next();
        }
        let mut buf = Self::buf();
        let r = self.icd.as_ref().unwrap().persist_counter(self.kv.clone(), &mut buf);
        self.kv.0.borrow_mut().fail_attempt = None;
        if r.is_ok() {
            self.owes_persist = false;
        } else {
            self.hidden.push(1);
        }
    }

    fn durable(&self) -> Option<u32> {
        self.kv.map().get(&ICD_CHECK_IN_COUNTER_KEY).map(|v| u32::from_le_bytes(v[..4].try_into().unwrap()))
    }

    fn use_value(&mut self) -> u32 {
        let v = self.icd.as_ref().unwrap().next_counter();
        self.sends += 1;
        match self.durable() {
            None => self.fault = Some(("C12:checkin:value-used-without-durable-boundary".into(), format!("value {}", v))),
            Some(b) => {
                // a restart resumes with `next = b + 1`, so it must hold v <= b (mod 2^32, within an epoch)
                let d = b.wrapping_sub(v);
                if d > CI_EPOCH {
                    self.fault = Some(("C12:checkin:value-used-not-covered-by-durable-boundary".into(), format!("value {} used while the durable boundary is {}", v, b)));
                }
            }
        }
        if self.used.contains(v as u64) {
            self.fault = Some(("C12:checkin:value-yielded-twice".into(), format!("value {} used a second time", v)));
        }
        self.used.insert(v as u64);
        v
    }

    fn apply(&mut self, op: COp) -> bool {
        match op {
            COp::Send | COp::SendStoreFail | COp::SendThenCrash => {
                if self.owes_persist {
                    return false; // a contract-following application does not send now
                }
                self.use_value();
                if op == COp::SendThenCrash {
                    self.boot(false);
                    return true;
                }
                if op == COp::SendStoreFail {
                    self.kv.fail_next();
                }
                let mut buf = Self::buf();
                let r = self.icd.as_ref().unwrap().advance_counter(self.kv.clone(), &mut buf);
                self.kv.0.borrow_mut().fail_attempt = None;
                if r.is_err() {
                    self.owes_persist = true;
                    self.hidden.push(2);
                }
                true
            }
            COp::Invalidate(delta) => {
                if self.owes_persist {
                    return false;
                }
                if self.icd.as_ref().unwrap().invalidate_counter(delta) {
                    self.owes_persist = true;
                }
                true
            }
            COp::Persist => {
                if !self.owes_persist {
                    return false;
                }
                self.persist(false);
                true
            }
            COp::PersistFail => {
                if !self.owes_persist {
                    return false;
                }
                self.persist(true);
                true
            }
            COp::Restart => {
                self.boot(false);
                true
            }
            COp::RestartPersistFail => {
                self.boot(true);
                true
            }
        }
    }

    fn key(&self) -> (u32, Option<u32>, bool, Vec<(i128, i128)>, Vec<u8>) {
        let next = self.icd.as_ref().unwrap().next_counter();
        (next, self.durable(), self.owes_persist, self.used.rel(next as u64), self.hidden.clone())
    }
}

// =========================================================================================

fn replay(ctx: &Ctx, path: &std::path::Path) -> i32 {
    let doc: Value = serde_json::from_str(&std::fs::read_to_string(path).expect("replay file")).expect("json");
    let r = &doc["replay"];
    let mut report = Report::new();
    std::env::set_var("MC_SHOW_PANICS", "1");
    let ops: Vec<String> = r["ops"].as_array().unwrap().iter().map(|o| o.as_str().unwrap().to_string()).collect();
    match r["harness"].as_str() {
        Some("group") => {
            let seed = GSeed { stored: r["stored"].as_u64().map(|x| x as u32), first_random: r["first_random"].as_u64().unwrap_or(1) as u32 };
            let mut s = GSys::new(&seed);
            for o in &ops {
                let op = match o.as_str() { "Send" => GOp::Send, "SendStoreFail" => GOp::SendStoreFail, "Burst" => GOp::Burst, _ => GOp::Restart };
                s.apply(op);
                println!("{:?}: (ctr, boundary)={:?} durable={:?} used={:?}", op, s.state(), s.durable(), s.used.ranges);
            }
            if let Some((sig, what)) = s.fault { report.violation(sig, what, r.clone()); }
        }
        Some("events") => {
            let mut s = ESys::new(r["stored"].as_u64());
            for o in &ops {
                let op = match o.as_str() { "Push" => EOp::Push, "PushStoreFail" => EOp::PushStoreFail, "Burst" => EOp::Burst, _ => EOp::Restart };
                s.apply(op);
                println!("{:?}: durable={:?} used={:?}", op, s.durable(), s.used.ranges);
            }
            if let Some((sig, what)) = s.fault { report.violation(sig, what, r.clone()); }
        }
        _ => {
            let mut s = CSys::new(r["stored"].as_u64().map(|x| x as u32), r["first_random"].as_u64().unwrap_or(1) as u32);
            for o in &ops {
                let op = parse_cop(o);
                s.apply(op);
                println!("{:?}: next={} durable={:?} owes_persist={} used={:?}", op, s.icd.as_ref().unwrap().next_counter(), s.durable(), s.owes_persist, s.used.ranges);
            }
            if let Some((sig, what)) = s.fault { report.violation(sig, what, r.clone()); }
        }
    }
    common::finish(ctx, report, Evidence::new("model_checking"))
}

fn parse_cop(o: &str) -> COp {
    if let Some(rest) = o.strip_prefix("Invalidate(") {
        return COp::Invalidate(rest.trim_end_matches(')').parse().unwrap());
    }
    match o {
        "Send" => COp::Send,
        "SendStoreFail" => COp::SendStoreFail,
        "SendThenCrash" => COp::SendThenCrash,
        "Persist" => COp::Persist,
        "PersistFail" => COp::PersistFail,
        "RestartPersistFail" => COp::RestartPersistFail,
        _ => COp::Restart,
    }
}

pub fn run(ctx: &Ctx) -> i32 {
    if let Some(p) = &ctx.replay {
        return replay(ctx, p);
    }
    let (gd, ed, cd) = match ctx.tier {
        Tier::Quick => (5, 5, 6),
        Tier::Thorough => (7, 7, 8),
    };
    let mut report = Report::new();
    let mut states = 0u64;
    let mut transitions = 0u64;
    let mut per = Vec::new();
    let mut vac = BTreeMap::new();

    // ---- G
    {
        let mut sends = 0u64;
        let mut fails = 0u64;
        let mut restarts = 0u64;
        for seed in g_seeds(ctx.tier) {
            let rep = std::cell::RefCell::new(&mut report);
            let cnt = std::cell::Cell::new((0u64, 0u64, 0u64));
            let st = e2::bfs(
                vec![vec![]],
                gd,
                |h: &[GOp]| {
                    let mut s = GSys::new(&seed);
                    for o in h {
                        s.apply(*o);
                    }
                    s
                },
                |_| vec![GOp::Send, GOp::Restart, GOp::SendStoreFail, GOp::Burst],
                |s, op, hist| {
                    let changed = s.apply(*op);
                    let c = cnt.get();
                    cnt.set((c.0.max(s.sends_ok), c.1.max(s.stores_failed), c.2.max(s.restarts)));
                    if let Some((sig, what)) = &s.fault {
                        let mut h: Vec<String> = hist.iter().map(|o| format!("{:?}", o)).collect();
                        h.push(format!("{:?}", op));
                        rep.borrow_mut().violation(sig.clone(), format!("seed {:?}, ops {:?}: {}", seed, h, what),
                            json!({"harness": "group", "stored": seed.stored, "first_random": seed.first_random, "ops": h}));
                        return false;
                    }
                    changed
                },
                |s| s.key(),
            );
            states += st.states;
            transitions += st.transitions;
            let c = cnt.get();
            sends += c.0;
            fails += c.1;
            restarts += c.2;
            per.push(json!({"harness": "group", "seed": format!("{:?}", seed), "depth": gd, "states": st.states, "transitions": st.transitions}));
        }
        vac.insert("group_max_sends_in_a_history_summed", sends);
        vac.insert("group_store_failures_injected", fails);
        vac.insert("group_restarts", restarts);
    }
    // ---- E
    {
        let lm = (u64::MAX / EVENT_EPOCH) * EVENT_EPOCH;
        let mut seeds = vec![None, Some(EVENT_EPOCH), Some(3 * EVENT_EPOCH)];
        seeds.push(Some(lm));
        seeds.push(Some(lm - EVENT_EPOCH));
        let mut pushes = 0u64;
        for seed in seeds {
            let rep = std::cell::RefCell::new(&mut report);
            let cnt = std::cell::Cell::new(0u64);
            let st = e2::bfs(
                vec![vec![]],
                ed,
                |h: &[EOp]| {
                    let mut s = ESys::new(seed);
                    for o in h {
                        s.apply(*o);
                    }
                    s
                },
                |_| vec![EOp::Push, EOp::Restart, EOp::PushStoreFail, EOp::Burst],
                |s, op, hist| {
                    let changed = s.apply(*op);
                    cnt.set(cnt.get().max(s.pushes_ok));
                    if let Some((sig, what)) = &s.fault {
                        let mut h: Vec<String> = hist.iter().map(|o| format!("{:?}", o)).collect();
                        h.push(format!("{:?}", op));
                        rep.borrow_mut().violation(sig.clone(), format!("stored {:?}, ops {:?}: {}", seed, h, what),
                            json!({"harness": "events", "stored": seed, "ops": h}));
                        return false;
                    }
                    changed
                },
                |s| s.key(),
            );
            states += st.states;
            transitions += st.transitions;
            pushes += cnt.get();
            per.push(json!({"harness": "events", "stored": seed, "depth": ed, "states": st.states, "transitions": st.transitions}));
        }
        vac.insert("events_max_pushes_in_a_history_summed", pushes);
    }
    // ---- C
    {
        let mut seeds: Vec<(Option<u32>, u32)> = vec![(None, 100), (Some(100), 7), (None, u32::MAX - 2), (Some(u32::MAX - 1), 7), (Some(u32::MAX - CI_EPOCH), 7), (Some(0), 7)];
        if ctx.tier == Tier::Thorough {
            for d in 0..=CI_EPOCH + 2 {
                seeds.push((Some(u32::MAX - d), 7));
                seeds.push((None, u32::MAX - d));
            }
        }
        let mut sends = 0u64;
        for (stored, fr) in seeds {
            let rep = std::cell::RefCell::new(&mut report);
            let cnt = std::cell::Cell::new(0u64);
            let ops = vec![COp::Send, COp::Restart, COp::SendStoreFail, COp::SendThenCrash, COp::Persist, COp::PersistFail, COp::RestartPersistFail,
                COp::Invalidate(1), COp::Invalidate(CI_EPOCH - 1), COp::Invalidate(CI_EPOCH), COp::Invalidate(CI_EPOCH + 1), COp::Invalidate(1 << 31)];
            let st = e2::bfs(
                vec![vec![]],
                cd,
                |h: &[COp]| {
                    let mut s = CSys::new(stored, fr);
                    for o in h {
                        s.apply(*o);
                    }
                    s
                },
                |_| ops.clone(),
                |s, op, hist| {
                    let changed = s.apply(*op);
                    cnt.set(cnt.get().max(s.sends));
                    if let Some((sig, what)) = &s.fault {
                        let mut h: Vec<String> = hist.iter().map(|o| format!("{:?}", o)).collect();
                        h.push(format!("{:?}", op));
                        rep.borrow_mut().violation(sig.clone(), format!("stored {:?} first random {}, ops {:?}: {}", stored, fr, h, what),
                            json!({"harness": "checkin", "stored": stored, "first_random": fr, "ops": h}));
                        return false;
                    }
                    changed
                },
                |s| s.key(),
            );
            states += st.states;
            transitions += st.transitions;
            sends += cnt.get();
            per.push(json!({"harness": "checkin", "stored": stored, "first_random": fr, "depth": cd, "states": st.states, "transitions": st.transitions}));
        }
        vac.insert("checkin_max_sends_in_a_history_summed", sends);
    }

    let mut ev = Evidence::new("model_checking");
    ev.set("states", json!(states))
        .set("transitions", json!(transitions))
        .set("traces_validated_against_impl", json!(transitions))
        .set("exhaustive", json!(true))
        .set("samples", json!([
            {"harness": "group", "stored": null, "first_random": RANGE28 - 2, "ops": ["Send", "SendStoreFail", "Send", "Restart", "Burst", "Send"]},
            {"harness": "events", "stored": 10000, "ops": ["Push", "Restart", "Burst", "PushStoreFail", "Push"]},
            {"harness": "checkin", "stored": u32::MAX - 1, "ops": ["Send", "SendThenCrash", "Send", "Invalidate(4)", "PersistFail", "Persist", "Send"]},
        ]))
        .set("per_harness", Value::Array(per))
        .set("vacuity", json!(vac))
        .set("rule", json!(format!("BFS to depth {}/{}/{} over {{use, use-with-failing-store, burst up to the next store point (a real loop), restart}} (check-in: additionally crash-after-use, invalidate by {{1,epoch-1,epoch,epoch+1,2^31}}, owed persist ok/failing, restart with failing first persist), from stored boundaries absent / small / next to the wrap of the counter range; a restart after any op = crash placed before/after each individual store", gd, ed, cd)));
    ev.assume("fewer than one full counter range is consumed in a history (a fixed-width counter eventually cycles)");
    ev.assume("group counter: a value counts as used on the wire when Exchange::initiate_group returns an exchange carrying it (Session::pre_send stamps exactly that value)");
    ev.assume("check-in counter: the application follows the interface contract (persists after load and whenever advance/invalidate demand it, and does not send while a persist is owed)");
    ev.assume("event numbers: stored boundaries are restricted to values the implementation itself can have written");
    if report.violations.is_empty() && (vac.values().any(|v| *v == 0)) {
        eprintln!("MACHINERY: vacuous C12 run {:?}", vac);
        return 2;
    }
    common::finish(ctx, report, ev)
}
