//! C03 — secured messages are accepted only if authentic for that session and direction.
//!
//! Two real nodes with pre-established secure sessions (CASE with node ids, PASE) plus a second,
//! differently keyed session at each end. For every datagram of a scripted honest conversation
//! (application message of every length of a boundary catalog, reliable and unreliable; the
//! reply with a piggy-backed acknowledgement; standalone acknowledgements) and before it is
//! delivered, EVERY single-bit flip of the whole datagram, every truncation, two extensions and
//! the field transplants (other session id, counter +-1, reverse direction) are injected into the
//! destination node. Oracle: each altered datagram leaves the projection of the node's session
//! table (receive windows, transmit counters, exchange slots, keys, flags) bit-identical and
//! nothing reaches the application; then the untouched datagram is accepted and the application
//! sees exactly the bytes, protocol id and opcode that were sent.

use std::cell::RefCell;
use std::rc::Rc;

use core::num::NonZeroU8;

use embassy_futures::select::select;
use rayon::prelude::*;
use serde_json::json;

use rs_matter::error::Error;
use rs_matter::respond::{ExchangeHandler, Responder};
use rs_matter::transport::exchange::{Exchange, MessageMeta};
use rs_matter::transport::network::NoNetwork;
use rs_matter::Matter;

use crate::common::nodes::{self, SessKind, NODE_A, NODE_B};
use crate::common::rng::SeededRng;
use crate::common::sim::{addr_of, Exec, Net, Owned};
use crate::common::{self, hex, vclock, Ctx, Evidence, Report, Tier};

const PROTO: u16 = 0x7777;

#[derive(Clone, Debug)]
struct Cfg {
    kind: SessKind,
    len: usize,
    reliable: bool,
    /// a group (multicast) data message instead of a unicast one; `kind` then only names the
    /// bystander sessions
    group: bool,
}

const GROUP_ID: u16 = 0x0101;
const OTHER_GROUP_ID: u16 = 0x0202;

type Log = Rc<RefCell<Vec<(u16, u8, Vec<u8>)>>>;

struct Handler {
    log: Log,
    reply_len: usize,
}

impl ExchangeHandler for Handler {
    async fn handle(&self, mut exchange: Exchange<'_>) -> Result<(), Error> {
        let (meta, p) = {
            let rx = exchange.recv().await?;
            (rx.meta(), rx.payload().to_vec())
        };
        self.log.borrow_mut().push((meta.proto_id, meta.proto_opcode, p));
        if meta.reliable {
            let reply: Vec<u8> = (0..self.reply_len).map(|i| (i as u8) ^ 0x3c).collect();
            exchange.send(MessageMeta::new(PROTO, 9, true), &reply).await?;
        }
        Ok(())
    }
}

fn payload(len: usize) -> Vec<u8> {
    (0..len).map(|i| (i as u8).wrapping_mul(13).wrapping_add(5)).collect()
}

struct World {
    exec: Exec,
    net: Net,
    log_b: Log,
    replies_a: Log,
    done: Rc<RefCell<bool>>,
    _h: Owned<Handler>,
    a: Owned<Matter<'static>>,
    b: Owned<Matter<'static>>,
}

fn build(cfg: &Cfg) -> World {
    vclock::reset(13_000_000_000);
    let net = Net::new(2);
    let a = Owned::from_box(nodes::new_matter());
    let b = Owned::from_box(nodes::new_matter());
    let (ma, mb) = (a.get(), b.get());
    if cfg.group {
        // a real fabric (group messages carry the sender's operational node id), same group keys at both ends
        use crate::common::creds;
        let c = nodes::crypto(SeededRng::new(900));
        let fab = creds::mint_fabric(&c, 1, false, rs_matter::cert::gen::VALID_FOREVER, 0xA1).unwrap();
        for (m, node) in [(ma, NODE_A), (mb, NODE_B)] {
            let nc = creds::mint_noc(&c, &fab, node, &[], rs_matter::cert::gen::VALID_FOREVER, None).unwrap();
            let idx = creds::install(m, &c, &fab, &nc, NODE_A).unwrap();
            nodes::add_group_keys(m, idx, &[(GROUP_ID, 1, 0x11), (OTHER_GROUP_ID, 2, 0x12)]);
        }
    } else {
        nodes::add_fabric(ma);
        nodes::add_fabric(mb);
    }
    let (k1, k2, k3, k4) = (nodes::key(0x11), nodes::key(0x22), nodes::key(0x33), nodes::key(0x44));
    // session under test: A(local 1, peer 2) <-> B(local 2, peer 1)
    nodes::install_session(ma, SeededRng::new(101), cfg.kind, NODE_A, NODE_B, 1, 2, addr_of(1), &k2, &k1).unwrap();
    nodes::install_session(mb, SeededRng::new(202), cfg.kind, NODE_B, NODE_A, 2, 1, addr_of(0), &k1, &k2).unwrap();
    // a second live session with other keys at each end (same peer address, other ids)
    nodes::install_session(ma, SeededRng::new(102), SessKind::Case, NODE_A, 0x9999, 5, 6, addr_of(1), &k4, &k3).unwrap();
    nodes::install_session(mb, SeededRng::new(203), SessKind::Case, NODE_B, 0x8888, 6, 5, addr_of(0), &k3, &k4).unwrap();
    let log_b: Log = Rc::new(RefCell::new(Vec::new()));
    let replies_a: Log = Rc::new(RefCell::new(Vec::new()));
    let done = Rc::new(RefCell::new(false));
    let h = Owned::new(Handler { log: log_b.clone(), reply_len: 3 });
    let mut exec = Exec::new();
    {
        let (send, recv) = (net.end(1), net.end(1));
        let hh = h.get();
        exec.spawn("B", async move {
            let c = nodes::crypto(SeededRng::new(204));
            let responder = Responder::new("B", hh, mb, 0);
            let _ = select(mb.run(&c, send, recv, NoNetwork), responder.run::<2>()).await;
        });
    }
    {
        let (send, recv) = (net.end(0), net.end(0));
        let cfg2 = cfg.clone();
        let replies = replies_a.clone();
        let done2 = done.clone();
        exec.spawn("A", async move {
            let c = nodes::crypto(SeededRng::new(104));
            let client = async {
                let r: Result<(), Error> = async {
                    let mut ex = if cfg2.group {
                        Exchange::initiate_group(ma, &c, ma.kv(crate::common::kv::RecKv::new()), NonZeroU8::new(1).unwrap(), GROUP_ID)?
                    } else {
                        match cfg2.kind {
                            SessKind::Case => Exchange::initiate(ma, &c, NonZeroU8::new(1).unwrap(), NODE_B).await?,
                            SessKind::Pase => Exchange::initiate_pase(ma, &c, addr_of(1), 20202021).await?,
                        }
                    };
                    ex.send(MessageMeta::new(PROTO, 7, cfg2.reliable), &payload(cfg2.len)).await?;
                    if cfg2.reliable {
                        let (meta, p) = {
                            let rx = ex.recv().await?;
                            (rx.meta(), rx.payload().to_vec())
                        };
                        replies.borrow_mut().push((meta.proto_id, meta.proto_opcode, p));
                        ex.acknowledge().await?;
                    }
                    Ok(())
                }
                .await;
                let _ = r;
                *done2.borrow_mut() = true;
                core::future::pending::<()>().await
            };
            let _ = select(ma.run(&c, send, recv, NoNetwork), client).await;
        });
    }
    World { exec, net, log_b, replies_a, done, _h: h, a, b }
}

/// Everything of a node's session table that a rejected message must not change.
fn projection(m: &Matter<'_>) -> Vec<String> {
    m.with_state(|state| {
        state
            .verif_sessions()
            .iter()
            .map(|s| {
                let (res, exp, ctr) = s.verif_flags();
                format!(
                    "id{} mode{:?} peer{:?} lsid{} psid{} rx{:?} txctr{} res{} exp{} exch{:?} enc{} dec{}",
                    s.id(),
                    s.get_session_mode(),
                    s.get_peer_node_id(),
                    s.get_local_sess_id(),
                    s.get_peer_sess_id(),
                    s.verif_rx_ctr_state(),
                    ctr,
                    res,
                    exp,
                    s.verif_exchanges().collect::<Vec<_>>(),
                    s.get_enc_key().map(|k| hex(k.access())).unwrap_or_default(),
                    s.get_dec_key().map(|k| hex(k.access())).unwrap_or_default(),
                )
            })
            .chain(std::iter::once(format!("group-rx-windows {:?} group-tx-counter {:?}", state.verif_sessions().verif_group_rx_tracked().collect::<Vec<_>>(), state.verif_sessions().verif_group_ctr_state())))
            .collect()
    })
}

#[derive(Default)]
struct Acc {
    injections: u64,
    datagrams: u64,
    accepted_untouched: u64,
    report: Report,
    shapes: std::collections::BTreeSet<(usize, u8, usize)>,
}

fn mutations(d: &[u8], other_sess: u16) -> Vec<(String, Vec<u8>)> {
    let mut v = Vec::new();
    for i in 0..d.len() {
        for bit in 0..8 {
            let mut m = d.to_vec();
            m[i] ^= 1 << bit;
            let region = if i < 8 { "plain-header" } else if i + 16 >= d.len() { "tag" } else { "body" };
            v.push((format!("bitflip:{}", region), m));
        }
    }
    for l in 0..d.len() {
        v.push(("truncated".into(), d[..l].to_vec()));
    }
    for ext in [1usize, 16] {
        let mut m = d.to_vec();
        m.extend(std::iter::repeat(0xA5).take(ext));
        v.push(("extended".into(), m));
    }
    // transplants
    let mut m = d.to_vec();
    m[1..3].copy_from_slice(&other_sess.to_le_bytes());
    v.push(("other-session-id".into(), m));
    for delta in [1u32, u32::MAX] {
        let mut m = d.to_vec();
        let c = u32::from_le_bytes([d[4], d[5], d[6], d[7]]).wrapping_add(delta);
        m[4..8].copy_from_slice(&c.to_le_bytes());
        v.push(("counter-changed".into(), m));
    }
    v
}

fn sweep(cfg: &Cfg, acc: &mut Acc) -> Result<(), String> {
    let mut w = build(cfg);
    w.exec.run()?;
    let violations_at_start = acc.report.violations.len();
    let mut steps = 0;
    let mut multicast_done = 0usize;
    loop {
        steps += 1;
        if steps > 200 {
            break;
        }
        // a group message goes to a multicast address: the harness is the network that carries it to B
        if cfg.group && w.net.inflight_len() == 0 {
            let next = w.net.0.borrow().log.iter().filter(|d| d.from == 0 && d.to == usize::MAX).nth(multicast_done).cloned();
            if let Some(d) = next {
                multicast_done += 1;
                w.net.inject(0, 1, d.bytes.clone());
            }
        }
        if w.net.inflight_len() == 0 {
            if *w.done.borrow() {
                break;
            }
            match vclock::next_deadline() {
                Some(t) if t < vclock::now() + 100_000 => vclock::advance_to(t),
                _ => break,
            }
            w.exec.run()?;
            continue;
        }
        // the oldest datagram is the subject of the sweep before it is delivered
        let d = w.net.0.borrow().inflight[0].clone();
        acc.datagrams += 1;
        acc.shapes.insert((d.from, d.bytes[0], d.bytes.len()));
        let dest = if d.to == 0 { w.a.get() } else { w.b.get() };
        let src = if d.to == 0 { w.b.get() } else { w.a.get() };
        let other_sess: u16 = if d.to == 1 { 6 } else { 5 };
        let app_before = (w.log_b.borrow().len(), w.replies_a.borrow().len());
        let mut muts = mutations(&d.bytes, other_sess);
        if cfg.group && d.bytes.len() > 18 {
            // counter moved far ahead / behind, another sender, another group the node has a key for
            for delta in [16u32, 17, 1000, 0x8000_0000, u32::MAX - 15] {
                let mut m = d.bytes.clone();
                let c = u32::from_le_bytes([d.bytes[4], d.bytes[5], d.bytes[6], d.bytes[7]]).wrapping_add(delta);
                m[4..8].copy_from_slice(&c.to_le_bytes());
                muts.push(("group-counter-moved".into(), m));
            }
            let mut m = d.bytes.clone();
            m[8..16].copy_from_slice(&0x7777_0000_0000_0001u64.to_le_bytes());
            muts.push(("group-other-sender".into(), m));
            let mut m = d.bytes.clone();
            m[16..18].copy_from_slice(&OTHER_GROUP_ID.to_le_bytes());
            muts.push(("group-other-group-id".into(), m));
        }
        if !cfg.group && d.bytes[0] & 0x04 == 0 {
            // a message encrypted under this session's key "as another source node": the nonce built from
            // another node id, the header naming that node, or both (fresh counter, opens an exchange)
            let (key, sess, genuine) = if d.to == 1 { (nodes::key(0x11), 2u16, NODE_A) } else { (nodes::key(0x22), 1u16, NODE_B) };
            let ctr = u32::from_le_bytes([d.bytes[4], d.bytes[5], d.bytes[6], d.bytes[7]]);
            let other = genuine ^ 0x0101;
            for (what, nonce, hdr) in [("other-source-node:nonce-only", other, None), ("other-source-node:header-and-nonce", other, Some(other)), ("other-source-node:header-only", genuine, Some(other))] {
                let bytes = crate::common::wire::craft_secure_src(&key, sess, ctr, nonce, hdr, 0x05, 7, 0x4242, PROTO, None, &[1, 2, 3]);
                muts.push((what.into(), bytes));
            }
        }
        // the same datagram offered to the opposite direction (to its own sender)
        let reverse_target = d.from;
        for (what, bytes) in muts.drain(..) {
            inject_and_check(cfg, &mut w, dest, d.from, d.to, &what, &bytes, &d.bytes, app_before, acc)?;
        }
        if !cfg.group {
            // (a group message offered to its own sender is a valid message for another member of the group)
            inject_and_check(cfg, &mut w, src, d.to, reverse_target, "reverse-direction", &d.bytes, &d.bytes, app_before, acc)?;
        }
        // finally the untouched datagram
        vclock::advance_by_ms(1);
        w.net.deliver(0, false);
        w.exec.run()?;
    }
    // control for the crafted "other source node" messages: the same crafting with the genuine
    // identity must be accepted (otherwise those mutations are rejected for the wrong reason)
    if !cfg.group {
        let ctr = w.a.get().with_state(|st| st.verif_sessions().iter().find(|x| x.get_local_sess_id() == 1).map(|x| x.verif_flags().2)).unwrap_or(0);
        let bytes = crate::common::wire::craft_secure_src(&nodes::key(0x11), 2, ctr.wrapping_add(100), NODE_A, None, 0x05, 7, 0x4343, PROTO, None, &[1, 2, 3]);
        let before = w.log_b.borrow().len();
        w.net.inject(0, 1, bytes);
        let k = w.net.inflight_len() - 1;
        w.net.deliver(k, false);
        w.exec.run()?;
        // (after a violation the node is in a state the property excludes: the control proves nothing then)
        if w.log_b.borrow().len() != before + 1 && acc.report.violations.len() == violations_at_start {
            return Err(format!("harness: a message crafted with the genuine identity was not accepted (cfg {:?})", cfg));
        }
        if w.log_b.borrow().len() == before + 1 {
            w.log_b.borrow_mut().pop();
        }
    }
    // what one node encodes the peer decodes to the identical fields and payload
    let log = w.log_b.borrow();
    if log.len() != 1 || log[0] != (PROTO, 7, payload(cfg.len)) {
        acc.report.violation(
            format!("C03:{:?}:untouched-message-not-decoded-identically", cfg.kind),
            format!("cfg {:?}: application of B saw {:?}", cfg, log.iter().map(|(p, o, b)| (*p, *o, b.len())).collect::<Vec<_>>()),
            json!({"cfg": format!("{:?}", cfg)}),
        );
    } else {
        acc.accepted_untouched += 1;
    }
    if cfg.reliable {
        let rep = w.replies_a.borrow();
        let expect: Vec<u8> = (0..3).map(|i| (i as u8) ^ 0x3c).collect();
        if rep.len() != 1 || rep[0] != (PROTO, 9, expect) {
            acc.report.violation(
                format!("C03:{:?}:untouched-reply-not-decoded-identically", cfg.kind),
                format!("cfg {:?}: application of A saw {:?}", cfg, rep),
                json!({"cfg": format!("{:?}", cfg)}),
            );
        }
    }
    Ok(())
}

#[allow(clippy::too_many_arguments)]
fn inject_and_check(
    cfg: &Cfg,
    w: &mut World,
    dest: &Matter<'static>,
    from: usize,
    to: usize,
    what: &str,
    bytes: &[u8],
    original: &[u8],
    app_before: (usize, usize),
    acc: &mut Acc,
) -> Result<(), String> {
    if bytes == original && what != "reverse-direction" {
        return Ok(());
    }
    acc.injections += 1;
    let before = projection(dest);
    w.net.inject(from, to, bytes.to_vec());
    let k = w.net.inflight_len() - 1;
    w.net.deliver(k, false);
    let r = common::catch(|| w.exec.run());
    let replay = json!({"cfg": format!("{:?}", cfg), "mutation": what, "original": hex(original), "injected": hex(bytes), "to": to});
    match r {
        Err(p) => {
            acc.report.violation(format!("C03:{:?}:panic:{}", cfg.kind, p.class()), format!("{} injected into node {}: {}", what, to, p), replay);
            return Err("panic".into());
        }
        Ok(r) => r?,
    }
    // anything the node says in response (e.g. an unsecured session-not-found report) is dropped
    while w.net.inflight_len() > 1 {
        let k = w.net.inflight_len() - 1;
        w.net.drop_dgram(k);
    }
    let after = projection(dest);
    let app_after = (w.log_b.borrow().len(), w.replies_a.borrow().len());
    if app_after != app_before {
        acc.report.violation(
            format!("C03:{:?}:altered-message-reached-the-application:{}", cfg.kind, what),
            format!("cfg {:?}: {} of a {}-byte datagram was handed to an exchange of node {}", cfg, what, original.len(), to),
            replay.clone(),
        );
    }
    if before != after {
        let diff: Vec<String> = before.iter().zip(after.iter()).filter(|(a, b)| a != b).map(|(a, b)| format!("{} => {}", a, b)).collect();
        acc.report.violation(
            format!("C03:{:?}:rejected-message-changed-session-state:{}", cfg.kind, what),
            format!("cfg {:?}: {} changed node {}'s session table: {:?}", cfg, what, to, diff),
            replay,
        );
    }
    Ok(())
}

pub fn run_check(ctx: &Ctx) -> i32 {
    if ctx.replay.is_some() {
        println!("C03 replay files carry the original and the injected datagram (hex) and the configuration; rerun the check to reproduce (deterministic).");
    }
    let lens: Vec<usize> = if ctx.tier == Tier::Quick { vec![0, 1, 16, 17] } else { vec![0, 1, 2, 15, 16, 17, 31, 32, 33, 100, 1000, 1150] };
    let mut cfgs = Vec::new();
    for kind in [SessKind::Case, SessKind::Pase] {
        for &len in &lens {
            for reliable in [true, false] {
                cfgs.push(Cfg { kind, len, reliable, group: false });
            }
        }
    }
    // group (multicast) data messages; bystander sessions of either kind
    for kind in [SessKind::Case, SessKind::Pase] {
        for &len in &lens {
            if len <= 1000 {
                cfgs.push(Cfg { kind, len, reliable: false, group: true });
            }
        }
    }
    if let Ok(f) = std::env::var("MC_C03_FILTER") {
        cfgs.retain(|c| format!("{:?}", c).contains(&f));
    }
    let results: Vec<Acc> = cfgs
        .par_iter()
        .map(|cfg| {
            let mut acc = Acc::default();
            if let Err(e) = sweep(cfg, &mut acc) {
                if e != "panic" {
                    acc.report.violation("C03:machinery".to_string(), format!("cfg {:?}: {}", cfg, e), json!({}));
                }
            }
            acc
        })
        .collect();
    let mut report = Report::new();
    let (mut inj, mut dg, mut ok) = (0u64, 0u64, 0u64);
    let mut shapes = std::collections::BTreeSet::new();
    let mut machinery = None;
    for a in results {
        inj += a.injections;
        dg += a.datagrams;
        ok += a.accepted_untouched;
        shapes.extend(a.shapes);
        if let Some(v) = a.report.violations.get("C03:machinery") {
            machinery = Some(v.what.clone());
        }
        report.merge(a.report);
    }
    if let Some(m) = machinery {
        eprintln!("MACHINERY: {}", m);
        return 2;
    }
    let mut ev = Evidence::new("exploration");
    ev.set("evaluations", json!(inj))
        .set("distinct_nontrivial", json!(dg))
        .set("exhaustive", json!(true))
        .set("rule", json!(format!("for {} configurations (CASE / PASE session x payload lengths {:?} x reliable / unreliable, plus a group data message per length) every datagram of the honest conversation (request, reply with piggy-backed ack, standalone acks) is attacked before delivery with every single-bit flip, every truncation, extension by 1 and 16 bytes, the session id of another live session, counter +1 / -1 and delivery to the opposite direction (group messages additionally: counter moved by 16 / 17 / 1000 / 2^31 / -16, another sender id, another group id the node holds a key for); the projection includes the per-sender group receive windows and the group transmit counter; distinct_nontrivial = datagrams swept", cfgs.len(), lens)))
        .set("datagram_shapes", json!(shapes.len()))
        .set("untouched_messages_decoded_identically", json!(ok))
        .set("samples", json!([{"cfg": format!("{:?}", cfgs[0]), "mutation": "bitflip:plain-header (byte 1 bit 0: session id)"}]));
    ev.assume("group sessions are not part of this sweep (unicast CASE and PASE only); header shapes are those the sending API can produce");
    ev.assume("replay of an unaltered datagram is C04/C09 territory (duplicates are re-acknowledged, which changes the transmit counter)");
    if report.violations.is_empty() && (inj == 0 || ok == 0) {
        eprintln!("MACHINERY: vacuous C03 run (injections {}, accepted {})", inj, ok);
        return 2;
    }
    common::finish(ctx, report, ev)
}
