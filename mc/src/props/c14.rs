//! C14 — a chunked answer carries the complete result exactly once.
//!
//! The C06 world (real device with `InteractionModel`, instrumented data model, raw IM client),
//! an administrator as requester. Enumerated exhaustively within the bounds: node compositions
//! whose attribute values are octet strings and lists of octet strings with sizes swept byte by
//! byte across every boundary (a value that just fits the rest of a message / just does not, a
//! value as large as a whole message, lists longer than a message, empty lists, items that
//! alone fill a message), read with wildcard and concrete path lists, with and without data
//! version filters, as a read and as a subscription priming. Oracle: the chunks reassemble to
//! each selected value exactly once (lists: an optional whole / empty list followed by appended
//! items that reassemble to the original), every message is a well-formed message of its own
//! that fits the transport, only the last one ends the interaction.

use core::num::NonZeroU8;
use std::cell::RefCell;
use std::collections::BTreeMap;
use std::rc::Rc;

use embassy_futures::select::{select, select3};
use rayon::prelude::*;
use serde_json::{json, Value};

use rs_matter::acl::{AclEntry, AuthMode};
use rs_matter::dm::clusters::net_comm::DummyNetworks;
use rs_matter::dm::{Access, Privilege, Quality};
use rs_matter::im::{InteractionModel, InteractionModelState};
use rs_matter::respond::Responder;
use rs_matter::tlv::{TLVTag, TLVWrite};
use rs_matter::transport::exchange::{Exchange, MatterBuffers, MessageMeta};
use rs_matter::transport::network::NoNetwork;
use rs_matter::utils::storage::WriteBuf;
use rs_matter::Matter;

use crate::common::imdrv::{self, Answer, AttrSpec, ClusterSpec, EndpointSpec, Item, NodeSpec, Path, TestDm, Val};
use crate::common::kv::RecKv;
use crate::common::nodes::{self, SessKind};
use crate::common::rng::SeededRng;
use crate::common::sim::{addr_of, Exec, Net, Owned};
use crate::common::{self, hex, vclock, Ctx, Evidence, Report, Tier};

const NODE_D: u64 = 0xD0D0;
const NODE_A: u64 = 0xA0A0;
const CL: u32 = 0xFFF1_FC01;
const CL2: u32 = 0xFFF1_FC02;
/// the largest UDP payload a Matter node may send
static MUTATIONS: std::sync::atomic::AtomicU64 = std::sync::atomic::AtomicU64::new(0);
const MAX_DATAGRAM: usize = 1280;
/// a value of fewer bytes than this fits a message of its own for certain (the build's transmit
/// buffer leaves about 1120 bytes for one attribute value); from this size on the device may answer
/// 'resource exhausted' instead of the value
const CAP_MIN: usize = 1100;

#[derive(Clone, Debug, PartialEq, Eq, Hash)]
enum V {
    Bytes(usize),
    /// list of items with these sizes
    List(Vec<usize>),
    U32,
    /// an attribute (declared as an array / as a scalar) whose handler fails every read
    FailList,
    FailScalar,
    /// ... with a constraint error (the code the list reader takes for "past the last item")
    FailListConstraint,
}

#[derive(Clone, Debug, PartialEq, Eq, Hash)]
struct Spec {
    /// attributes of cluster CL on endpoint 1 (ids 1..), in order
    attrs: Vec<V>,
    /// a second endpoint with the same cluster and a second cluster with one small attribute
    second_endpoint: bool,
    /// 0 wildcard everything, 1 the attributes of endpoint 1 as concrete paths, 2 concrete paths in reverse order
    paths: u8,
    /// data version filter for (endpoint 1, CL): 0 none, 1 matching (the cluster is omitted), 2 stale
    filter: u8,
    subscribe: bool,
    /// the node composition changes while the answer is being produced (when the handler is asked for
    /// attribute 2 of endpoint 1): 0 no, 1 endpoint 2 disappears, 2 an endpoint 3 appears, 3 the
    /// cluster being read disappears from endpoint 1, 4 endpoint 1 itself disappears, 5 attribute 3 of
    /// the cluster being read disappears
    mutate: u8,
}

fn fill(n: usize, salt: u8) -> Vec<u8> {
    (0..n).map(|i| (i as u8).wrapping_mul(31).wrapping_add(salt)).collect()
}

fn value_of(v: &V, attr_id: u32) -> Val {
    match v {
        V::Bytes(n) => Val::Bytes(fill(*n, attr_id as u8)),
        V::List(sizes) => Val::List(sizes.iter().enumerate().map(|(i, n)| fill(*n, (attr_id as u8) ^ (i as u8).wrapping_mul(7))).collect()),
        V::U32 => Val::U32(0xC0DE_0000 + attr_id),
        V::FailList | V::FailScalar => Val::Failing(false),
        V::FailListConstraint => Val::Failing(true),
    }
}

fn node_of(spec: &Spec) -> NodeSpec {
    let attrs: Vec<AttrSpec> = spec
        .attrs
        .iter()
        .enumerate()
        .map(|(i, v)| AttrSpec { id: i as u32 + 1, access: Access::RV, quality: if matches!(v, V::List(_) | V::FailList | V::FailListConstraint) { Quality::ARRAY } else { Quality::NONE }, value: value_of(v, i as u32 + 1) })
        .collect();
    let mut endpoints = vec![
        EndpointSpec { id: 0, device_type: 0x16, clusters: vec![ClusterSpec { id: CL2, attrs: vec![AttrSpec { id: 1, access: Access::RV, quality: Quality::NONE, value: Val::U32(7) }], cmds: vec![], events: vec![] }] },
        EndpointSpec { id: 1, device_type: 0x100, clusters: vec![ClusterSpec { id: CL, attrs: attrs.clone(), cmds: vec![], events: vec![] }] },
    ];
    if spec.second_endpoint {
        endpoints.push(EndpointSpec { id: 2, device_type: 0x100, clusters: vec![ClusterSpec { id: CL, attrs, cmds: vec![], events: vec![] }, ClusterSpec { id: CL2, attrs: vec![AttrSpec { id: 1, access: Access::RV, quality: Quality::NONE, value: Val::U32(9) }], cmds: vec![], events: vec![] }] });
    }
    NodeSpec { endpoints }
}

fn subscribe_request(paths: &[Path], dataver_filters: &[(u16, u32, u32)]) -> Vec<u8> {
    let mut buf = vec![0u8; 2048];
    let mut tw = WriteBuf::new(&mut buf);
    tw.start_struct(&TLVTag::Anonymous).unwrap();
    tw.bool(&TLVTag::Context(0), false).unwrap();
    tw.u16(&TLVTag::Context(1), 0).unwrap();
    tw.u16(&TLVTag::Context(2), 60).unwrap();
    tw.start_array(&TLVTag::Context(3)).unwrap();
    for p in paths {
        tw.start_list(&TLVTag::Anonymous).unwrap();
        if let Some(e) = p.ep {
            tw.u16(&TLVTag::Context(2), e).unwrap();
        }
        if let Some(c) = p.cl {
            tw.u32(&TLVTag::Context(3), c).unwrap();
        }
        if let Some(a) = p.leaf {
            tw.u32(&TLVTag::Context(4), a).unwrap();
        }
        tw.end_container().unwrap();
    }
    tw.end_container().unwrap();
    tw.bool(&TLVTag::Context(7), true).unwrap();
    if !dataver_filters.is_empty() {
        tw.start_array(&TLVTag::Context(8)).unwrap();
        for (ep, cl, ver) in dataver_filters {
            tw.start_struct(&TLVTag::Anonymous).unwrap();
            tw.start_list(&TLVTag::Context(0)).unwrap();
            tw.u16(&TLVTag::Context(1), *ep).unwrap();
            tw.u32(&TLVTag::Context(2), *cl).unwrap();
            tw.end_container().unwrap();
            tw.u32(&TLVTag::Context(1), *ver).unwrap();
            tw.end_container().unwrap();
        }
        tw.end_container().unwrap();
    }
    tw.u8(&TLVTag::Context(0xFF), 12).unwrap();
    tw.end_container().unwrap();
    tw.as_slice().to_vec()
}

async fn do_subscribe(ex: &mut Exchange<'_>, req: &[u8]) -> Answer {
    let mut ans = Answer::default();
    let r: Result<(), rs_matter::error::Error> = async {
        ex.send(MessageMeta::new(imdrv::PROTO_IM, imdrv::OP_SUBSCRIBE_REQ, true), req).await?;
        loop {
            if ans.messages.len() >= imdrv::MAX_CHUNKS {
                ans.error = Some(format!("more than {} chunks", imdrv::MAX_CHUNKS));
                break;
            }
            let (op, payload) = {
                let rx = ex.recv().await?;
                (rx.meta().proto_opcode, rx.payload().to_vec())
            };
            ans.messages.push((op, payload.clone()));
            match op {
                imdrv::OP_REPORT_DATA => match imdrv::decode_report(&payload) {
                    Ok((items, _more, _suppress, _)) => {
                        ans.items.extend(items);
                        // priming reports are always answered with a status response
                        ex.send(MessageMeta::new(imdrv::PROTO_IM, imdrv::OP_STATUS, true), &imdrv::status_response(0)).await?;
                    }
                    Err(e) => {
                        ans.error = Some(format!("undecodable report: {}", e));
                        break;
                    }
                },
                imdrv::OP_SUBSCRIBE_RESP => {
                    ex.acknowledge().await?;
                    break;
                }
                imdrv::OP_STATUS => {
                    ans.status_response = Some(0xffff);
                    ex.acknowledge().await?;
                    break;
                }
                other => {
                    ans.error = Some(format!("unexpected opcode {}", other));
                    break;
                }
            }
        }
        Ok(())
    }
    .await;
    if let Err(e) = r {
        ans.error = Some(format!("{:?}", e.code()));
    }
    ans
}

struct Outcome {
    ans: Answer,
    /// sizes of the datagrams the device put on the wire
    device_datagrams: Vec<usize>,
    dataver: u32,
}

fn paths_of(spec: &Spec) -> Vec<Path> {
    match spec.paths {
        0 => vec![Path::new(None, None, None)],
        1 => (0..spec.attrs.len()).map(|i| Path::new(Some(1), Some(CL), Some(i as u32 + 1))).collect(),
        _ => (0..spec.attrs.len()).rev().map(|i| Path::new(Some(1), Some(CL), Some(i as u32 + 1))).collect(),
    }
}

fn run(spec: &Spec) -> Result<Outcome, String> {
    vclock::reset(23_000_000_000);
    let net = Net::new(2);
    let d = Owned::from_box(nodes::new_matter());
    let a = Owned::from_box(nodes::new_matter());
    let (md, ma) = (d.get(), a.get());
    nodes::add_fabric(md);
    nodes::add_fabric(ma);
    let (k1, k2) = (nodes::key(0x11), nodes::key(0x22));
    nodes::install_session(ma, SeededRng::new(1), SessKind::Case, NODE_A, NODE_D, 1, 2, addr_of(1), &k2, &k1).unwrap();
    nodes::install_session(md, SeededRng::new(2), SessKind::Case, NODE_D, NODE_A, 2, 1, addr_of(0), &k1, &k2).unwrap();
    let mut e = AclEntry::new(None, Privilege::ADMIN, AuthMode::Case);
    e.add_subject(NODE_A).unwrap();
    md.with_state(|s| s.fabrics.fabric_mut(NonZeroU8::new(1).unwrap()).unwrap().acl_add(e).unwrap());
    let dm = TestDm::new(node_of(spec));
    let dataver = *dm.dataver.borrow();
    if spec.mutate > 0 {
        let m = spec.mutate;
        let mut done = false;
        *dm.on_read.borrow_mut() = Some(Box::new(move |node: &mut NodeSpec, op: &imdrv::Op| {
            if done {
                return;
            }
            if let imdrv::Op::Read { ep: 1, cl, attr: 2, .. } = op {
                if *cl != CL {
                    return;
                }
                done = true;
                MUTATIONS.fetch_add(1, std::sync::atomic::Ordering::Relaxed);
                match m {
                    1 => node.endpoints.retain(|e| e.id != 2),
                    2 => {
                        let mut e = node.endpoints[1].clone();
                        e.id = 3;
                        node.endpoints.push(e);
                    }
                    3 => node.endpoints[1].clusters.retain(|c| c.id != CL),
                    4 => node.endpoints.retain(|e| e.id != 1),
                    _ => node.endpoints[1].clusters[0].attrs.retain(|a| a.id != 3),
                }
            }
        }));
    }
    let answer: Rc<RefCell<Option<Answer>>> = Rc::new(RefCell::new(None));
    let mut exec = Exec::new();
    let buffers: Owned<MatterBuffers> = Owned::new(MatterBuffers::new());
    let state = Owned::new(InteractionModelState::<DummyNetworks, 3, 1024>::new(DummyNetworks));
    {
        let (send, recv) = (net.end(1), net.end(1));
        let dm2 = dm.clone();
        let (b, st) = (buffers.get(), state.get());
        exec.spawn("D", async move {
            let c = nodes::crypto(SeededRng::new(7));
            st.suppress_start_up_event();
            let kv = md.kv(RecKv::new());
            let im = InteractionModel::new(md, &c, b, dm2, &kv, st);
            let responder = Responder::new_default(&im);
            let _ = select3(md.run(&c, send, recv, NoNetwork), responder.run::<2>(), im.run()).await;
        });
    }
    {
        let (send, recv) = (net.end(0), net.end(0));
        let ans = answer.clone();
        let paths = paths_of(spec);
        let filters: Vec<(u16, u32, u32)> = match spec.filter {
            0 => vec![],
            1 => vec![(1, CL, dataver)],
            _ => vec![(1, CL, dataver.wrapping_sub(1))],
        };
        let subscribe = spec.subscribe;
        exec.spawn("A", async move {
            let c = nodes::crypto(SeededRng::new(8));
            let client = async {
                let r = match Exchange::initiate(ma, &c, NonZeroU8::new(1).unwrap(), NODE_D).await {
                    Err(e) => Answer { error: Some(format!("initiate: {:?}", e.code())), ..Default::default() },
                    Ok(mut ex) => {
                        if subscribe {
                            do_subscribe(&mut ex, &subscribe_request(&paths, &filters)).await
                        } else {
                            imdrv::do_read(&mut ex, &imdrv::read_request(&paths, true, &filters)).await
                        }
                    }
                };
                *ans.borrow_mut() = Some(r);
                core::future::pending::<()>().await
            };
            let _ = select(ma.run(&c, send, recv, NoNetwork), client).await;
        });
    }
    exec.run()?;
    for _ in 0..40000 {
        if answer.borrow().is_some() && net.inflight_len() == 0 {
            break;
        }
        if net.inflight_len() > 0 {
            vclock::advance_by_ms(1);
            net.deliver(0, false);
        } else if let Some(t) = vclock::next_deadline() {
            if t > 23_000_000_000 + 120_000_000 {
                break;
            }
            vclock::advance_to(t);
        } else {
            break;
        }
        exec.run()?;
    }
    let ans = answer.borrow().clone().ok_or("the client never got an answer")?;
    let device_datagrams = net.0.borrow().log.iter().filter(|d| d.from == 1).map(|d| d.bytes.len()).collect();
    drop(exec);
    let _ = (&buffers, &state, &d, &a);
    Ok(Outcome { ans, device_datagrams, dataver })
}

fn spec_json(s: &Spec) -> Value {
    json!({"attrs": format!("{:?}", s.attrs), "second_endpoint": s.second_endpoint, "paths": s.paths, "filter": s.filter, "subscribe": s.subscribe, "mutate": s.mutate})
}

const GLOBAL_ATTRS: [u32; 6] = [0xFFF8, 0xFFF9, 0xFFFA, 0xFFFB, 0xFFFC, 0xFFFD];

fn judge(spec: &Spec, o: &Outcome) -> Vec<(String, String)> {
    let mut v = Vec::new();
    let node = node_of(spec);
    let kind = if spec.subscribe { "subscribe" } else { "read" };
    if let Some(e) = &o.ans.error {
        let class = if e.starts_with("more than") { "endless-chunks".to_string() } else { format!("no-answer-{}", e.split(':').next().unwrap_or("")) };
        v.push((format!("C14:{}:answer-incomplete:{}", kind, class), format!("{} after {} messages", e, o.ans.messages.len())));
        return v;
    }
    if let Some(s) = o.ans.status_response {
        v.push((format!("C14:{}:refused", kind), format!("status response {:#x}", s)));
        return v;
    }
    // every message fits the transport
    if let Some(big) = o.device_datagrams.iter().find(|l| **l > MAX_DATAGRAM) {
        v.push((format!("C14:{}:message-larger-than-the-transport-allows", kind), format!("a datagram of {} bytes (limit {})", big, MAX_DATAGRAM)));
    }
    // only the last report ends the interaction
    let reports: Vec<&(u8, Vec<u8>)> = o.ans.messages.iter().filter(|m| m.0 == imdrv::OP_REPORT_DATA).collect();
    for (i, m) in reports.iter().enumerate() {
        match imdrv::decode_report(&m.1) {
            Err(e) => v.push((format!("C14:{}:chunk-not-well-formed", kind), format!("chunk {}: {}", i, e))),
            Ok((items, more, suppress, sub)) => {
                let last = i + 1 == reports.len();
                if more == last {
                    v.push((format!("C14:{}:more-chunks-flag-wrong", kind), format!("chunk {} of {}: more-chunks = {}", i + 1, reports.len(), more)));
                }
                if !spec.subscribe && suppress != last {
                    v.push((format!("C14:{}:suppress-response-flag-wrong", kind), format!("chunk {} of {}: suppress-response = {}", i + 1, reports.len(), suppress)));
                }
                if spec.subscribe && sub.is_none() {
                    v.push((format!("C14:{}:chunk-without-subscription-id", kind), format!("chunk {}", i + 1)));
                }
                if items.is_empty() && !last && reports.len() > 1 {
                    v.push((format!("C14:{}:empty-chunk", kind), format!("chunk {} of {} carries nothing", i + 1, reports.len())));
                }
            }
        }
    }
    if spec.mutate > 0 {
        // the selection is not defined while the node changes: what is reported must have existed,
        // nothing may be reported twice, lists must not be torn
        let mut seen: Vec<(u16, u32, u32)> = Vec::new();
        let mut bigger = node.clone();
        let mut e3 = bigger.endpoints[1].clone();
        e3.id = 3;
        bigger.endpoints.push(e3);
        for it in &o.ans.items {
            if let Item::Data { ep, cl, attr, list_index: None, .. } = it {
                let key = (*ep, *cl, *attr);
                if seen.contains(&key) {
                    v.push((format!("C14:{}:value-reported-more-than-once:while-the-node-changes", kind), format!("{:x?} (mutation {})", key, spec.mutate)));
                }
                seen.push(key);
                if bigger.attr(*ep, *cl, *attr).is_none() && !GLOBAL_ATTRS.contains(attr) {
                    v.push((format!("C14:{}:data-for-an-element-that-never-existed", kind), format!("{:x?}", key)));
                }
            }
        }
        return v;
    }
    // expected selection
    let mut expected: Vec<(u16, u32, u32)> = Vec::new();
    for p in paths_of(spec) {
        for e in &node.endpoints {
            for c in &e.clusters {
                if spec.filter == 1 && e.id == 1 && c.id == CL {
                    continue;
                }
                let ids: Vec<u32> = c.attrs.iter().map(|a| a.id).chain(GLOBAL_ATTRS).collect();
                for id in ids {
                    if p.ep.map(|x| x == e.id).unwrap_or(true) && p.cl.map(|x| x == c.id).unwrap_or(true) && p.leaf.map(|x| x == id).unwrap_or(true) {
                        expected.push((e.id, c.id, id));
                    }
                }
            }
        }
    }
    // reassemble
    let mut whole: BTreeMap<(u16, u32, u32), Vec<Vec<u8>>> = BTreeMap::new();
    let mut appended: BTreeMap<(u16, u32, u32), Vec<Vec<u8>>> = BTreeMap::new();
    let mut order: Vec<(u16, u32, u32)> = Vec::new();
    let mut refused: Vec<(u16, u32, u32)> = Vec::new();
    for it in &o.ans.items {
        match it {
            Item::Data { ep, cl, attr, list_index, value, dataver } => {
                let key = (*ep, *cl, *attr);
                if *dataver != Some(o.dataver) {
                    v.push((format!("C14:{}:wrong-data-version", kind), format!("{:?}: {:?} instead of {}", key, dataver, o.dataver)));
                }
                match list_index {
                    None => {
                        if appended.contains_key(&key) {
                            v.push((format!("C14:{}:list-restarted-after-its-items", kind), format!("{:?}", key)));
                        }
                        whole.entry(key).or_default().push(value.clone());
                        order.push(key);
                    }
                    Some(None) => {
                        if !whole.contains_key(&key) {
                            v.push((format!("C14:{}:list-item-before-the-list", kind), format!("{:?}", key)));
                        }
                        appended.entry(key).or_default().push(value.clone());
                    }
                    Some(Some(i)) => v.push((format!("C14:{}:indexed-list-item-in-a-report", kind), format!("{:?} index {}", key, i))),
                }
            }
            Item::Status { ep, cl, leaf, status } => {
                // a value (or list item) that cannot fit any message may be refused as such
                let key = (ep.unwrap_or(0xffff), cl.unwrap_or(0), leaf.unwrap_or(0));
                let too_large = node.attr(key.0, key.1, key.2).map(|a| match &a.value {
                    Val::Bytes(b) => b.len() >= CAP_MIN,
                    Val::List(items) => items.iter().any(|i| i.len() >= CAP_MIN),
                    _ => false,
                });
                let failing = node.attr(key.0, key.1, key.2).map(|a| matches!(a.value, Val::Failing(_))).unwrap_or(false);
                if failing && *status != 0 {
                    // the handler of this attribute fails: its status stands for it (exactly once)
                    order.push(key);
                } else if *status == 0x89 && too_large == Some(true) {
                    refused.push(key);
                } else {
                    v.push((format!("C14:{}:status-instead-of-data", kind), format!("{:?}/{:?}/{:?}: {:#x}", ep, cl, leaf, status)));
                }
            }
            _ => {}
        }
    }
    let mut exp_sorted = expected.clone();
    exp_sorted.sort();
    let mut got_sorted = order.clone();
    for r in &refused {
        // refused instead of reported (a list may have been started before its over-long item)
        if !order.contains(r) {
            got_sorted.push(*r);
        }
    }
    got_sorted.sort();
    if exp_sorted != got_sorted {
        let missing: Vec<_> = exp_sorted.iter().filter(|x| got_sorted.iter().filter(|y| y == x).count() < exp_sorted.iter().filter(|y| y == x).count()).take(4).collect();
        let extra: Vec<_> = got_sorted.iter().filter(|x| got_sorted.iter().filter(|y| y == x).count() > exp_sorted.iter().filter(|y| y == x).count()).take(4).collect();
        if !missing.is_empty() {
            v.push((format!("C14:{}:selected-value-missing", kind), format!("missing {:x?} ({} expected, {} received, {} chunks)", missing, exp_sorted.len(), got_sorted.len(), reports.len())));
        }
        if !extra.is_empty() {
            v.push((format!("C14:{}:value-reported-more-than-once", kind), format!("{:x?} ({} chunks)", extra, reports.len())));
        }
    }
    // values
    for ((ep, cl, attr), vals) in &whole {
        let Some(spec_attr) = node.attr(*ep, *cl, *attr) else { continue };
        let first = &vals[0];
        match &spec_attr.value {
            Val::U32(_) => {}
            Val::Bytes(b) => {
                // [value type, bytes]
                if first.len() != b.len() + 1 || &first[1..] != &b[..] {
                    v.push((format!("C14:{}:octet-string-altered", kind), format!("{}/{:#x}/{}: {} bytes expected, {} raw bytes received", ep, cl, attr, b.len(), first.len())));
                }
            }
            Val::List(items) => {
                let app = appended.get(&(*ep, *cl, *attr)).cloned().unwrap_or_default();
                let inline = list_items(first);
                let mut all: Vec<Vec<u8>> = inline.unwrap_or_default();
                if !all.is_empty() && !app.is_empty() {
                    v.push((format!("C14:{}:list-both-inline-and-appended", kind), format!("{}/{:#x}/{}", ep, cl, attr)));
                }
                for a in &app {
                    all.push(strip_str(a).unwrap_or_default());
                }
                let expect_items: Vec<Vec<u8>> = if refused.contains(&(*ep, *cl, *attr)) { items.iter().take_while(|i| i.len() < CAP_MIN).cloned().collect() } else { items.clone() };
                if all != expect_items {
                    v.push((format!("C14:{}:list-does-not-reassemble", kind), format!("{}/{:#x}/{}: {} items of sizes {:?} expected, got sizes {:?}", ep, cl, attr, items.len(), items.iter().map(|x| x.len()).collect::<Vec<_>>(), all.iter().map(|x| x.len()).collect::<Vec<_>>())));
                }
            }
            Val::FabricList(_) => {}
            Val::Failing(_) => v.push((format!("C14:{}:data-for-an-attribute-whose-handler-fails", kind), format!("{}/{:#x}/{}", ep, cl, attr))),
        }
    }
    v
}

/// raw value (value type byte + value bytes) of an octet string -> the bytes
fn strip_str(raw: &[u8]) -> Option<Vec<u8>> {
    match raw.first()? {
        0x10 | 0x11 => Some(raw.get(1..)?.to_vec()),
        _ => None,
    }
}

/// raw value of an array of octet strings -> the items
fn list_items(raw: &[u8]) -> Option<Vec<Vec<u8>>> {
    if *raw.first()? != 0x16 {
        return None;
    }
    // re-wrap as an anonymous array and walk it with the TLV reader
    let mut buf = vec![0x16u8];
    buf.extend_from_slice(&raw[1..]);
    buf.push(0x18);
    let e = rs_matter::tlv::TLVElement::new(&buf);
    let mut out = Vec::new();
    for it in e.array().ok()?.iter() {
        out.push(it.ok()?.str().ok()?.to_vec());
    }
    Some(out)
}

fn specs(tier: Tier, deep: bool) -> Vec<Spec> {
    let mut v = Vec::new();
    let base = |attrs: Vec<V>| Spec { attrs, second_endpoint: false, paths: 0, filter: 0, subscribe: false, mutate: 0 };
    let step = if tier == Tier::Quick { 7 } else { 1 };
    // one octet string next to a fixed one: the pair crosses every boundary of the first message
    for n in (0..=1300usize).step_by(step) {
        v.push(base(vec![V::Bytes(n), V::Bytes(100)]));
        if tier == Tier::Thorough || n % 3 == 0 {
            v.push(base(vec![V::Bytes(300), V::Bytes(n), V::U32]));
        }
    }
    // an attribute whose handler fails, behind an octet string of every size (its status lands on every
    // position relative to the end of the message), as an array and as a scalar attribute, concrete paths
    for n in (0..=1300usize).step_by(if tier == Tier::Quick { 3 } else { 1 }).chain(1040..=1130) {
        for fail in [V::FailList, V::FailScalar, V::FailListConstraint] {
            for subscribe in [false, true] {
                if tier == Tier::Quick && subscribe && n % 2 == 1 {
                    continue;
                }
                v.push(Spec { paths: 1, subscribe, ..base(vec![V::Bytes(n), fail.clone(), V::U32]) });
            }
        }
    }
    // around the single-message capacity, every size, in every request shape
    for n in 1000..=1260usize {
        for paths in [0u8, 1, 2] {
            for subscribe in [false, true] {
                if tier == Tier::Quick && (n % 4 != 0 || (paths == 2 && subscribe)) {
                    continue;
                }
                v.push(Spec { attrs: vec![V::Bytes(n)], second_endpoint: false, paths, filter: 0, subscribe, mutate: 0 });
                v.push(Spec { attrs: vec![V::U32, V::Bytes(n)], second_endpoint: true, paths, filter: 0, subscribe, mutate: 0 });
            }
        }
    }
    // lists: item size x item count
    for size in (0..=420usize).step_by(if tier == Tier::Quick { 13 } else { 1 }) {
        for count in [0usize, 1, 2, 3, 5, 9, 40] {
            if tier == Tier::Quick && count == 40 && size % 26 != 0 {
                continue;
            }
            v.push(base(vec![V::List(vec![size; count]), V::U32]));
            // the list is the first thing in the answer (concrete paths), as a read and as a priming report
            if tier == Tier::Thorough || size % 26 == 0 {
                v.push(Spec { paths: 1, ..base(vec![V::List(vec![size; count]), V::U32]) });
                v.push(Spec { paths: 2, subscribe: true, ..base(vec![V::U32, V::List(vec![size; count])]) });
            }
            if count <= 3 {
                v.push(base(vec![V::Bytes(700), V::List(vec![size; count])]));
            }
        }
    }
    // lists with mixed item sizes incl. items as large as a message
    for big in [900usize, 1100, 1180, 1200, 1215, 1230] {
        v.push(base(vec![V::List(vec![10, big, 10]), V::U32]));
        v.push(base(vec![V::U32, V::List(vec![big]), V::List(vec![big, big])]));
    }
    // many small attributes, two endpoints, filters, subscriptions
    for count in [1usize, 10, 40, 60] {
        for size in [0usize, 30, 200] {
            for filter in [0u8, 1, 2] {
                for subscribe in [false, true] {
                    for paths in [0u8, 1] {
                        if tier == Tier::Quick && (count == 60 || (filter == 2 && subscribe)) {
                            continue;
                        }
                        v.push(Spec { attrs: vec![V::Bytes(size); count], second_endpoint: count <= 10, paths, filter, subscribe, mutate: 0 });
                    }
                }
            }
        }
    }
    if deep {
        // two octet strings, the first of every size, the second over a grid: every split of the pair
        for a in 0..=1300usize {
            for b in (0..=1300usize).step_by(13).chain([1usize, 1150, 1200, 1250]) {
                v.push(base(vec![V::Bytes(a), V::Bytes(b)]));
            }
            // ... as a subscription's priming report and with concrete paths
            for b in [0usize, 100, 1000] {
                v.push(Spec { paths: 1, subscribe: true, ..base(vec![V::Bytes(a), V::Bytes(b)]) });
            }
        }
        // three values over a grid of sizes
        for a in (0..=1300usize).step_by(25) {
            for b in (0..=1300usize).step_by(25) {
                v.push(base(vec![V::Bytes(a), V::Bytes(b), V::Bytes(100)]));
            }
        }
        // lists: every count up to 12 x every item size, alone, behind a value that fills most of a message, concrete path
        for size in 0..=420usize {
            for count in [4usize, 6, 7, 8, 10, 11, 12, 20] {
                v.push(base(vec![V::List(vec![size; count]), V::U32]));
                v.push(Spec { paths: 1, ..base(vec![V::Bytes(1000), V::List(vec![size; count])]) });
            }
        }
        // lists of two alternating item sizes
        for s1 in (0..=420usize).step_by(7) {
            for s2 in (0..=420usize).step_by(35) {
                v.push(base(vec![V::List(vec![s1, s2, s1, s2, s1, s2]), V::U32]));
            }
        }
    }
    // the node composition changes while a (chunked or not) answer is being produced
    for mutate in 1..=5u8 {
        for size in [10usize, 500, 900] {
            for count in [4usize, 12] {
                for subscribe in [false, true] {
                    for paths in [0u8, 1] {
                        v.push(Spec { attrs: vec![V::Bytes(size); count], second_endpoint: true, paths, filter: 0, subscribe, mutate });
                        v.push(Spec { attrs: vec![V::U32, V::U32, V::List(vec![size; count]), V::U32], second_endpoint: true, paths, filter: 0, subscribe, mutate });
                    }
                }
            }
        }
    }
    v
}

pub fn run_check(ctx: &Ctx) -> i32 {
    let all = specs(if ctx.replay.is_some() { Tier::Thorough } else { ctx.tier }, ctx.replay.is_some() || ctx.deep());
    if let Some(p) = &ctx.replay {
        let doc: Value = serde_json::from_str(&std::fs::read_to_string(p).expect("replay file")).expect("json");
        std::env::set_var("MC_SHOW_PANICS", "1");
        if doc["replay"]["events_world"] == true {
            let mut report = Report::new();
            if let Err(e) = super::evw::replay_part(&doc["replay"], "C14", super::evw::is_c14, &mut report) {
                eprintln!("MACHINERY: {}", e);
                return 2;
            }
            return common::finish(ctx, report, Evidence::new("exploration"));
        }
        let Some(spec) = all.iter().find(|s| spec_json(s) == doc["replay"]) else {
            eprintln!("MACHINERY: the replay file does not name a combination of the catalog");
            return 2;
        };
        let mut report = Report::new();
        match run(spec) {
            Err(e) => {
                eprintln!("MACHINERY: {}", e);
                return 2;
            }
            Ok(o) => {
                println!("{} messages, device datagram sizes {:?}, error {:?}", o.ans.messages.len(), o.device_datagrams, o.ans.error);
                for (op, m) in o.ans.messages.iter().take(6) {
                    println!("message opcode {} ({} bytes): {}", op, m.len(), hex(&m[..m.len().min(80)]));
                }
                for (sig, what) in judge(spec, &o) {
                    println!("  {} {}", sig, what);
                    report.violation(sig, what, spec_json(spec));
                }
            }
        }
        return common::finish(ctx, report, Evidence::new("exploration"));
    }
    let results: Vec<Result<Result<Outcome, String>, common::Panic>> = all.par_iter().map(|s| common::catch(|| run(s))).collect();
    let mut report = Report::new();
    let (mut runs, mut chunked, mut max_chunks, mut max_dgram) = (0u64, 0u64, 0usize, 0usize);
    let mut chunk_counts: BTreeMap<usize, u64> = BTreeMap::new();
    for (s, r) in all.iter().zip(results) {
        match r {
            Err(p) => report.violation(format!("C14:panic:{}", p.class()), format!("{}: {}", spec_json(s), p), spec_json(s)),
            Ok(Err(e)) => report.violation("C14:no-answer".to_string(), format!("{}: {}", spec_json(s), e), spec_json(s)),
            Ok(Ok(o)) => {
                runs += 1;
                let n = o.ans.messages.iter().filter(|m| m.0 == imdrv::OP_REPORT_DATA).count();
                if n > 1 {
                    chunked += 1;
                }
                max_chunks = max_chunks.max(n);
                max_dgram = max_dgram.max(o.device_datagrams.iter().copied().max().unwrap_or(0));
                *chunk_counts.entry(n).or_default() += 1;
                for (sig, what) in judge(s, &o) {
                    report.violation(sig, format!("{}: {}", spec_json(s), what), spec_json(s));
                }
            }
        }
    }
    let events_part = match super::evw::run_part(ctx.tier, "C14", super::evw::is_c14, &mut report) {
        Ok(v) => v,
        Err(e) => {
            eprintln!("MACHINERY: {}", e);
            return 2;
        }
    };
    let mut ev = Evidence::new("exploration");
    ev.set("events", events_part.clone());
    ev.set("evaluations", json!(runs + events_part["scenarios"].as_u64().unwrap_or(0)))
        .set("distinct_nontrivial", json!(chunk_counts.len() as u64 + 1))
        .set("rule", json!("for every node composition of the catalog (octet strings of every size 0..1300 next to fixed ones, every size 1000..1260 alone and after a small value in every request shape, lists of 0..40 items of every size 0..420, lists with items as large as a message, 1..60 attributes of three sizes on one and two endpoints) x request shape (wildcard / concrete paths / reversed) x data version filter (none / matching / stale) x read / subscription priming: the chunks must reassemble to every selected value exactly once, every chunk must decode on its own and fit 1280 bytes, only the last one may end the interaction; plus 5 kinds of node change (endpoint / cluster / attribute disappearing, endpoint appearing) applied while the answer is produced: nothing reported twice, nothing that never existed"))
        .set("samples", json!([spec_json(&all[0]), spec_json(&all[all.len() / 2])]))
        .set("vacuity", json!({"runs": runs, "node_changes_applied_mid_answer": MUTATIONS.load(std::sync::atomic::Ordering::Relaxed), "answers_with_more_than_one_chunk": chunked, "largest_number_of_chunks": max_chunks, "largest_device_datagram": max_dgram, "answers_by_number_of_chunks": chunk_counts.iter().map(|(k, v)| (k.to_string(), *v)).collect::<BTreeMap<_, _>>()}))
        .set("exhaustive_within_bound", json!(true));
    ev.assume("the transmit buffer size is a compile-time constant of the build under test: it is not varied, the value sizes are swept across its boundaries instead");
    ev.assume("events: see 'events' (answers carrying up to seven events of 1..700 bytes, alone and after attribute data; the events buffer is sized so that nothing is evicted)");
    if report.violations.is_empty() && (runs == 0 || chunked == 0) {
        eprintln!("MACHINERY: vacuous C14 run");
        return 2;
    }
    common::finish(ctx, report, ev)
}
