//! Events world (serves C06, C13 and C14): a real device (`Matter` + `InteractionModel` + responder)
//! over the instrumented data model with declared events, an emitter seam through which the harness
//! makes the application emit events (`InteractionModel::emit_event`, the call cluster handlers
//! make), and a client with CASE sessions on two fabrics and a PASE session that reads or subscribes
//! to events with raw IM requests.
//!
//! Exhaustive within the catalogs: access-control level x requester x event-path shape x
//! fabric-filter flag x minimum-event-number filter x emission script (plain and fabric-sensitive
//! events of both fabrics, three priorities, payload sizes that make an answer span several
//! messages) x read / subscription (priming report and two follow-up reports). The oracle is a
//! reference written from the property texts: which of the emitted events the requester may see
//! (C06), each of them exactly once, in order, unmodified, in well-formed messages of at most
//! 1280 bytes of which only the last ends the interaction (C14), and events emitted after the
//! priming report arrive in a later report (C13).

use core::num::NonZeroU8;
use std::cell::RefCell;
use std::collections::VecDeque;
use std::rc::Rc;

use embassy_futures::select::{select, select3, select4};
use rayon::prelude::*;
use serde_json::{json, Value};

use rs_matter::acl::{AclEntry, AuthMode, Target};
use rs_matter::dm::clusters::net_comm::DummyNetworks;
use rs_matter::dm::{Access, EventEmitter, Privilege, Quality};
use rs_matter::error::Error;
use rs_matter::im::events::EVENT_DATA_TAG;
use rs_matter::im::{EventPriority, InteractionModel, InteractionModelState};
use rs_matter::respond::{ExchangeHandler, Responder};
use rs_matter::tlv::{TLVTag, TLVWrite};
use rs_matter::transport::exchange::{Exchange, MatterBuffers, MessageMeta};
use rs_matter::transport::network::NoNetwork;
use rs_matter::Matter;

use crate::common::imdrv::{self, Answer, AttrSpec, ClusterSpec, EndpointSpec, EventSpec, Item, NodeSpec, Path, TestDm, Val};
use crate::common::kv::RecKv;
use crate::common::nodes::{self, SessKind};
use crate::common::rng::SeededRng;
use crate::common::sim::{addr_of, Exec, Net, Owned};
use crate::common::{self, vclock, Report, Tier};

const NODE_D: u64 = 0xD0D0;
const NODE_A: u64 = 0xA0A0;
const NODE_A2: u64 = 0xA2A2;
const CL_A: u32 = 0xFFF1_FC01;
const CL_B: u32 = 0xFFF1_FC02;
const CL_Z: u32 = 0xFFF1_FC0F;
const PASSCODE: u32 = 20202021;
const START_US: u64 = 61_000_000_000;
const NE: usize = 4096;

const E_V: u32 = 1;
const E_O: u32 = 2;
const E_M: u32 = 3;
const E_A: u32 = 4;
const E_ABSENT: u32 = 0x99;

fn node_spec_sized(attr_size: Option<usize>) -> NodeSpec {
    let mut n = node_spec();
    if let Some(sz) = attr_size {
        // the attribute of endpoint 1 / cluster A becomes an octet string of that size
        n.endpoints[1].clusters[0].attrs[0].value = Val::Bytes((0..sz).map(|i| (i % 251) as u8).collect());
    }
    n
}

fn node_spec() -> NodeSpec {
    let ev = |id: u32, need: Access| EventSpec { id, access: Access::READ | need };
    let all = || vec![ev(E_V, Access::NEED_VIEW), ev(E_O, Access::NEED_OPERATE), ev(E_M, Access::NEED_MANAGE), ev(E_A, Access::NEED_ADMIN)];
    let attr = |v: u32| vec![AttrSpec { id: 1, access: Access::RV, quality: Quality::NONE, value: Val::U32(v) }];
    NodeSpec {
        endpoints: vec![
            EndpointSpec { id: 0, device_type: 0x16, clusters: vec![ClusterSpec { id: CL_A, attrs: attr(0xA0), cmds: vec![], events: all() }] },
            EndpointSpec { id: 1, device_type: 0x100, clusters: vec![ClusterSpec { id: CL_A, attrs: attr(0xA1), cmds: vec![], events: all() }, ClusterSpec { id: CL_B, attrs: attr(0xB1), cmds: vec![], events: vec![ev(E_V, Access::NEED_VIEW)] }] },
            EndpointSpec { id: 2, device_type: 0x101, clusters: vec![ClusterSpec { id: CL_B, attrs: attr(0xB2), cmds: vec![], events: vec![ev(E_V, Access::NEED_VIEW)] }] },
        ],
    }
}

fn required_level(ev: u32) -> u8 {
    match ev {
        E_V => 1,
        E_O => 2,
        E_M => 3,
        _ => 4,
    }
}

#[derive(Clone, Copy, Debug, PartialEq, Eq, Hash)]
pub enum Requester {
    Case1,
    Case2,
    Pase,
}

#[derive(Clone, Copy, Debug, PartialEq, Eq)]
struct Emit {
    ep: u16,
    cl: u32,
    ev: u32,
    prio: u8,
    /// fabric-sensitive event of this fabric
    fab: Option<u8>,
    size: usize,
}

#[derive(Clone, Debug)]
struct Scn {
    /// 0 none .. 4 administer, granted to the fabric-1 requester
    level: u8,
    /// the grant covers endpoint 1 only
    ep1_only: bool,
    req: Requester,
    paths: Vec<Path>,
    attr_paths: Vec<Path>,
    /// the attribute of endpoint 1 / cluster A is an octet string of this size (None: a small integer)
    attr_size: Option<usize>,
    fabric_filtered: bool,
    event_min: Option<u64>,
    subscribe: bool,
    before: Vec<Emit>,
    after: Vec<Vec<Emit>>,
}

fn scn_json(s: &Scn) -> Value {
    let em = |v: &Vec<Emit>| v.iter().map(|e| json!([e.ep, e.cl, e.ev, e.prio, e.fab, e.size])).collect::<Vec<_>>();
    json!({
        "events_world": true, "level": s.level, "ep1_only": s.ep1_only, "requester": format!("{:?}", s.req),
        "paths": s.paths.iter().map(|p| json!([p.ep, p.cl, p.leaf])).collect::<Vec<_>>(),
        "attr_paths": s.attr_paths.iter().map(|p| json!([p.ep, p.cl, p.leaf])).collect::<Vec<_>>(),
        "attr_size": s.attr_size,
        "fabric_filtered": s.fabric_filtered, "event_min": s.event_min, "subscribe": s.subscribe,
        "before": em(&s.before), "after": s.after.iter().map(em).collect::<Vec<_>>(),
    })
}

pub fn scn_from(v: &Value) -> Option<Scn> {
    let path = |p: &Value| Path::new(p[0].as_u64().map(|x| x as u16), p[1].as_u64().map(|x| x as u32), p[2].as_u64().map(|x| x as u32));
    let em = |a: &Value| -> Vec<Emit> {
        a.as_array().map(|a| a.iter().map(|e| Emit { ep: e[0].as_u64().unwrap() as u16, cl: e[1].as_u64().unwrap() as u32, ev: e[2].as_u64().unwrap() as u32, prio: e[3].as_u64().unwrap() as u8, fab: e[4].as_u64().map(|x| x as u8), size: e[5].as_u64().unwrap() as usize }).collect()).unwrap_or_default()
    };
    Some(Scn {
        level: v["level"].as_u64()? as u8,
        ep1_only: v["ep1_only"].as_bool()?,
        req: match v["requester"].as_str()? {
            "Case1" => Requester::Case1,
            "Case2" => Requester::Case2,
            _ => Requester::Pase,
        },
        paths: v["paths"].as_array()?.iter().map(path).collect(),
        attr_paths: v["attr_paths"].as_array()?.iter().map(path).collect(),
        attr_size: v["attr_size"].as_u64().map(|x| x as usize),
        fabric_filtered: v["fabric_filtered"].as_bool()?,
        event_min: v["event_min"].as_u64(),
        subscribe: v["subscribe"].as_bool()?,
        before: em(&v["before"]),
        after: v["after"].as_array()?.iter().map(em).collect(),
    })
}

#[derive(Default)]
struct Sub {
    /// one entry per ReportData message the device opened an exchange for: (time, items, raw length, more-chunks)
    reports: Vec<(u64, Vec<Item>, usize, bool)>,
}

struct SubHandler {
    sub: Rc<RefCell<Sub>>,
}

impl ExchangeHandler for SubHandler {
    async fn handle(&self, mut exchange: Exchange<'_>) -> Result<(), Error> {
        loop {
            let (op, payload) = {
                let rx = exchange.recv().await?;
                (rx.meta().proto_opcode, rx.payload().to_vec())
            };
            if op != imdrv::OP_REPORT_DATA {
                return Ok(());
            }
            let (items, more, suppress, _) = imdrv::decode_report(&payload).map_err(|_| rs_matter::error::ErrorCode::InvalidData)?;
            self.sub.borrow_mut().reports.push((vclock::now(), items, payload.len(), more));
            if suppress {
                exchange.acknowledge().await?;
            } else {
                exchange.send(MessageMeta::new(imdrv::PROTO_IM, imdrv::OP_STATUS, true), &imdrv::status_response(0)).await?;
            }
            if !more {
                return Ok(());
            }
        }
    }
}

struct World {
    exec: Exec,
    net: Net,
    queue: Rc<RefCell<VecDeque<(Emit, u32)>>>,
    /// (serial, event number the stack assigned or the error)
    emitted: Rc<RefCell<Vec<(u32, Result<u64, String>)>>>,
    d_task: usize,
    answer: Rc<RefCell<Option<Answer>>>,
    sub: Rc<RefCell<Sub>>,
    serial: u32,
    _keep: Vec<Box<dyn std::any::Any>>,
    _h: Owned<SubHandler>,
    d: Owned<Matter<'static>>,
    a: Owned<Matter<'static>>,
}

fn build(s: &Scn) -> World {
    vclock::reset(START_US);
    let net = Net::new(2);
    let d = Owned::from_box(nodes::new_matter());
    let a = Owned::from_box(nodes::new_matter());
    let (md, ma) = (d.get(), a.get());
    for m in [md, ma] {
        nodes::add_fabric(m);
        nodes::add_fabric(m);
    }
    let keys: Vec<_> = (0..6u8).map(|i| nodes::key(0x30 + i)).collect();
    nodes::install_session(ma, SeededRng::new(1), SessKind::Case, NODE_A, NODE_D, 1, 2, addr_of(1), &keys[1], &keys[0]).unwrap();
    nodes::install_session(md, SeededRng::new(2), SessKind::Case, NODE_D, NODE_A, 2, 1, addr_of(0), &keys[0], &keys[1]).unwrap();
    nodes::install_session(ma, SeededRng::new(3), SessKind::Pase, NODE_A, NODE_D, 3, 4, addr_of(1), &keys[3], &keys[2]).unwrap();
    nodes::install_session(md, SeededRng::new(4), SessKind::Pase, NODE_D, NODE_A, 4, 3, addr_of(0), &keys[2], &keys[3]).unwrap();
    nodes::install_session_fab(ma, SeededRng::new(5), 2, NODE_A2, NODE_D, 5, 6, addr_of(1), &keys[5], &keys[4]).unwrap();
    nodes::install_session_fab(md, SeededRng::new(6), 2, NODE_D, NODE_A2, 6, 5, addr_of(0), &keys[4], &keys[5]).unwrap();
    let acl = |fab: u8, subject: u64, p: Privilege, targets: &[Target]| {
        let mut e = AclEntry::new(None, p, AuthMode::Case);
        e.add_subject(subject).unwrap();
        for t in targets {
            e.add_target(t.clone()).unwrap();
        }
        md.with_state(|st| st.fabrics.fabric_mut(NonZeroU8::new(fab).unwrap()).unwrap().acl_add(e).unwrap());
    };
    if s.level > 0 {
        let p = match s.level {
            1 => Privilege::VIEW,
            2 => Privilege::OPERATE,
            3 => Privilege::MANAGE,
            _ => Privilege::ADMIN,
        };
        let targets = if s.ep1_only { vec![Target::new(Some(1), None, None)] } else { vec![] };
        acl(1, NODE_A, p, &targets);
    }
    acl(2, NODE_A2, Privilege::VIEW, &[]);

    let dm = TestDm::new(node_spec_sized(s.attr_size));
    let answer: Rc<RefCell<Option<Answer>>> = Rc::new(RefCell::new(None));
    let sub = Rc::new(RefCell::new(Sub::default()));
    let h = Owned::new(SubHandler { sub: sub.clone() });
    let queue: Rc<RefCell<VecDeque<(Emit, u32)>>> = Rc::new(RefCell::new(VecDeque::new()));
    let emitted = Rc::new(RefCell::new(Vec::new()));
    let mut exec = Exec::new();
    let buffers: Owned<MatterBuffers> = Owned::new(MatterBuffers::new());
    let state = Owned::new(InteractionModelState::<DummyNetworks, 3, NE>::new(DummyNetworks));
    let d_task = {
        let (send, recv) = (net.end(1), net.end(1));
        let dm2 = dm.clone();
        let (b, st) = (buffers.get(), state.get());
        let (q, em) = (queue.clone(), emitted.clone());
        exec.spawn("D", async move {
            let c = nodes::crypto(SeededRng::new(7));
            st.suppress_start_up_event();
            let kv = md.kv(RecKv::new());
            let im = InteractionModel::new(md, &c, b, dm2, &kv, st);
            let responder = Responder::new_default(&im);
            // the application: emits what the harness queues, through the call cluster handlers use
            let app = async {
                loop {
                    core::future::poll_fn(|_| if q.borrow().is_empty() { core::task::Poll::Pending } else { core::task::Poll::Ready(()) }).await;
                    loop {
                        let next = q.borrow_mut().pop_front();
                        let Some((e, serial)) = next else { break };
                        let prio = match e.prio {
                            0 => EventPriority::Debug,
                            1 => EventPriority::Info,
                            _ => EventPriority::Critical,
                        };
                        let r = im.emit_event(e.ep, e.cl, e.ev, prio, |mut tw| {
                            tw.start_struct(&EVENT_DATA_TAG)?;
                            tw.u32(&TLVTag::Context(0), serial)?;
                            tw.str(&TLVTag::Context(1), &filler(serial, e.size))?;
                            if let Some(f) = e.fab {
                                tw.u8(&TLVTag::Context(0xFE), f)?;
                            }
                            tw.end_container()
                        });
                        em.borrow_mut().push((serial, r.map_err(|e| format!("{:?}", e.code()))));
                    }
                }
            };
            let _ = select4(md.run(&c, send, recv, NoNetwork), responder.run::<3>(), im.run(), app).await;
        })
    };
    World { exec, net, queue, emitted, d_task, answer, sub, serial: 0, _keep: vec![Box::new(buffers), Box::new(state), Box::new(dm)], _h: h, d, a }
}

fn filler(serial: u32, size: usize) -> Vec<u8> {
    (0..size).map(|i| (i as u32).wrapping_mul(7).wrapping_add(serial.wrapping_mul(13)) as u8).collect()
}

#[derive(Clone, Debug)]
struct Emitted {
    e: Emit,
    serial: u32,
    number: u64,
}

impl World {
    fn emit(&mut self, batch: &[Emit]) -> Result<Vec<Emitted>, String> {
        let first = self.serial;
        for e in batch {
            self.queue.borrow_mut().push_back((*e, self.serial));
            self.serial += 1;
        }
        self.exec.wake(self.d_task);
        self.exec.run()?;
        let em = self.emitted.borrow();
        let mut out = Vec::new();
        for (k, e) in batch.iter().enumerate() {
            let serial = first + k as u32;
            match em.iter().find(|x| x.0 == serial) {
                Some((_, Ok(n))) => out.push(Emitted { e: *e, serial, number: *n }),
                Some((_, Err(err))) => return Err(format!("harness: the event queue refused event {:?}: {}", e, err)),
                None => return Err("harness: the application task did not run".into()),
            }
        }
        Ok(out)
    }

    fn start_client(&mut self, s: &Scn) {
        let ma = self.a.get();
        let (send, recv) = (self.net.end(0), self.net.end(0));
        let ans = self.answer.clone();
        let hh = self._h.get();
        let s = s.clone();
        self.exec.spawn("A", async move {
            let c = nodes::crypto(SeededRng::new(8));
            let responder = Responder::new("A", hh, ma, 0);
            let client = async {
                let ex = match s.req {
                    Requester::Case1 => Exchange::initiate(ma, &c, NonZeroU8::new(1).unwrap(), NODE_D).await,
                    Requester::Case2 => Exchange::initiate(ma, &c, NonZeroU8::new(2).unwrap(), NODE_D).await,
                    Requester::Pase => Exchange::initiate_pase(ma, &c, addr_of(1), PASSCODE).await,
                };
                let r = match ex {
                    Err(e) => Answer { error: Some(format!("initiate: {:?}", e.code())), ..Default::default() },
                    Ok(mut ex) if !s.subscribe => imdrv::do_read(&mut ex, &imdrv::read_request_ev(&s.attr_paths, &s.paths, s.event_min, s.fabric_filtered)).await,
                    Ok(mut ex) => imdrv::do_subscribe(&mut ex, &imdrv::subscribe_request_ev(0, 30, &s.attr_paths, &s.paths, s.event_min, s.fabric_filtered)).await,
                };
                *ans.borrow_mut() = Some(r);
                core::future::pending::<()>().await
            };
            let _ = select3(ma.run(&c, send, recv, NoNetwork), responder.run::<2>(), client).await;
        });
    }

    /// FIFO network, timers when nothing is in flight, until `until` (virtual us) or `done`.
    fn pump(&mut self, until: u64, done: impl Fn(&World) -> bool) -> Result<(), String> {
        self.exec.run()?;
        for _ in 0..20_000 {
            if done(self) && self.net.inflight_len() == 0 {
                return Ok(());
            }
            if self.net.inflight_len() > 0 {
                vclock::advance_by_ms(1);
                self.net.deliver(0, false);
            } else {
                match vclock::next_deadline() {
                    Some(t) if t <= until => vclock::advance_to(t),
                    _ => return Ok(()),
                }
            }
            self.exec.run()?;
        }
        Err("harness: the events world does not become quiet".into())
    }
}

// ------------------------------------------------------------------------------------ reference

fn level_of(s: &Scn, ep: u16) -> u8 {
    match s.req {
        Requester::Pase => 4,
        Requester::Case2 => 1,
        Requester::Case1 => {
            if !s.ep1_only || ep == 1 {
                s.level
            } else {
                0
            }
        }
    }
}

fn fab_of(r: Requester) -> u8 {
    match r {
        Requester::Case1 => 1,
        Requester::Case2 => 2,
        Requester::Pase => 0,
    }
}

fn path_matches(p: &Path, e: &Emit) -> bool {
    p.ep.map(|x| x == e.ep).unwrap_or(true) && p.cl.map(|x| x == e.cl).unwrap_or(true) && p.leaf.map(|x| x == e.ev).unwrap_or(true)
}

/// Which of the emitted events the requester is entitled to, in emission order.
fn visible(s: &Scn, emitted: &[Emitted]) -> Vec<Emitted> {
    emitted
        .iter()
        .filter(|x| {
            s.paths.iter().any(|p| path_matches(p, &x.e))
                && level_of(s, x.e.ep) >= required_level(x.e.ev)
                && !(s.fabric_filtered && x.e.fab.map(|f| f != fab_of(s.req)).unwrap_or(false))
                && s.event_min.map(|m| x.number >= m).unwrap_or(true)
        })
        .cloned()
        .collect()
}

fn exists(p: &Path) -> Result<(), u16> {
    let n = node_spec();
    let Some(e) = n.endpoints.iter().find(|e| Some(e.id) == p.ep) else { return Err(0x7f) };
    let Some(c) = e.clusters.iter().find(|c| Some(c.id) == p.cl) else { return Err(0xc3) };
    if c.events.iter().any(|x| Some(x.id) == p.leaf) {
        Ok(())
    } else {
        Err(0xc7)
    }
}

pub struct Outcome {
    pub violations: Vec<(String, String)>,
    pub class: String,
    pub events_delivered: usize,
    pub messages: usize,
    pub multi_chunk: bool,
}

/// `what`: "priming" / "read" / "report-k"
fn judge_events(tag: &str, what: &str, s: &Scn, expected: &[Emitted], forbidden: &[Emitted], items: &[Item], v: &mut Vec<(String, String)>) -> usize {
    let got: Vec<(u16, u32, u32, u64, u8, Option<u32>, Option<Vec<u8>>, Option<u8>)> = items
        .iter()
        .filter_map(|i| match i {
            Item::Event { ep, cl, ev, number, priority, serial, filler, fab } => Some((*ep, *cl, *ev, *number, *priority, *serial, filler.clone(), *fab)),
            _ => None,
        })
        .collect();
    for g in &got {
        let Some(x) = expected.iter().find(|x| x.number == g.3) else {
            // why must it not be there?
            let why = match forbidden.iter().find(|x| x.number == g.3) {
                Some(x) if level_of(s, x.e.ep) < required_level(x.e.ev) => "not-permitted",
                Some(x) if s.fabric_filtered && x.e.fab.map(|f| f != fab_of(s.req)).unwrap_or(false) => "of-another-fabric-although-filtered",
                Some(x) if !s.paths.iter().any(|p| path_matches(p, &x.e)) => "not-selected-by-any-path",
                Some(x) if s.event_min.map(|m| x.number < m).unwrap_or(false) => "below-the-minimum-event-number",
                Some(_) => "not-expected-in-this-report",
                None => "never-emitted",
            };
            v.push((format!("{}:event-disclosed:{}:{}", tag, why, what), format!("event number {} ({}/{:#x}/{}) in the {}", g.3, g.0, g.1, g.2, what)));
            continue;
        };
        if (g.0, g.1, g.2, g.4) != (x.e.ep, x.e.cl, x.e.ev, x.e.prio) || g.5 != Some(x.serial) || g.6.as_deref() != Some(&filler(x.serial, x.e.size)[..]) || g.7 != x.e.fab {
            v.push((format!("{}:event-modified:{}", tag, what), format!("event number {}: emitted {:?} serial {}, delivered path {}/{:#x}/{} priority {} serial {:?} filler {:?} bytes fabric {:?}", g.3, x.e, x.serial, g.0, g.1, g.2, g.4, g.5, g.6.as_ref().map(|f| f.len()), g.7)));
        }
    }
    for x in expected {
        let n = got.iter().filter(|g| g.3 == x.number).count();
        if n == 0 {
            v.push((format!("{}:event-missing:{}", tag, what), format!("event number {} ({:?}) is selected and permitted, the {} does not carry it; delivered numbers {:?}", x.number, x.e, what, got.iter().map(|g| g.3).collect::<Vec<_>>())));
        } else if n > 1 {
            v.push((format!("{}:event-delivered-twice:{}", tag, what), format!("event number {} appears {} times", x.number, n)));
        }
    }
    let nums: Vec<u64> = got.iter().map(|g| g.3).collect();
    if nums.windows(2).any(|w| w[1] <= w[0]) {
        v.push((format!("{}:events-out-of-order:{}", tag, what), format!("{:?}", nums)));
    }
    got.len()
}

pub fn run_scn(s: &Scn) -> Result<Outcome, String> {
    let mut w = build(s);
    w.exec.run()?;
    let before = w.emit(&s.before)?;
    w.start_client(s);
    w.pump(START_US + 60_000_000, |w| w.answer.borrow().is_some())?;
    let ans = w.answer.borrow().clone().ok_or("harness: the client never got an answer")?;
    let mut v: Vec<(String, String)> = Vec::new();
    let mut delivered = 0usize;
    let tag = "EV";
    if let Some(e) = &ans.error {
        v.push((format!("{}:no-answer", tag), e.clone()));
    }
    // statuses of concrete paths; nothing for wildcards
    let mut expected_statuses: Vec<(Path, Vec<u16>)> = Vec::new();
    for p in &s.paths {
        if p.ep.is_some() && p.cl.is_some() && p.leaf.is_some() {
            match exists(p) {
                Err(st) => expected_statuses.push((*p, vec![st])),
                Ok(()) => {
                    if level_of(s, p.ep.unwrap()) < required_level(p.leaf.unwrap()) {
                        expected_statuses.push((*p, vec![0x7e]));
                    }
                }
            }
        }
    }
    let request_refused = ans.status_response.is_some();
    // a subscription none of whose paths the requester may use at all may be refused as a whole
    let nothing_accessible = s.req == Requester::Case1 && s.level == 0;
    if request_refused && !(s.subscribe && (!expected_statuses.is_empty() || nothing_accessible)) {
        v.push((format!("{}:request-refused", tag), format!("status response {:#x?}", ans.status_response)));
    }
    if !request_refused {
        for i in &ans.items {
            if let Item::EventStatus { ep, cl, ev, status } = i {
                let p = Path::new(*ep, *cl, *ev);
                match expected_statuses.iter().find(|(q, _)| *q == p) {
                    Some((_, ok)) if ok.contains(status) => {}
                    Some((_, ok)) => v.push((format!("{}:wrong-status-for-a-concrete-path", tag), format!("path {:?}: status {:#x}, expected one of {:x?}", p, status, ok))),
                    None => v.push((format!("{}:status-for-a-path-that-deserves-none", tag), format!("path {:?}: status {:#x}", p, status))),
                }
            }
        }
        for (p, ok) in &expected_statuses {
            let n = ans.items.iter().filter(|i| matches!(i, Item::EventStatus { ep, cl, ev, .. } if Path::new(*ep, *cl, *ev) == *p)).count();
            if n != s.paths.iter().filter(|q| *q == p).count() {
                v.push((format!("{}:concrete-path-without-its-status:{:x}", tag, ok[0]), format!("path {:?} (expected status {:x?}) has {} status entries", p, ok, n)));
            }
        }
        let exp = visible(s, &before);
        delivered += judge_events(tag, if s.subscribe { "priming" } else { "read" }, s, &exp, &before, &ans.items, &mut v);
        // the attribute part of the same answer (each selected attribute exactly once)
        for ap in &s.attr_paths {
            let n = ans.items.iter().filter(|i| matches!(i, Item::Data { ep, cl, attr, .. } if Some(*ep) == ap.ep && Some(*cl) == ap.cl && Some(*attr) == ap.leaf)).count();
            // a value that fits no message at all is answered with 'resource exhausted' in its place
            let exhausted = ans.items.iter().filter(|i| matches!(i, Item::Status { ep, cl, leaf, status } if *ep == ap.ep && *cl == ap.cl && *leaf == ap.leaf && *status == 0x89)).count();
            if n == 0 && exhausted == 1 && s.attr_size.map(|z| z >= 1100).unwrap_or(false) {
                continue;
            }
            if n != 1 && level_of(s, ap.ep.unwrap_or(0)) >= 1 {
                v.push((format!("{}:attribute-of-a-mixed-request-{}", tag, if n == 0 { "missing" } else { "repeated" }), format!("{:?}: {} times", ap, n)));
            }
        }
    }
    // message-level rules of the answer
    let reports: Vec<&(u8, Vec<u8>)> = ans.messages.iter().filter(|m| m.0 == imdrv::OP_REPORT_DATA).collect();
    let mut multi = reports.len() > 1;
    for (k, (_, payload)) in reports.iter().enumerate() {
        if payload.len() > 1280 - 8 - 6 - 16 - 26 {
            // the message (payload + headers + tag) must fit the 1280 byte datagram
            if payload.len() + 8 + 6 + 4 + 16 > 1280 {
                v.push((format!("{}:message-larger-than-the-transport-maximum", tag), format!("chunk {} has {} payload bytes", k, payload.len())));
            }
        }
        if let Ok((items, more, _, _)) = imdrv::decode_report(payload) {
            if more != (k + 1 < reports.len()) {
                v.push((format!("{}:more-chunks-flag-wrong", tag), format!("chunk {} of {}: more = {}", k + 1, reports.len(), more)));
            }
            if items.is_empty() && reports.len() > 1 {
                v.push((format!("{}:empty-chunk", tag), format!("chunk {} of {}", k + 1, reports.len())));
            }
        }
    }
    let mut all_messages = reports.len();
    // follow-up reports of a subscription
    if s.subscribe && !request_refused && ans.error.is_none() {
        let mut seen_reports = 0usize;
        let mut history = before.clone();
        for (k, batch) in s.after.iter().enumerate() {
            vclock::advance_by_ms(1500);
            w.exec.run()?;
            let em = w.emit(batch)?;
            let until = vclock::now() + 8_000_000;
            w.pump(until, |_| false)?;
            let sub = w.sub.borrow();
            let new: Vec<&(u64, Vec<Item>, usize, bool)> = sub.reports[seen_reports..].iter().collect();
            seen_reports = sub.reports.len();
            all_messages += new.len();
            multi |= new.len() > 1;
            let items: Vec<Item> = new.iter().flat_map(|r| r.1.iter().cloned()).collect();
            let exp = visible(s, &em);
            history.extend(em.iter().cloned());
            delivered += judge_events(tag, &format!("report-{}", k + 1), s, &exp, &history, &items, &mut v);
            for (j, r) in new.iter().enumerate() {
                if r.2 + 8 + 6 + 4 + 16 > 1280 {
                    v.push((format!("{}:message-larger-than-the-transport-maximum", tag), format!("report chunk with {} payload bytes", r.2)));
                }
                if r.3 != (j + 1 < new.len()) && exp.len() == items.iter().filter(|i| matches!(i, Item::Event { .. })).count() {
                    v.push((format!("{}:more-chunks-flag-wrong", tag), format!("follow-up report {} chunk {} of {}: more = {}", k + 1, j + 1, new.len(), r.3)));
                }
            }
        }
    }
    let class = format!("{}|{}|status={:?}|events={}|statuses={}|chunks={}", if s.subscribe { "sub" } else { "read" }, if ans.error.is_some() { "err" } else { "ok" }, ans.status_response, delivered, ans.items.iter().filter(|i| matches!(i, Item::EventStatus { .. })).count(), all_messages.min(4));
    let _ = (&w.d, &w.a);
    Ok(Outcome { violations: v, class, events_delivered: delivered, messages: all_messages, multi_chunk: multi })
}

// ------------------------------------------------------------------------------------ catalogs

fn emission_scripts(tier: Tier) -> Vec<(&'static str, Vec<Emit>, Vec<Vec<Emit>>)> {
    let e = |ep: u16, cl: u32, ev: u32, prio: u8, fab: Option<u8>, size: usize| Emit { ep, cl, ev, prio, fab, size };
    let mut v = vec![
        ("none", vec![], vec![vec![e(1, CL_A, E_V, 1, None, 4)], vec![]]),
        (
            "mixed",
            vec![e(1, CL_A, E_V, 1, None, 4), e(1, CL_A, E_O, 0, None, 4), e(0, CL_A, E_V, 2, Some(1), 4), e(1, CL_A, E_M, 1, Some(2), 4), e(1, CL_B, E_V, 1, Some(2), 4), e(2, CL_B, E_V, 0, None, 4), e(1, CL_A, E_A, 2, Some(1), 4)],
            vec![vec![e(1, CL_A, E_V, 1, Some(2), 4), e(1, CL_A, E_V, 1, Some(1), 4), e(1, CL_A, E_O, 1, None, 4)], vec![e(0, CL_A, E_A, 2, None, 4), e(1, CL_B, E_V, 0, Some(2), 4)]],
        ),
        (
            // answers that span several messages: 3 x 700 bytes before, 3 x 700 after
            "large",
            vec![e(1, CL_A, E_V, 1, None, 700), e(1, CL_A, E_V, 1, Some(2), 700), e(1, CL_A, E_O, 1, None, 700), e(1, CL_B, E_V, 1, None, 30)],
            vec![vec![e(1, CL_A, E_V, 1, None, 700), e(1, CL_A, E_V, 1, Some(2), 700), e(1, CL_A, E_V, 1, Some(1), 700)], vec![e(1, CL_A, E_V, 1, None, 1)]],
        ),
    ];
    if tier == Tier::Thorough {
        // every payload size that moves a chunk boundary by one byte
        for size in (600..=640).step_by(1) {
            v.push(("boundary", vec![e(1, CL_A, E_V, 1, None, size), e(1, CL_A, E_V, 1, None, size), e(1, CL_A, E_V, 1, Some(1), 200)], vec![vec![e(1, CL_A, E_V, 1, None, size), e(1, CL_A, E_V, 1, None, size)]]));
        }
    }
    v
}

fn path_catalog() -> Vec<(&'static str, Vec<Path>, bool)> {
    // (label, paths, usable for subscriptions)
    let p = |ep: Option<u16>, cl: Option<u32>, ev: Option<u32>| Path::new(ep, cl, ev);
    vec![
        ("all", vec![p(None, None, None)], true),
        ("endpoint-1", vec![p(Some(1), None, None)], true),
        ("cluster-a", vec![p(None, Some(CL_A), None)], true),
        ("event-operate-anywhere", vec![p(None, None, Some(E_O))], true),
        ("concrete-view", vec![p(Some(1), Some(CL_A), Some(E_V))], true),
        ("concrete-manage", vec![p(Some(1), Some(CL_A), Some(E_M))], false),
        ("concrete-pair-overlapping", vec![p(Some(1), Some(CL_A), Some(E_V)), p(Some(1), None, None)], true),
        ("absent-event", vec![p(Some(1), Some(CL_A), Some(E_ABSENT))], false),
        ("absent-cluster", vec![p(Some(1), Some(CL_Z), Some(E_V))], false),
        ("absent-endpoint", vec![p(Some(7), Some(CL_A), Some(E_V))], false),
        ("wildcard-absent-cluster", vec![p(None, Some(CL_Z), None)], true),
    ]
}

pub fn catalog(tier: Tier) -> Vec<Scn> {
    let mut v = Vec::new();
    for (_, before, after) in emission_scripts(tier) {
        for (plabel, paths, sub_ok) in path_catalog() {
            for (req, level, ep1_only) in [(Requester::Case1, 0u8, false), (Requester::Case1, 1, false), (Requester::Case1, 2, false), (Requester::Case1, 3, true), (Requester::Case1, 4, false), (Requester::Case2, 0, false), (Requester::Pase, 0, false)] {
                for fabric_filtered in [false, true] {
                    for event_min in [None, Some(3u64)] {
                        for subscribe in [false, true] {
                            if subscribe && !sub_ok {
                                continue;
                            }
                            // a subscription needs a fabric: over PASE the device abandons the exchange
                            // without an answer (observation, see DESIGN.md); not part of this sweep
                            if subscribe && req == Requester::Pase {
                                continue;
                            }
                            if tier == Tier::Quick && event_min.is_some() && (plabel != "all" || subscribe) {
                                continue;
                            }
                            let attr_paths = if plabel == "endpoint-1" { vec![Path::new(Some(1), Some(CL_A), Some(1))] } else { vec![] };
                            v.push(Scn { level, ep1_only, req, paths: paths.clone(), attr_paths, attr_size: None, fabric_filtered, event_min, subscribe, before: before.clone(), after: if subscribe { after.clone() } else { vec![] } });
                        }
                    }
                }
            }
        }
    }
    // answers that carry attributes *and* events: the attribute part ends at every distance from the end of a
    // message (octet string of every size), followed by no event / one small event / events that need a
    // further message
    let e = |size: usize| Emit { ep: 1, cl: CL_A, ev: E_V, prio: 1, fab: None, size };
    let step = if tier == Tier::Quick { 1 } else { 1 };
    for size in (0..=1300usize).step_by(step) {
        for (k, before) in [vec![], vec![e(4)], vec![e(700), e(700)]].into_iter().enumerate() {
            for subscribe in [false, true] {
                if (k == 2 || subscribe) && tier == Tier::Quick && !(size >= 900 && size <= 1250) {
                    continue;
                }
                v.push(Scn { level: 4, ep1_only: false, req: Requester::Case1, paths: vec![Path::new(None, None, None)], attr_paths: vec![Path::new(Some(1), Some(CL_A), Some(1))], attr_size: Some(size), fabric_filtered: false, event_min: None, subscribe, before: before.clone(), after: if subscribe { vec![vec![e(4)], vec![]] } else { vec![] } });
            }
        }
    }
    v
}

pub struct Stats {
    pub scenarios: u64,
    pub events_delivered: u64,
    pub messages: u64,
    pub multi_chunk: u64,
    pub classes: usize,
}

/// Run the whole catalog; `prefix` is the property the violations are reported under.
pub fn explore(tier: Tier, prefix: &str, keep: impl Fn(&str) -> bool + Sync) -> Result<(Report, Stats), String> {
    let cat = catalog(tier);
    let results: Vec<(Scn, Result<Result<Outcome, String>, common::Panic>)> = cat.par_iter().map(|s| (s.clone(), common::catch(|| run_scn(s)))).collect();
    let mut report = Report::new();
    let mut st = Stats { scenarios: 0, events_delivered: 0, messages: 0, multi_chunk: 0, classes: 0 };
    let mut classes = std::collections::BTreeSet::new();
    for (s, r) in results {
        st.scenarios += 1;
        match r {
            Err(p) => report.violation(format!("{}:events:panic:{}", prefix, p.class()), format!("{:?}: {}", s, p), scn_json(&s)),
            Ok(Err(e)) => return Err(format!("{} ({:?})", e, s)),
            Ok(Ok(o)) => {
                st.events_delivered += o.events_delivered as u64;
                st.messages += o.messages as u64;
                st.multi_chunk += o.multi_chunk as u64;
                classes.insert(o.class.clone());
                for (sig, what) in o.violations {
                    let sig = sig.replacen("EV:", "", 1);
                    if keep(&sig) {
                        report.violation(format!("{}:events:{}", prefix, sig), format!("{:?}: {}", s, what), scn_json(&s));
                    }
                }
            }
        }
    }
    st.classes = classes.len();
    Ok((report, st))
}

/// Which violation classes belong to which property.
pub fn is_c06(sig: &str) -> bool {
    sig.starts_with("event-disclosed") || sig.contains("status") || sig.starts_with("request-refused") || sig.starts_with("no-answer")
}
pub fn is_c14(sig: &str) -> bool {
    (sig.starts_with("event-missing") && !sig.ends_with(":report-1") && !sig.ends_with(":report-2")) || sig.starts_with("event-delivered-twice") || sig.starts_with("event-modified") || sig.starts_with("events-out-of-order") || sig.starts_with("message-larger") || sig.starts_with("more-chunks") || sig.starts_with("empty-chunk") || sig.starts_with("attribute-of-a-mixed-request") || sig.starts_with("no-answer")
}
pub fn is_c13(sig: &str) -> bool {
    sig.starts_with("event-missing") && (sig.ends_with(":report-1") || sig.ends_with(":report-2"))
}

/// The events world as a part of a property check: merges the violations that belong to the
/// property into `report` and returns an evidence object for the part.
pub fn run_part(tier: Tier, prefix: &str, keep: fn(&str) -> bool, report: &mut Report) -> Result<Value, String> {
    let (r, st) = explore(tier, prefix, keep)?;
    let clean = r.violations.is_empty();
    report.merge(r);
    if clean && (st.events_delivered == 0 || st.multi_chunk == 0 || st.classes < 5) {
        return Err(format!("vacuous events-world run ({} events delivered, {} multi-message answers, {} outcome classes)", st.events_delivered, st.multi_chunk, st.classes));
    }
    Ok(json!({"scenarios": st.scenarios, "events_delivered_and_compared": st.events_delivered, "report_messages": st.messages, "answers_spanning_several_messages": st.multi_chunk, "outcome_classes": st.classes,
        "rule": "events world: real device with declared events (view / operate / manage / administer) on three endpoints, the application emits scripted events (plain and fabric-sensitive of both fabrics, three priorities, 1..700 byte payloads) through InteractionModel::emit_event; for every access level x requester (CASE fabric 1 / CASE fabric 2 / PASE) x 11 event-path shapes (wildcards, concrete, overlapping pair, absent event / cluster / endpoint) x fabric filter x minimum event number x read / subscription with two follow-up reports, the events delivered are compared with the reference (selected, existing, permitted, not of another fabric when filtered, not below the minimum): each exactly once, in order, unmodified, concrete paths with their status, messages within 1280 bytes, only the last message of an answer ends it"}))
}

/// Replay inside a property check: prints the outcome, reports the violations that belong to the property.
pub fn replay_part(r: &Value, prefix: &str, keep: fn(&str) -> bool, report: &mut Report) -> Result<(), String> {
    let o = replay(r)?;
    println!("{}", o.class);
    for (sig, what) in o.violations {
        let sig = sig.replacen("EV:", "", 1);
        println!("  {} {}", sig, what);
        if keep(&sig) {
            report.violation(format!("{}:events:{}", prefix, sig), what, r.clone());
        }
    }
    Ok(())
}

pub fn replay(r: &Value) -> Result<Outcome, String> {
    let s = scn_from(r).ok_or("bad events-world replay")?;
    println!("{:?}", s);
    run_scn(&s)
}

#[allow(dead_code)]
fn unused() {
    let _ = select::<core::future::Ready<()>, core::future::Ready<()>>;
}
