//! C07 — nothing bound to a fabric outlives that fabric.
//!
//! The C08 world (real device with the real root-endpoint data model, administrator driving raw
//! commands, operational sessions set up by the harness as soon as a fabric exists) explored by
//! the same explicit-state BFS, with the C07 oracle evaluated after every operation: every
//! usable secure session in the device's table must be bound to a fabric that still exists and
//! is the very fabric it was established for (not a later one that got the same index); a
//! removal leaves the sessions of other fabrics alone. Roots: a factory-fresh node, a node with
//! one fabric, a node with two fabrics.

use serde_json::{json, Value};

use super::c08::{self, Op};
use crate::common::{self, Ctx, Evidence, Report, Tier};

fn two_fabrics() -> Vec<Op> {
    let mut v = c08::honest_prefix();
    v.extend([Op::OpenWindowC(1), Op::ArmP, Op::CsrP, Op::RootP, Op::AddNocP, Op::CompleteC(2)]);
    v
}

pub fn run_check(ctx: &Ctx) -> i32 {
    // this check observes the resumption cache in the store too: the device runs the job that flushes it
    crate::common::commdrv::PERSIST_RESUMPTION.store(true, std::sync::atomic::Ordering::Relaxed);
    if let Some(p) = &ctx.replay {
        let doc: Value = serde_json::from_str(&std::fs::read_to_string(p).expect("replay file")).expect("json");
        std::env::set_var("MC_SHOW_PANICS", "1");
        let hist: Vec<Op> = doc["replay"]["history"].as_array().unwrap().iter().filter_map(|s| c08::parse_op(s.as_str().unwrap_or(""))).collect();
        let mut report = Report::new();
        match c08::execute_mode(&hist, 7) {
            Err(e) => {
                eprintln!("MACHINERY: {}", e);
                return 2;
            }
            Ok((_, v, _)) => {
                for (sig, what) in v {
                    println!("  {} {}", sig, what);
                    report.violation(sig, what, doc["replay"].clone());
                }
            }
        }
        return common::finish(ctx, report, Evidence::new("model_checking"));
    }
    let (d1, d2) = if ctx.tier == Tier::Quick { (5, 3) } else { (7, 5) };
    let mut report = Report::new();
    let (mut states, mut transitions) = (0usize, 0u64);
    let mut per_root = Vec::new();
    // also from the middle of a commissioning: a NOC added under the fail-safe, nothing committed yet
    let pending_first = vec![Op::ArmP, Op::CsrP, Op::RootP, Op::AddNocP];
    let mut pending_second = c08::honest_prefix();
    pending_second.extend([Op::OpenWindowC(1), Op::ArmP, Op::CsrP, Op::RootP, Op::AddNocP]);
    for (name, prefix, d) in [("factory-fresh", vec![], d1), ("one-fabric-commissioned", c08::honest_prefix(), d1), ("two-fabrics-commissioned", two_fabrics(), d2), ("first-fabric-pending-under-the-fail-safe", pending_first, d2), ("second-fabric-pending-under-the-fail-safe", pending_second, d2)] {
        let r = match c08::bfs(prefix, d, if ctx.tier == Tier::Quick { 8_000 } else { 400_000 }, 7) {
            Ok(r) => r,
            Err(e) => {
                eprintln!("MACHINERY: {}", e);
                return 2;
            }
        };
        for (h, sig, what) in r.violations {
            report.violation(sig, format!("history {:?}: {}", h, what), json!({"history": h.iter().map(|o| format!("{:?}", o)).collect::<Vec<_>>()}));
        }
        states += r.states;
        transitions += r.transitions;
        per_root.push(json!({"root": name, "states": r.states, "transitions": r.transitions, "depth": d, "capped": r.capped}));
    }
    let (sd0, sd1) = if ctx.tier == Tier::Quick { (5, 4) } else { (6, 5) };
    for (name, prefix, class) in c08::settings_roots(true) {
        let d = if class == 0 { sd0 } else { sd1 };
        let r = match c08::bfs(prefix, d, if ctx.tier == Tier::Quick { 6_000 } else { 300_000 }, 7 | 0x80) {
            Ok(r) => r,
            Err(e) => {
                eprintln!("MACHINERY: {}", e);
                return 2;
            }
        };
        for (h, sig, what) in r.violations {
            report.violation(sig, format!("history {:?}: {}", h, what), json!({"history": h.iter().map(|o| format!("{:?}", o)).collect::<Vec<_>>()}));
        }
        states += r.states;
        transitions += r.transitions;
        per_root.push(json!({"root": name, "states": r.states, "transitions": r.transitions, "depth": d, "capped": r.capped}));
    }
    let mut ev = Evidence::new("model_checking");
    ev.set("states", json!(states))
        .set("transitions", json!(transitions))
        .set("traces_validated_against_impl", json!(transitions))
        .set("exhaustive", json!(true))
        .set("roots", Value::Array(per_root))
        .set("samples", json!([{"history": ["ArmP", "CsrP", "RootP", "AddNocP", "Tick"]}]))
        .set("rule", json!(format!("every history of at most {} operations of the C08 alphabet (incl. RemoveFabric of the own and of another fabric, fail-safe expiry by the clock / ArmFailSafe(0) / RevokeCommissioning, restart) from a factory-fresh node and a node with one fabric, and of at most {} operations from a node with two fabrics and from the middle of the commissioning of a first / a second fabric (NOC added, not completed); after every operation each usable secure session of the device must be bound to the existing fabric it was established for, and to none that the reference says is gone (rolled back or removed)", d1, d2)));
    ev.assume("operational sessions are set up by the harness (pre-established keys) as soon as a fabric exists, as a commissioner does before CommissioningComplete; session-resumption records and subscriptions of a removed fabric are not part of this check (no real CASE / subscription traffic in this world)");
    if report.violations.is_empty() && (states < 20) {
        eprintln!("MACHINERY: vacuous C07 run");
        return 2;
    }
    common::finish(ctx, report, ev)
}
