pub mod c04;
pub mod c16;
pub mod c18;
