pub mod c04;
