pub mod c01;
pub mod c04;
pub mod c05;
pub mod c09;
pub mod c12;
pub mod c13;
pub mod c16;
pub mod c18;
