//! C05 — access is granted exactly when the Matter access-control algorithm grants it.
//!
//! Bounded exhaustive enumeration of (fabric set, ACL entries, accessor, operation, element
//! access declaration, path, endpoint device types) on the real `AccessReq::allow` and
//! `Accessor::is_endpoint_accessible`, compared with an independent reference written from the
//! property text. Products are complete within the catalogs below (no sampling).

use core::num::NonZeroU8;

use rayon::prelude::*;
use serde_json::{json, Value};

use rs_matter::acl::{gen_noc_cat, AccessReq, Accessor, AccessorSubjects, AclEntry, AuthMode, Target};
use rs_matter::dm::devices::test::{TEST_DEV_ATT, TEST_DEV_COMM, TEST_DEV_DET};
use rs_matter::dm::{Access, DeviceType, Privilege};
use rs_matter::im::GenericPath;
use rs_matter::Matter;

use crate::common::{self, Ctx, Evidence, Report, Tier};

const N: u64 = 0x1001;
const M: u64 = 0x1002;
const OTHER: u64 = 0x1003;
const CAT_A: u16 = 0xABCD;
const CAT_B: u16 = 0xDCBA;
const GROUP_G: u16 = 0x0101;
const GROUP_H: u16 = 0x0102;
const CL_A: u32 = 0x0006;
const CL_B: u32 = 0x0008;
const DT1: u16 = 0x0100;
const DT2: u16 = 0x0101;
const CAT_PREFIX: u64 = 0xFFFF_FFFD_0000_0000;

// ------------------------------------------------------------------ specifications (plain data)

#[derive(Clone, Copy, Debug, PartialEq, Eq, Hash)]
enum Priv {
    View,
    ProxyView,
    Operate,
    Manage,
    Admin,
}

impl Priv {
    fn real(&self) -> Privilege {
        match self {
            Priv::View => Privilege::VIEW,
            Priv::ProxyView => Privilege::PROXYVIEW,
            Priv::Operate => Privilege::OPERATE,
            Priv::Manage => Privilege::MANAGE,
            Priv::Admin => Privilege::ADMIN,
        }
    }
    /// 1=View .. 4=Administer; ProxyView grants nothing for ordinary operations.
    fn level(&self) -> u8 {
        match self {
            Priv::View => 1,
            Priv::Operate => 2,
            Priv::Manage => 3,
            Priv::Admin => 4,
            Priv::ProxyView => 0,
        }
    }
}

#[derive(Clone, Copy, Debug, PartialEq, Eq, Hash)]
enum Mode {
    Pase,
    Case,
    Group,
    NoAuth,
}

#[derive(Clone, Debug, PartialEq)]
struct TargetSpec {
    endpoint: Option<u16>,
    cluster: Option<u32>,
    device_type: Option<u32>,
}

#[derive(Clone, Debug)]
struct EntrySpec {
    privilege: Priv,
    mode: Mode, // Case or Group
    subjects: Option<Vec<u64>>,
    targets: Option<Vec<TargetSpec>>,
}

#[derive(Clone, Debug)]
struct AccessorSpec {
    mode: Mode,
    fab_idx: u8,
    /// node id (CASE), group id (Group), ignored otherwise
    id: u64,
    cats: Vec<(u16, u16)>,
}

#[derive(Clone, Copy, Debug)]
struct ElemSpec {
    /// NEED_VIEW=1 NEED_OPERATE=2 NEED_MANAGE=4 NEED_ADMIN=8
    need: u8,
    read: bool,
    write: bool,
}

#[derive(Clone, Debug)]
struct PathSpec {
    endpoint: u16,
    cluster: u32,
    dts: Vec<u16>,
}

/// Which fabrics exist and where the entries live.
#[derive(Clone, Debug)]
struct World {
    /// existing fabric indices (1 and/or 2)
    fabrics: Vec<u8>,
    /// entries per fabric index
    entries: Vec<(u8, EntrySpec)>,
    /// group membership: (fabric, group id, endpoints)
    groups: Vec<(u8, u16, Vec<u16>)>,
}

// ------------------------------------------------------------------ the reference (from the property text)

fn ref_subject_matches(acc: &AccessorSpec, subj: u64) -> bool {
    match acc.mode {
        Mode::Case => {
            if subj == acc.id {
                return true;
            }
            // a tag with the same identifier and an equal or higher version
            if subj & 0xFFFF_FFFF_0000_0000 == CAT_PREFIX {
                let sid = ((subj >> 16) & 0xFFFF) as u16;
                let sver = (subj & 0xFFFF) as u16;
                return acc.cats.iter().any(|(id, ver)| *id == sid && *ver >= sver && (*id != 0 || *ver != 0));
            }
            false
        }
        Mode::Group => subj == acc.id,
        _ => false,
    }
}

fn ref_required_level(elem: &ElemSpec, write: bool) -> Option<u8> {
    // lowest privilege whose NEED bit is declared for that operation; View does not count for writes
    let bits = if write { elem.need & 0b1110 } else { elem.need & 0b1111 };
    (0..4).find(|b| bits & (1 << b) != 0).map(|b| b + 1)
}

fn ref_allow(w: &World, acc: &AccessorSpec, write: bool, elem: &ElemSpec, path: &PathSpec) -> bool {
    if acc.mode == Mode::Pase {
        return true;
    }
    if acc.mode == Mode::NoAuth {
        return false;
    }
    if acc.fab_idx == 0 || !w.fabrics.contains(&acc.fab_idx) {
        return false;
    }
    // the element must support the operation and require some privilege for it
    if (write && !elem.write) || (!write && !elem.read) {
        return false;
    }
    let Some(required) = ref_required_level(elem, write) else {
        return false;
    };
    w.entries.iter().any(|(fab, e)| {
        *fab == acc.fab_idx
            && e.mode == acc.mode
            && match &e.subjects {
                None => true,
                Some(s) if s.is_empty() => true,
                Some(s) => s.iter().any(|s| ref_subject_matches(acc, *s)),
            }
            && match &e.targets {
                None => true,
                Some(t) if t.is_empty() => true,
                Some(t) => t.iter().any(|t| {
                    t.endpoint.map(|e| e == path.endpoint).unwrap_or(true)
                        && t.cluster.map(|c| c == path.cluster).unwrap_or(true)
                        && t.device_type.map(|d| path.dts.iter().any(|x| *x as u32 == d)).unwrap_or(true)
                }),
            }
            && e.privilege.level() >= required
    })
}

fn ref_endpoint_accessible(w: &World, acc: &AccessorSpec, endpoint: u16) -> bool {
    if acc.mode != Mode::Group {
        return true;
    }
    w.fabrics.contains(&acc.fab_idx)
        && w.groups.iter().any(|(f, g, eps)| *f == acc.fab_idx && *g as u64 == acc.id && eps.contains(&endpoint))
}

// ------------------------------------------------------------------ building the real objects

fn new_matter() -> Box<Matter<'static>> {
    Box::new(Matter::new(&TEST_DEV_DET, TEST_DEV_COMM, &TEST_DEV_ATT, 0))
}

fn real_entry(e: &EntrySpec) -> AclEntry {
    let mode = if e.mode == Mode::Case { AuthMode::Case } else { AuthMode::Group };
    let mut r = AclEntry::new(None, e.privilege.real(), mode);
    if let Some(s) = &e.subjects {
        // non-null: force creation of the list even when empty
        for x in s {
            r.add_subject(*x).unwrap();
        }
        assert!(!s.is_empty(), "empty non-null lists are built through TLV");
    }
    if let Some(t) = &e.targets {
        for x in t {
            r.add_target(Target::new(x.endpoint, x.cluster, x.device_type)).unwrap();
        }
    }
    r
}

/// An entry with empty-but-non-null lists can only be produced by decoding; build it through TLV.
fn real_entry_via_tlv(e: &EntrySpec) -> AclEntry {
    use rs_matter::tlv::{FromTLV, TLVElement, TLVTag, TLVWrite};
    use rs_matter::utils::storage::WriteBuf;
    let mut buf = [0u8; 512];
    let mut wb = WriteBuf::new(&mut buf);
    wb.start_struct(&TLVTag::Anonymous).unwrap();
    let p = match e.privilege {
        Priv::View => 1u8,
        Priv::ProxyView => 2,
        Priv::Operate => 3,
        Priv::Manage => 4,
        Priv::Admin => 5,
    };
    wb.u8(&TLVTag::Context(1), p).unwrap();
    wb.u8(&TLVTag::Context(2), if e.mode == Mode::Case { 2 } else { 3 }).unwrap();
    match &e.subjects {
        None => wb.null(&TLVTag::Context(3)).unwrap(),
        Some(s) => {
            wb.start_array(&TLVTag::Context(3)).unwrap();
            for x in s {
                wb.u64(&TLVTag::Anonymous, *x).unwrap();
            }
            wb.end_container().unwrap();
        }
    }
    match &e.targets {
        None => wb.null(&TLVTag::Context(4)).unwrap(),
        Some(t) => {
            wb.start_array(&TLVTag::Context(4)).unwrap();
            for x in t {
                wb.start_struct(&TLVTag::Anonymous).unwrap();
                if let Some(c) = x.cluster {
                    wb.u32(&TLVTag::Context(0), c).unwrap();
                }
                if let Some(c) = x.endpoint {
                    wb.u16(&TLVTag::Context(1), c).unwrap();
                }
                if let Some(c) = x.device_type {
                    wb.u32(&TLVTag::Context(2), c).unwrap();
                }
                wb.end_container().unwrap();
            }
            wb.end_container().unwrap();
        }
    }
    wb.end_container().unwrap();
    let bytes = wb.as_slice().to_vec();
    AclEntry::from_tlv(&TLVElement::new(&bytes)).expect("entry decodes")
}

fn install(matter: &Matter<'static>, w: &World, via_tlv: bool) {
    matter.with_state(|state| {
        // reset fabric table
        let existing: Vec<NonZeroU8> = state.fabrics.iter().map(|f| f.fab_idx()).collect();
        for f in existing {
            state.fabrics.remove(f).unwrap();
        }
        // add fabrics 1 and 2, then remove the ones that must not exist
        state.fabrics.add_with_post_init(|_| Ok(())).unwrap();
        state.fabrics.add_with_post_init(|_| Ok(())).unwrap();
        for (fab, e) in &w.entries {
            let entry = if via_tlv { real_entry_via_tlv(e) } else { real_entry(e) };
            state.fabrics.fabric_mut(NonZeroU8::new(*fab).unwrap()).unwrap().acl_add(entry).unwrap();
        }
        for (fab, g, eps) in &w.groups {
            for ep in eps {
                state.fabrics.fabric_mut(NonZeroU8::new(*fab).unwrap()).unwrap().groups_mut().add(*ep, *g, "g").unwrap();
            }
        }
        for f in [1u8, 2] {
            if !w.fabrics.contains(&f) {
                state.fabrics.remove(NonZeroU8::new(f).unwrap()).unwrap();
            }
        }
    });
}

fn real_accessor<'a>(matter: &'a Matter<'static>, a: &AccessorSpec) -> Accessor<'a> {
    let (subjects, mode) = match a.mode {
        Mode::Case => {
            let mut s = AccessorSubjects::new(a.id);
            for (id, ver) in &a.cats {
                s.add_catid(gen_noc_cat(*id, *ver)).unwrap();
            }
            (s, Some(AuthMode::Case))
        }
        Mode::Group => (AccessorSubjects::new(a.id), Some(AuthMode::Group)),
        Mode::Pase => (AccessorSubjects::new(1), Some(AuthMode::Pase)),
        Mode::NoAuth => (AccessorSubjects::new(1), None),
    };
    Accessor::new(a.fab_idx, false, subjects, mode, matter)
}

fn real_access(e: &ElemSpec) -> Access {
    let mut a = Access::empty();
    if e.need & 1 != 0 {
        a |= Access::NEED_VIEW;
    }
    if e.need & 2 != 0 {
        a |= Access::NEED_OPERATE;
    }
    if e.need & 4 != 0 {
        a |= Access::NEED_MANAGE;
    }
    if e.need & 8 != 0 {
        a |= Access::NEED_ADMIN;
    }
    if e.read {
        a |= Access::READ;
    }
    if e.write {
        a |= Access::WRITE;
    }
    a
}

// ------------------------------------------------------------------ catalogs

fn cat(id: u16, ver: u16) -> u64 {
    CAT_PREFIX | ((id as u64) << 16) | ver as u64
}

fn subject_catalog(mode: Mode) -> Vec<Option<Vec<u64>>> {
    match mode {
        Mode::Case => vec![
            None,
            Some(vec![]),
            Some(vec![N]),
            Some(vec![M, N]),
            Some(vec![cat(CAT_A, 2)]),
            Some(vec![cat(CAT_A, 3)]),
            Some(vec![cat(CAT_B, 2)]),
            Some(vec![OTHER, cat(CAT_A, 1)]),
        ],
        _ => vec![None, Some(vec![]), Some(vec![GROUP_G as u64]), Some(vec![GROUP_H as u64, GROUP_G as u64])],
    }
}

fn target_catalog() -> Vec<Option<Vec<TargetSpec>>> {
    let t = |e: Option<u16>, c: Option<u32>, d: Option<u32>| TargetSpec { endpoint: e, cluster: c, device_type: d };
    vec![
        None,
        Some(vec![]),
        Some(vec![t(Some(0), None, None)]),
        Some(vec![t(None, Some(CL_A), None)]),
        Some(vec![t(Some(0), Some(CL_A), None)]),
        Some(vec![t(None, None, Some(DT1 as u32))]),
        Some(vec![t(None, Some(CL_A), Some(DT1 as u32))]),
        Some(vec![t(Some(1), None, None)]),
        Some(vec![t(Some(0), None, None), t(Some(1), Some(CL_B), None)]),
        Some(vec![t(Some(1), Some(CL_B), Some(DT2 as u32))]),
    ]
}

fn entry_catalog() -> Vec<EntrySpec> {
    let mut v = Vec::new();
    for mode in [Mode::Case, Mode::Group] {
        for privilege in [Priv::View, Priv::ProxyView, Priv::Operate, Priv::Manage, Priv::Admin] {
            for subjects in subject_catalog(mode) {
                for targets in target_catalog() {
                    v.push(EntrySpec { privilege, mode, subjects: subjects.clone(), targets });
                }
            }
        }
    }
    v
}

fn second_entry_catalog() -> Vec<EntrySpec> {
    let t = |e: Option<u16>, c: Option<u32>| TargetSpec { endpoint: e, cluster: c, device_type: None };
    vec![
        EntrySpec { privilege: Priv::Admin, mode: Mode::Case, subjects: Some(vec![M]), targets: None },
        EntrySpec { privilege: Priv::View, mode: Mode::Case, subjects: None, targets: None },
        EntrySpec { privilege: Priv::Operate, mode: Mode::Group, subjects: Some(vec![GROUP_G as u64]), targets: Some(vec![t(Some(1), None)]) },
        EntrySpec { privilege: Priv::Manage, mode: Mode::Case, subjects: Some(vec![cat(CAT_A, 2)]), targets: Some(vec![t(None, Some(CL_B))]) },
    ]
}

fn accessor_catalog() -> Vec<AccessorSpec> {
    let mut v = Vec::new();
    for fab_idx in [0u8, 1, 2, 3] {
        v.push(AccessorSpec { mode: Mode::Pase, fab_idx, id: 0, cats: vec![] });
        v.push(AccessorSpec { mode: Mode::NoAuth, fab_idx, id: 0, cats: vec![] });
        for id in [N, M, OTHER] {
            for cats in [
                vec![],
                vec![(CAT_A, 1)],
                vec![(CAT_A, 2)],
                vec![(CAT_A, 3)],
                vec![(CAT_B, 1), (CAT_A, 2), (0xEEEE, 9)],
            ] {
                v.push(AccessorSpec { mode: Mode::Case, fab_idx, id, cats });
            }
        }
        // node ids whose low 32 bits read like a CASE authenticated tag (identifier CAT_A, version 2 / 9):
        // a tag subject of an entry is matched by the accessor's tags only, never by its node id
        for id in [0x0000_0000_0000_0000u64 | ((CAT_A as u64) << 16) | 2, 0x1234_5678_0000_0000u64 | ((CAT_A as u64) << 16) | 9] {
            for cats in [vec![], vec![(CAT_B, 1)]] {
                v.push(AccessorSpec { mode: Mode::Case, fab_idx, id, cats });
            }
        }
        for g in [GROUP_G, GROUP_H] {
            v.push(AccessorSpec { mode: Mode::Group, fab_idx, id: g as u64, cats: vec![] });
        }
    }
    v
}

fn elem_catalog(tier: Tier) -> Vec<ElemSpec> {
    let mut v = Vec::new();
    for need in 0..16u8 {
        for (read, write) in [(true, false), (false, true), (true, true)] {
            v.push(ElemSpec { need, read, write });
        }
    }
    if tier == Tier::Quick {
        // the declarations that occur in practice plus the degenerate ones
        v.retain(|e| matches!(e.need, 0 | 1 | 2 | 4 | 5 | 8 | 9 | 12 | 14 | 15));
    }
    v
}

fn path_catalog() -> Vec<PathSpec> {
    let mut v = Vec::new();
    for endpoint in [0u16, 1] {
        for cluster in [CL_A, CL_B] {
            for dts in [vec![], vec![DT1], vec![DT1, DT2]] {
                v.push(PathSpec { endpoint, cluster, dts });
            }
        }
    }
    v
}

fn worlds_for(e: &EntrySpec, seconds: &[EntrySpec], tier: Tier) -> Vec<World> {
    let groups = vec![(1u8, GROUP_G, vec![1u16]), (2u8, GROUP_G, vec![0u16]), (1u8, GROUP_H, vec![0u16, 1])];
    let g = |fabs: &[u8]| groups.iter().filter(|(f, _, _)| fabs.contains(f)).cloned().collect::<Vec<_>>();
    let mut w = vec![
        World { fabrics: vec![1], entries: vec![(1, e.clone())], groups: g(&[1]) },
        World { fabrics: vec![1, 2], entries: vec![(1, e.clone())], groups: g(&[1, 2]) },
        World { fabrics: vec![1, 2], entries: vec![(2, e.clone())], groups: g(&[1, 2]) },
        World { fabrics: vec![2], entries: vec![(2, e.clone())], groups: g(&[2]) },
    ];
    if tier == Tier::Thorough {
        for s in seconds {
            w.push(World { fabrics: vec![1, 2], entries: vec![(1, e.clone()), (1, s.clone())], groups: g(&[1, 2]) });
            w.push(World { fabrics: vec![1, 2], entries: vec![(1, e.clone()), (2, s.clone())], groups: g(&[1, 2]) });
        }
    } else {
        w.push(World { fabrics: vec![1, 2], entries: vec![(1, e.clone()), (1, seconds[0].clone())], groups: g(&[1, 2]) });
        w.push(World { fabrics: vec![1, 2], entries: vec![(1, e.clone()), (2, seconds[1].clone())], groups: g(&[1, 2]) });
    }
    w
}

// ------------------------------------------------------------------

#[derive(Default)]
struct Acc {
    evals: u64,
    granted: u64,
    denied: u64,
    worlds: u64,
    combos: std::collections::BTreeSet<(u8, u8, bool, bool)>,
    report: Report,
}

impl Acc {
    fn merge(mut self, o: Acc) -> Acc {
        self.evals += o.evals;
        self.granted += o.granted;
        self.denied += o.denied;
        self.worlds += o.worlds;
        self.combos.extend(o.combos);
        self.report.merge(o.report);
        self
    }
}

fn classify(w: &World, a: &AccessorSpec, got: bool) -> String {
    let other_fabric_entry = w.entries.iter().all(|(f, _)| *f != a.fab_idx);
    let kind = if got { "granted-but-reference-denies" } else { "denied-but-reference-grants" };
    let ctx = if a.fab_idx != 0 && !w.fabrics.contains(&a.fab_idx) {
        "accessor-fabric-missing"
    } else if got && other_fabric_entry {
        "entry-of-other-fabric"
    } else {
        match a.mode {
            Mode::Case => "case",
            Mode::Group => "group",
            Mode::Pase => "pase",
            Mode::NoAuth => "unauthenticated",
        }
    };
    format!("C05:{}:{}", kind, ctx)
}

fn check_world(w: &World, via_tlv: bool, accs: &[AccessorSpec], elems: &[ElemSpec], paths: &[PathSpec], acc: &mut Acc) {
    let matter = new_matter();
    install(&matter, w, via_tlv);
    acc.worlds += 1;
    for a in accs {
        let ra = real_accessor(&matter, a);
        for p in paths {
            let dts: Vec<DeviceType> = p.dts.iter().map(|d| DeviceType { dtype: *d, drev: 1 }).collect();
            // group reachability
            let got_ep = ra.is_endpoint_accessible(p.endpoint);
            let exp_ep = ref_endpoint_accessible(w, a, p.endpoint);
            acc.evals += 1;
            if got_ep != exp_ep {
                acc.report.violation(
                    format!("C05:endpoint-accessible:{}", if got_ep { "reachable-but-not-member" } else { "member-but-unreachable" }),
                    format!("world {:?} accessor {:?} endpoint {}: implementation {}, reference {}", w, a, p.endpoint, got_ep, exp_ep),
                    json!({"world": format!("{:?}", w), "accessor": format!("{:?}", a), "endpoint": p.endpoint}),
                );
            }
            for e in elems {
                let access = real_access(e);
                for write in [false, true] {
                    let mut req = AccessReq::new(
                        &ra,
                        GenericPath::new(Some(p.endpoint), Some(p.cluster), Some(0)),
                        if write { Access::WRITE } else { Access::READ },
                        &dts,
                    );
                    req.set_target_perms(access);
                    let got = req.allow();
                    let exp = ref_allow(w, a, write, e, p);
                    acc.evals += 1;
                    if got {
                        acc.granted += 1;
                    } else {
                        acc.denied += 1;
                    }
                    acc.combos.insert((a.mode as u8, w.entries[0].1.privilege as u8, got, write));
                    if got != exp {
                        acc.report.violation(
                            classify(w, a, got),
                            format!(
                                "world {:?}; accessor {:?}; {} on ep {} cluster {:#x} (device types {:?}) of an element declared {:?}: implementation {}, reference {}",
                                w, a, if write { "write/invoke" } else { "read" }, p.endpoint, p.cluster, p.dts, e,
                                if got { "grants" } else { "denies" }, if exp { "grants" } else { "denies" }
                            ),
                            json!({"world": format!("{:?}", w), "accessor": format!("{:?}", a), "write": write, "elem": format!("{:?}", e), "path": format!("{:?}", p), "via_tlv": via_tlv}),
                        );
                    }
                }
            }
        }
    }
}

pub fn run(ctx: &Ctx) -> i32 {
    if ctx.replay.is_some() {
        println!("C05 replays: the enumeration is deterministic; the replay file names the world/accessor/element/path - rerun the check to reproduce.");
    }
    let entries = entry_catalog();
    let seconds = second_entry_catalog();
    let accs = accessor_catalog();
    let elems = elem_catalog(ctx.tier);
    let paths = path_catalog();
    let tier = ctx.tier;
    let total = entries
        .par_iter()
        .map(|e| {
            let mut acc = Acc::default();
            let r = common::catch(|| {
                for w in worlds_for(e, &seconds, tier) {
                    // entries with an empty non-null list exist only in decoded form
                    let needs_tlv = e.subjects.as_ref().map(|s| s.is_empty()).unwrap_or(false)
                        || e.targets.as_ref().map(|s| s.is_empty()).unwrap_or(false)
                        || w.entries.iter().any(|(_, x)| x.subjects.as_ref().map(|s| s.is_empty()).unwrap_or(false) || x.targets.as_ref().map(|s| s.is_empty()).unwrap_or(false));
                    check_world(&w, needs_tlv, &accs, &elems, &paths, &mut acc);
                    if tier == Tier::Thorough && !needs_tlv {
                        // the decoded form of the same entry must behave identically
                        check_world(&w, true, &accs, &elems, &paths, &mut acc);
                    }
                }
            });
            if let Err(p) = r {
                acc.report.violation(format!("C05:panic:{}", p.class()), format!("entry {:?}: {}", e, p), json!({"entry": format!("{:?}", e)}));
            }
            acc
        })
        .reduce(Acc::default, Acc::merge);

    let mut ev = Evidence::new("exploration");
    ev.set("evaluations", json!(total.evals))
        .set("distinct_nontrivial", json!(total.granted))
        .set("exhaustive", json!(true))
        .set("rule", json!(format!(
            "full product of: {} ACL entries (5 privileges x CASE/Group x subject lists {{null,[],[n],[m,n],[CAT v2],[CAT v3],[other CAT],[other,CAT v1]}} / group ids x 10 target lists incl. endpoint/cluster/device-type combinations and two-target lists) x fabric placements (own fabric, other fabric, fabric 1 removed, + second entry on same/other fabric) x {} accessors (PASE/CASE/Group/unauthenticated x fabric index 0..3 x node ids x CAT sets with lower/equal/higher versions and three tags) x {} element declarations (NEED_* subsets x R/W/RW) x read/write x {} paths (2 endpoints x 2 clusters x 3 device-type lists); distinct_nontrivial = evaluations in which access was granted",
            entries.len(), accs.len(), elems.len(), paths.len())))
        .set("granted", json!(total.granted))
        .set("denied", json!(total.denied))
        .set("worlds", json!(total.worlds))
        .set("distinct_mode_privilege_outcomes", json!(total.combos.len()))
        .set("samples", json!([
            {"world": format!("{:?}", worlds_for(&entries[7], &seconds, Tier::Quick)[2]), "accessor": format!("{:?}", accs[9]), "element": format!("{:?}", elems[3]), "path": format!("{:?}", paths[5])}
        ]));
    ev.assume("aux_acl_enabled = false (the property does not speak about the AUXILIARY feature)");
    ev.assume("identifier values outside the catalogs behave like the catalog representatives (symmetry under renaming)");
    ev.assume("at most two ACL entries are installed at a time");
    if total.report.violations.is_empty() && (total.granted == 0 || total.denied == 0 || total.combos.len() < 8) {
        eprintln!("MACHINERY: vacuous C05 run");
        return 2;
    }
    let _: Option<Value> = None;
    common::finish(ctx, total.report, ev)
}
