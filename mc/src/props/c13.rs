//! C13 — a subscriber eventually learns every change it subscribed to.
//!
//! Model level: E2 (explicit-state BFS, states rebuilt by re-execution) on the real
//! `Subscriptions<2>` table + its `ChangedAttrs`, driven through the same calls the Interaction
//! Model makes (`add` = priming starts, `should_report_attr` while a report reads attributes,
//! `set_keep` / `set_keep_retry` / drop on completion, `notify_*` on changes, and the reporter
//! iteration "remove expired; report() or else purge_reported_changes()").
//!
//! Oracle = bounded liveness without peeking into the table: from every visited state, with no
//! further changes, finish the reports in flight and keep running reporter iterations at the
//! deadlines the table itself announces; every live subscriber must then know the current
//! version of every attribute. Plus: a failed report does not advance what the subscriber is
//! considered to know, reports respect the minimum interval, the announced deadline never lies
//! beyond the maximum interval, and a subscription whose reports keep failing gets no report
//! attempt later than one maximum interval after its last success.

use core::num::NonZeroU8;

use embassy_time::{Duration, Instant};
use serde_json::{json, Value};

use rs_matter::im::subscriptions::{ReportContext, Subscriptions, SubscriptionsBuffers};
use rs_matter::im::IMBuffer;
use rs_matter::utils::storage::pooled::{Buffers, PooledBuffers};

use crate::common::{self, e2, vclock, Ctx, Evidence, Report, Tier};

const NSUB: usize = 3;
type Pool = PooledBuffers<IMBuffer, 5>;
type Bufs = SubscriptionsBuffers<'static, Pool, NSUB>;
type RCtx = ReportContext<'static, 'static, Pool, NSUB>;

const MIN_INT: u16 = 1;
const MAX_INT: u16 = 40;

/// The three subscribed attributes (endpoint, cluster, attribute).
const ATTRS: [(u16, u32, u32); 3] = [(1, 0x10, 0), (1, 0x10, 1), (1, 0x11, 0)];

#[derive(Clone, Copy, Debug, PartialEq, Eq, Hash)]
enum Op {
    /// subscriber k sends a SubscribeRequest: priming starts
    Add(u8),
    /// the report in flight for k reads attribute 0 / attributes 1 and 2 (two chunks)
    Read1(u8),
    Read2(u8),
    /// both chunks at once (a report that fits one message)
    ReadAll(u8),
    /// the report in flight for k completes (peer acknowledged) / fails
    DoneOk(u8),
    DoneFail(u8),
    /// the application changes attribute a
    Change(u8),
    /// cluster-wide / endpoint-wide change notification (touch every attribute of cluster 0x10 / endpoint 1)
    ChangeCluster,
    ChangeEndpoint,
    /// the application emits a (subscribed) event
    Event,
    /// 17 changes on unrelated paths: forces coalescing of the pending-change table
    ChangeManyOther,
    /// one iteration of the reporter loop: remove expired, then report() or else purge
    Reporter,
    /// subscriber k unsubscribes / its fabric goes away
    Remove(u8),
    /// time passes: 1 s (min interval), 21 s (past the liveness point), 41 s (past max interval)
    Tick(u8),
}

#[derive(Clone, Copy, PartialEq, Eq, Debug)]
enum Kind {
    Priming,
    Report,
}

struct Flight {
    ctx: Option<RCtx>,
    kind: Kind,
    /// versions read so far into this report
    carry: [Option<u32>; 3],
    read1: bool,
    read2: bool,
    /// event numbers this report carries: (lo, hi] as captured by the report context at its start
    ev_range: (u64, u64),
    /// the instant the report was started (intervals are measured between report starts)
    start_ms: u64,
}

#[derive(Clone, Default, Debug)]
struct SubRef {
    /// subscription exists (priming in flight or established)
    live: bool,
    established: bool,
    sub_id: u32,
    /// version of each attribute the subscriber has been told (None = nothing yet)
    known: [Option<u32>; 3],
    /// highest event number the subscriber has been sent
    known_event: u64,
    last_success_ms: Option<u64>,
    fails_since_success: u32,
}

struct Sys {
    // leaked-on-purpose-free: raw boxes released in Drop after the contexts
    subs: *mut Subscriptions<NSUB>,
    pool: *mut Pool,
    bufs: *mut Bufs,
    flights: [Option<Flight>; NSUB],
    refs: [SubRef; NSUB],
    version: [u32; 3],
    /// number of the last event emitted (the events watermark the IM passes to the table)
    events: u64,
    ticks: u8,
    fault: Option<(String, String)>,
    stats_primings_with_change_inside: u64,
    /// `now` sampled at the start of the reporter iteration in progress
    reporter_now: Option<Instant>,
}

impl Drop for Sys {
    fn drop(&mut self) {
        for f in self.flights.iter_mut() {
            *f = None;
        }
        unsafe {
            drop(Box::from_raw(self.bufs));
            drop(Box::from_raw(self.pool));
            drop(Box::from_raw(self.subs));
        }
    }
}

fn request_of(k: usize) -> [u8; 8] {
    [0x15, 0x36, k as u8, 0xA0 + k as u8, 0x18, 0x18, 0xEE, k as u8]
}

fn node_of(k: u8) -> u64 {
    100 + k as u64
}

impl Sys {
    fn new() -> Self {
        vclock::reset(10_000_000_000);
        let subs = Box::into_raw(Box::new(Subscriptions::<NSUB>::new()));
        let pool = Box::into_raw(Box::new(Pool::new()));
        let bufs = Box::into_raw(Box::new(Bufs::new()));
        Self {
            subs,
            pool,
            bufs,
            flights: [None, None, None],
            refs: [SubRef::default(), SubRef::default(), SubRef::default()],
            version: [1, 1, 1],
            events: 0,
            ticks: 0,
            fault: None,
            stats_primings_with_change_inside: 0,
            reporter_now: None,
        }
    }

    fn subs(&self) -> &'static Subscriptions<NSUB> {
        unsafe { &*self.subs }
    }
    fn pool(&self) -> &'static Pool {
        unsafe { &*self.pool }
    }
    fn bufs(&self) -> &'static Bufs {
        unsafe { &*self.bufs }
    }

    fn now_ms(&self) -> u64 {
        Instant::now().as_millis()
    }

    fn fail(&mut self, sig: &str, what: String) {
        if self.fault.is_none() {
            self.fault = Some((sig.to_string(), what));
        }
    }

    fn which_sub(&self, ctx: &RCtx) -> Option<usize> {
        let node = ctx.subscription().ids().peer_node_id;
        (0..NSUB).find(|k| node_of(*k as u8) == node)
    }

    fn add(&mut self, k: usize) -> bool {
        if self.refs[k].live || self.flights[k].is_some() {
            return false;
        }
        let Some(mut buf) = self.pool().get_immediate() else {
            return false;
        };
        // the stored request of this subscriber (stands for its paths and filters)
        buf.clear();
        let _ = buf.extend_from_slice(&request_of(k));
        let ctx = self.subs().verif_add(Instant::now(), NonZeroU8::new(1).unwrap(), node_of(k as u8), MIN_INT, MAX_INT, self.events, buf, self.bufs());
        let Some(ctx) = ctx else {
            return false;
        };
        let id = ctx.subscription().ids().id;
        if ctx.rx() != &request_of(k)[..] {
            self.fail("C13:model:report-built-from-another-subscription's-request", format!("the priming context of subscriber {} carries the request {:02x?}", k, ctx.rx()));
        }
        self.refs[k] = SubRef { live: true, established: false, sub_id: id, known: [None; 3], known_event: 0, last_success_ms: None, fails_since_success: 0 };
        let ev_range = (ctx.max_seen_event_number(), ctx.next_max_seen_event_number());
        self.flights[k] = Some(Flight { ctx: Some(ctx), kind: Kind::Priming, carry: [None; 3], read1: false, read2: false, ev_range, start_ms: self.now_ms() });
        true
    }

    fn read(&mut self, k: usize, which: u8) -> bool {
        let version = self.version;
        let Some(f) = self.flights[k].as_mut() else {
            return false;
        };
        let idxs: &[usize] = if which == 1 { &[0] } else { &[1, 2] };
        if which == 1 {
            if f.read1 {
                return false;
            }
            f.read1 = true;
        } else {
            if !f.read1 || f.read2 {
                return false; // chunks are produced in order
            }
            f.read2 = true;
        }
        let ctx = f.ctx.as_ref().unwrap();
        for &i in idxs {
            let (e, c, a) = ATTRS[i];
            if ctx.should_report_attr(e, c, a) {
                f.carry[i] = Some(version[i]);
            }
        }
        true
    }

    fn done(&mut self, k: usize, ok: bool) -> bool {
        let Some(mut f) = self.flights[k].take() else {
            return false;
        };
        if ok && !(f.read1 && f.read2) {
            // a report is acknowledged only after all of its chunks were produced
            self.flights[k] = Some(f);
            return false;
        }
        let mut ctx = f.ctx.take().unwrap();
        let now = f.start_ms;
        match (f.kind, ok) {
            (_, true) => {
                ctx.set_keep();
                drop(ctx);
                for i in 0..3 {
                    if let Some(v) = f.carry[i] {
                        self.refs[k].known[i] = Some(v);
                    }
                }
                let (lo, hi) = f.ev_range;
                if f.kind == Kind::Report && lo > self.refs[k].known_event {
                    let known = self.refs[k].known_event;
                    self.fail("C13:model:events-skipped", format!("subscriber {} has been sent the events up to number {}; the next report carries ({}, {}]: events {}..={} are never sent", k, known, lo, hi, known + 1, lo));
                }
                if hi > self.refs[k].known_event || f.kind == Kind::Priming {
                    self.refs[k].known_event = hi;
                }
                self.refs[k].established = true;
                self.refs[k].last_success_ms = Some(now);
                self.refs[k].fails_since_success = 0;
            }
            (Kind::Priming, false) => {
                // failed priming: the subscription is not established
                drop(ctx);
                self.refs[k] = SubRef::default();
            }
            (Kind::Report, false) => {
                ctx.set_keep_retry();
                drop(ctx);
                self.refs[k].fails_since_success += 1;
            }
        }
        // the table may have dropped it (cancelled while in flight)
        self.sync_liveness();
        if f.kind == Kind::Report {
            // the reporter's inner loop goes on within the same iteration: report() again with the
            // iteration's `now`, and purge once nothing is reportable any more
            self.reporter_continue();
        }
        true
    }

    /// Subscriptions the table no longer holds (removed / cancelled / expired) are dead for the reference too.
    fn sync_liveness(&mut self) {
        let (rows, _, _, _) = self.subs().verif_state();
        for k in 0..NSUB {
            if self.refs[k].live && self.flights[k].is_none() {
                let present = rows.iter().any(|r| r.0 == self.refs[k].sub_id);
                if !present {
                    self.refs[k] = SubRef::default();
                }
            }
        }
    }

    fn change(&mut self, i: usize) {
        self.version[i] += 1;
        let (e, c, a) = ATTRS[i];
        self.subs().verif_notify_attr_changed(e, c, a);
        self.note_change_inside_priming();
    }

    fn note_change_inside_priming(&mut self) {
        if self.flights.iter().flatten().any(|f| f.kind == Kind::Priming && f.read1) {
            self.stats_primings_with_change_inside += 1;
        }
    }

    fn reporter(&mut self) -> bool {
        // one reporter at a time (the reporter loop is sequential)
        if self.flights.iter().flatten().any(|f| f.kind == Kind::Report) {
            return false;
        }
        let now = Instant::now();
        self.reporter_now = Some(now);
        let subs = self.subs();
        let bufs = self.bufs();
        // 1. remove expired
        while subs.verif_remove(bufs, |s| s.is_expired(now).then_some("expired")) {}
        self.sync_liveness();
        self.reporter_continue();
        true
    }

    /// The inner loop of a reporter iteration: `report()` with the iteration's `now`, or else purge.
    fn reporter_continue(&mut self) -> bool {
        let Some(now) = self.reporter_now else { return false };
        let subs = self.subs();
        let bufs = self.bufs();
        match subs.verif_report(now, self.events, bufs) {
            Some(ctx) => {
                let Some(k) = self.which_sub(&ctx) else {
                    self.fail("C13:model:report-for-unknown-subscriber", "report() returned a context for a subscriber that never subscribed".into());
                    return true;
                };
                let now_ms = now.as_millis();
                if ctx.rx() != &request_of(k)[..] {
                    self.fail("C13:model:report-built-from-another-subscription's-request", format!("the report context of subscriber {} carries the request {:02x?} (its own is {:02x?}): its report is built for somebody else's paths", k, ctx.rx(), request_of(k)));
                    return true;
                }
                let r = &self.refs[k];
                // a report attempt later than last success + max interval must not happen
                if let Some(ls) = r.last_success_ms {
                    if r.fails_since_success > 0 && now_ms > ls + MAX_INT as u64 * 1000 {
                        self.fail("C13:model:report-attempt-after-expiry", format!("subscriber {} last succeeded at {} ms, {} failures since, report attempted at {} ms (> max interval {})", k, ls, r.fails_since_success, now_ms, MAX_INT));
                    }
                    if now_ms < ls + MIN_INT as u64 * 1000 {
                        self.fail("C13:model:report-before-min-interval", format!("subscriber {} reported at {} ms, next report attempted at {} ms (min interval {} s)", k, ls, now_ms, MIN_INT));
                    }
                }
                if self.flights[k].is_some() {
                    self.fail("C13:model:two-reports-in-flight-for-one-subscription", format!("subscriber {}", k));
                    return true;
                }
                let ev_range = (ctx.max_seen_event_number(), ctx.next_max_seen_event_number());
                self.flights[k] = Some(Flight { ctx: Some(ctx), kind: Kind::Report, carry: [None; 3], read1: false, read2: false, ev_range, start_ms: now_ms });
            }
            None => {
                subs.verif_purge_reported_changes();
                self.reporter_now = None;
            }
        }
        true
    }

    fn remove(&mut self, k: usize) -> bool {
        if !self.refs[k].live {
            return false;
        }
        let node = node_of(k as u8);
        let removed = self.subs().verif_remove(self.bufs(), |s| (s.ids().peer_node_id == node).then_some("unsubscribed"));
        if self.flights[k].is_none() {
            self.refs[k] = SubRef::default();
        } else {
            // in flight: dropped when its context completes; the reference stops caring now
            self.refs[k].live = false;
        }
        removed
    }

    fn apply(&mut self, op: Op) -> bool {
        match op {
            Op::Add(k) => self.add(k as usize),
            Op::Read1(k) => self.read(k as usize, 1),
            Op::Read2(k) => self.read(k as usize, 2),
            Op::ReadAll(k) => {
                let a = self.read(k as usize, 1);
                let b = self.read(k as usize, 2);
                a || b
            }
            Op::DoneOk(k) => self.done(k as usize, true),
            Op::DoneFail(k) => self.done(k as usize, false),
            Op::Change(i) => {
                self.change(i as usize);
                true
            }
            Op::ChangeCluster => {
                self.version[0] += 1;
                self.version[1] += 1;
                self.subs().verif_notify_cluster_changed(1, 0x10);
                self.note_change_inside_priming();
                true
            }
            Op::ChangeEndpoint => {
                for v in self.version.iter_mut() {
                    *v += 1;
                }
                self.subs().verif_notify_endpoint_changed(1);
                self.note_change_inside_priming();
                true
            }
            Op::Event => {
                self.events += 1;
                true
            }
            Op::ChangeManyOther => {
                for j in 0..17u32 {
                    self.subs().verif_notify_attr_changed(2 + (j % 3) as u16, 0x20 + j / 3, j);
                }
                true
            }
            Op::Reporter => self.reporter(),
            Op::Remove(k) => self.remove(k as usize),
            Op::Tick(t) => {
                if self.ticks >= 3 {
                    return false;
                }
                self.ticks += 1;
                vclock::advance_by_ms(match t {
                    0 => 1_000,
                    1 => 21_000,
                    _ => 41_000,
                });
                true
            }
        }
    }

    /// The liveness oracle: no more changes; finish what is in flight, then follow the table's own
    /// deadlines. Returns the first violated expectation.
    fn quiesce_and_check(&mut self, all_fail: bool) -> Option<(String, String)> {
        for round in 0..16 {
            // complete everything in flight (completing one report makes the reporter start the next, possibly
            // for a subscriber with a lower index: go round until nothing is in flight)
            for k in (0..NSUB).cycle().take(NSUB * 4) {
                if self.flights[k].is_some() {
                    self.read(k, 1);
                    self.read(k, 2);
                    let is_report = self.flights[k].as_ref().map(|f| f.kind == Kind::Report).unwrap_or(false);
                    self.done(k, !(all_fail && is_report));
                }
            }
            if self.fault.is_some() {
                return self.fault.clone();
            }
            let live: Vec<usize> = (0..NSUB).filter(|k| self.refs[*k].live && self.refs[*k].established).collect();
            let all_known = live.iter().all(|&k| (0..3).all(|i| self.refs[k].known[i] == Some(self.version[i])) && self.refs[k].known_event >= self.events);
            if !all_fail && all_known && round > 0 {
                return None;
            }
            if all_fail && live.is_empty() {
                return None;
            }
            // the deadline the table announces
            let at = self.subs().verif_next_report_at(self.events, self.bufs());
            if at == Instant::MAX {
                if !all_fail && !all_known {
                    let k = live.iter().copied().find(|&k| (0..3).any(|i| self.refs[k].known[i] != Some(self.version[i])) || self.refs[k].known_event < self.events).unwrap();
                    return Some((
                        "C13:model:change-never-reported".into(),
                        format!("subscriber {} knows {:?} / events up to {} but the attributes are at {:?} / events at {}, and the table announces no further report", k, self.refs[k].known, self.refs[k].known_event, self.version, self.events),
                    ));
                }
                return None;
            }
            // liveness: the announced deadline is within max interval of every idle subscriber's last success
            if !all_fail {
                for &k in &live {
                    if self.flights[k].is_some() {
                        continue; // a report to this subscriber is under way right now
                    }
                    if let Some(ls) = self.refs[k].last_success_ms {
                        if self.refs[k].fails_since_success == 0 && at.as_millis() > ls + MAX_INT as u64 * 1000 {
                            return Some(("C13:model:liveness-deadline-beyond-max-interval".into(), format!("subscriber {} last reported at {} ms, next report announced for {} ms", k, ls, at.as_millis())));
                        }
                    }
                }
            }
            if at > Instant::now() {
                vclock::advance_to(at.as_ticks());
            }
            self.reporter();
            if self.fault.is_some() {
                return self.fault.clone();
            }
        }
        if all_fail {
            let k = (0..NSUB).find(|k| self.refs[*k].live && self.refs[*k].established);
            return k.map(|k| ("C13:model:failing-subscription-never-ends".into(), format!("subscriber {} still subscribed after 16 failed reporter rounds; last success {:?}", k, self.refs[k].last_success_ms)));
        }
        let k = (0..NSUB).find(|&k| self.refs[k].live && self.refs[k].established && ((0..3).any(|i| self.refs[k].known[i] != Some(self.version[i])) || self.refs[k].known_event < self.events));
        k.map(|k| {
            (
                "C13:model:change-never-reported".into(),
                format!("after 16 reporter rounds subscriber {} knows {:?} / events up to {} but the attributes are at {:?} / events at {}", k, self.refs[k].known, self.refs[k].known_event, self.version, self.events),
            )
        })
    }

    #[allow(clippy::type_complexity)]
    fn key(&self) -> (Vec<(u32, u64, u64, u64, u8)>, Vec<(u16, u32, u32, u64)>, u64, Vec<(bool, bool, [Option<i64>; 3], Option<u64>)>, Vec<Option<(u8, bool, bool, [Option<i64>; 3])>>, u64, u8, Vec<i64>) {
        let (rows, changes, wm, _) = self.subs().verif_state();
        let now = self.now_ms();
        // versions are kept relative to the current value (what matters is "behind or not")
        let rel = |v: Option<u32>, i: usize| v.map(|v| self.version[i] as i64 - v as i64);
        (
            rows.iter().cloned().collect(),
            changes.iter().cloned().collect(),
            wm,
            self.refs.iter().map(|r| (r.live, r.established, [rel(r.known[0], 0), rel(r.known[1], 1), rel(r.known[2], 2)], r.last_success_ms.map(|t| now - t))).collect(),
            self.flights.iter().map(|f| f.as_ref().map(|f| (f.kind as u8, f.read1, f.read2, [rel(f.carry[0], 0), rel(f.carry[1], 1), rel(f.carry[2], 2)]))).collect(),
            now,
            self.ticks,
            // event marks relative to the events watermark: table rows, flights, references
            self.subs()
                .verif_event_marks()
                .iter()
                .map(|(_, m)| self.events as i64 - *m as i64)
                .chain(self.flights.iter().flat_map(|f| f.as_ref().map(|f| [self.events as i64 - f.ev_range.0 as i64, self.events as i64 - f.ev_range.1 as i64]).unwrap_or([-1, -1])))
                .chain(self.refs.iter().map(|r| self.events as i64 - r.known_event as i64))
                .collect(),
        )
    }
}

fn ops_for(tier: Tier) -> Vec<Op> {
    let mut v = vec![
        Op::Add(0),
        Op::ReadAll(0),
        Op::Read1(0),
        Op::Read2(0),
        Op::DoneOk(0),
        Op::Change(0),
        Op::Event,
        Op::Reporter,
        Op::Tick(0),
        Op::DoneFail(0),
        Op::Add(1),
        Op::Read1(1),
        Op::Read2(1),
        Op::DoneOk(1),
        Op::Change(1),
        Op::Tick(1),
        Op::Remove(0),
    ];
    if tier == Tier::Thorough {
        v.extend([Op::ReadAll(1), Op::DoneFail(1), Op::Change(2), Op::ChangeCluster, Op::ChangeEndpoint, Op::ChangeManyOther, Op::Tick(2), Op::Remove(1)]);
    }
    v
}

fn op_from(s: &str) -> Op {
    let all = [
        Op::Add(0), Op::Add(1), Op::ReadAll(0), Op::ReadAll(1), Op::Read1(0), Op::Read1(1), Op::Read2(0), Op::Read2(1), Op::DoneOk(0), Op::DoneOk(1), Op::DoneFail(0), Op::DoneFail(1),
        Op::Change(0), Op::Change(1), Op::Change(2), Op::ChangeCluster, Op::ChangeEndpoint, Op::ChangeManyOther, Op::Event, Op::Reporter, Op::Remove(0), Op::Remove(1),
        Op::Add(2), Op::ReadAll(2), Op::Read1(2), Op::Read2(2), Op::DoneOk(2), Op::DoneFail(2), Op::Remove(2),
        Op::Tick(0), Op::Tick(1), Op::Tick(2),
    ];
    *all.iter().find(|o| format!("{:?}", o) == s).unwrap_or_else(|| panic!("bad op {}", s))
}

fn build(hist: &[Op]) -> Sys {
    let mut s = Sys::new();
    for o in hist {
        s.apply(*o);
    }
    s
}

fn replay_wire(ctx: &Ctx, r: &serde_json::Value) -> i32 {
    let cfg = super::c13w::cfg_from(r);
    let prefix: Vec<usize> = r["choices"].as_array().map(|a| a.iter().map(|c| c.as_u64().unwrap() as usize).collect()).unwrap_or_default();
    std::env::set_var("MC_SHOW_PANICS", "1");
    let mut report = Report::new();
    match super::c13w::run_one(&cfg, &prefix) {
        Err(e) => {
            eprintln!("MACHINERY: {}", e);
            return 2;
        }
        Ok(out) => {
            println!("{}", out.result.class);
            for (sig, what) in out.result.violations {
                println!("  {} {}", sig, what);
                report.violation(sig, what, r.clone());
            }
        }
    }
    common::finish(ctx, report, Evidence::new("model_checking"))
}

fn replay(ctx: &Ctx, path: &std::path::Path) -> i32 {
    let doc: Value = serde_json::from_str(&std::fs::read_to_string(path).expect("replay file")).expect("json");
    let r = &doc["replay"];
    if !r["wire"].is_null() {
        return replay_wire(ctx, r);
    }
    if r["events_world"] == true {
        let mut report = Report::new();
        if let Err(e) = super::evw::replay_part(r, "C13", super::evw::is_c13, &mut report) {
            eprintln!("MACHINERY: {}", e);
            return 2;
        }
        return common::finish(ctx, report, Evidence::new("model_checking"));
    }
    let ops: Vec<Op> = r["ops"].as_array().unwrap().iter().map(|o| op_from(o.as_str().unwrap())).collect();
    std::env::set_var("MC_SHOW_PANICS", "1");
    let mut report = Report::new();
    let mut s = Sys::new();
    for o in &ops {
        let ch = s.apply(*o);
        let (rows, changes, wm, inflight) = s.subs().verif_state();
        println!("{:?} (changed={}) t={}ms rows={:?} changes={:?} watermark={} reporting={} versions={:?} known={:?}", o, ch, s.now_ms(), rows, changes, wm, inflight, s.version, s.refs.iter().map(|r| r.known).collect::<Vec<_>>());
    }
    let all_fail = r["oracle"] == "all-fail";
    let res = s.fault.clone().or_else(|| s.quiesce_and_check(all_fail));
    println!("quiesce -> {:?}; known={:?} versions={:?}", res, s.refs.iter().map(|r| r.known).collect::<Vec<_>>(), s.version);
    if let Some((sig, what)) = res {
        report.violation(sig, what, r.clone());
    }
    common::finish(ctx, report, Evidence::new("model_checking"))
}

pub fn run(ctx: &Ctx) -> i32 {
    if let Some(p) = &ctx.replay {
        return replay(ctx, p);
    }
    let depth = match ctx.tier {
        Tier::Quick => 7,
        Tier::Thorough => 8,
    };
    let ops = ops_for(ctx.tier);
    let mut report = Report::new();
    let quiesces = std::cell::Cell::new(0u64);
    let inside = std::cell::Cell::new(0u64);
    let outcomes = std::cell::RefCell::new(std::collections::BTreeSet::new());
    // a full table: three established subscriptions with different requests, explored with an alphabet
    // that removes / fails / re-adds any of them (what a removal does to the entries that stay)
    let three: Vec<Op> = (0..3u8).flat_map(|k| [Op::Add(k), Op::ReadAll(k), Op::DoneOk(k)]).collect();
    let ops3 = vec![Op::Remove(0), Op::Remove(1), Op::Remove(2), Op::Change(0), Op::Event, Op::Tick(0), Op::Reporter, Op::ReadAll(0), Op::ReadAll(1), Op::ReadAll(2), Op::DoneOk(0), Op::DoneOk(1), Op::DoneOk(2), Op::DoneFail(0), Op::DoneFail(1), Op::DoneFail(2), Op::Tick(2), Op::Add(0)];
    let depth3 = if ctx.tier == Tier::Quick { 5 } else { 7 };
    let mut stats = e2::Stats { states: 0, transitions: 0, max_depth: 0, frontier_left: 0 };
    for (roots, depth, ops) in [
        // besides the initial state: established subscriptions whose attribute-change and event
        // watermarks have diverged (either way round)
        (vec![vec![], vec![Op::Change(0), Op::Add(0), Op::ReadAll(0), Op::DoneOk(0)], vec![Op::Event, Op::Event, Op::Add(0), Op::ReadAll(0), Op::DoneOk(0)]], depth, ops.clone()),
        (vec![three.clone()], depth3, ops3.clone()),
    ] {
        let rep = std::cell::RefCell::new(&mut report);
        let st = e2::bfs(
            roots,
            depth,
            |h: &[Op]| build(h),
            |_| ops.clone(),
            |s, op, hist| {
                let r = common::catch(|| s.apply(*op));
                let mut h: Vec<String> = hist.iter().map(|o| format!("{:?}", o)).collect();
                h.push(format!("{:?}", op));
                let changed = match r {
                    Err(p) => {
                        rep.borrow_mut().violation(format!("C13:model:panic:{}", p.class()), format!("ops {:?}: {}", h, p), json!({"ops": h}));
                        return false;
                    }
                    Ok(c) => c,
                };
                if let Some((sig, what)) = &s.fault {
                    rep.borrow_mut().violation(sig.clone(), format!("ops {:?}: {}", h, what), json!({"ops": h}));
                    return false;
                }
                if !changed {
                    return false;
                }
                inside.set(inside.get().max(s.stats_primings_with_change_inside));
                // liveness oracles from this state, on fresh copies
                for all_fail in [false, true] {
                    let mut h2 = hist.to_vec();
                    h2.push(*op);
                    let mut c = build(&h2);
                    quiesces.set(quiesces.get() + 1);
                    let res = common::catch(|| c.quiesce_and_check(all_fail));
                    match res {
                        Err(p) => {
                            rep.borrow_mut().violation(format!("C13:model:panic:{}", p.class()), format!("ops {:?} then quiesce: {}", h, p), json!({"ops": h, "oracle": if all_fail { "all-fail" } else { "quiesce" }}));
                            return false;
                        }
                        Ok(Some((sig, what))) => {
                            rep.borrow_mut().violation(sig, format!("ops {:?}: {}", h, what), json!({"ops": h, "oracle": if all_fail { "all-fail" } else { "quiesce" }}));
                            return false;
                        }
                        Ok(None) => {
                            outcomes.borrow_mut().insert((all_fail, c.refs.iter().map(|r| r.live).collect::<Vec<_>>(), c.version));
                        }
                    }
                }
                true
            },
            |s| s.key(),
        );
        stats.states += st.states;
        stats.transitions += st.transitions;
        stats.max_depth = stats.max_depth.max(st.max_depth);
    }
    // ---- wire level
    let (wire_report, wire_execs, wire_obs, wire_classes, wire_capped) = match super::c13w::explore(ctx.tier) {
        Ok(r) => r,
        Err(e) => {
            eprintln!("MACHINERY: wire level: {}", e);
            return 2;
        }
    };
    report.merge(wire_report);
    if report.violations.is_empty() && (wire_classes < 3) {
        eprintln!("MACHINERY: vacuous C13 wire-level run ({} outcome classes)", wire_classes);
        return 2;
    }
    let events_part = match super::evw::run_part(ctx.tier, "C13", super::evw::is_c13, &mut report) {
        Ok(v) => v,
        Err(e) => {
            eprintln!("MACHINERY: {}", e);
            return 2;
        }
    };
    let mut ev = Evidence::new("model_checking");
    ev.set("events_wire_level", events_part);
    ev.set("wire_level", json!({"executions": wire_execs, "distinct_observations": wire_obs, "outcome_classes": wire_classes, "capped": wire_capped, "deviation_bound_completed": (if ctx.tier == Tier::Quick { 2 } else { 3 }) - wire_capped as usize, "rule": "real publisher + subscriber + writer: every schedule with at most 2 (thorough: 3) non-default adversary decisions (drop / duplicate / reorder a datagram between publisher and subscriber, timer first, the writer changes the attribute now) during the first 20 s, with a single-chunk and a three-chunk priming report, one and two changes; FIFO afterwards until 60 s"}))
        .set("states", json!(stats.states))
        .set("transitions", json!(stats.transitions))
        .set("traces_validated_against_impl", json!(stats.transitions + quiesces.get()))
        .set("exhaustive", json!(true))
        .set("samples", json!([{"ops": ["Add(0)", "Read1(0)", "Change(0)", "Reporter", "Read2(0)", "DoneOk(0)"], "then": "quiesce: follow the table's own deadlines until every subscriber knows every current value"}]))
        .set("vacuity", json!({"quiesce_runs": quiesces.get(), "changes_inside_a_priming_report": inside.get(), "distinct_quiesce_outcomes": outcomes.borrow().len(), "max_depth": stats.max_depth}))
        .set("rule", json!(format!("BFS depth {} over {} operations (subscribe, two-chunk report reads, report ok/fail, attribute / cluster / endpoint changes, event emission, 17 unrelated changes forcing coalescing, reporter iteration = remove-expired + report()-or-purge, unsubscribe, ticks of 1/21/41 s) on Subscriptions<3>, from the initial state and from two states with an established subscription whose change-id and event-number watermarks differ, and depth {} from a full table of three established subscriptions with different stored requests (every report context must carry the request of its own subscription); in every visited state two bounded-liveness runs (all further reports succeed / all fail)", depth, ops.len(), depth3)));
    ev.assume("model level: attribute reads are represented by should_report_attr decisions at read time; an event is represented by its number, a report carries the event numbers (lo, hi] its context captured; the wire and chunk encoding are covered at the wire level and in C14");
    ev.assume("'eventually' is decided as: within 16 reporter iterations at the deadlines the table announces, with no further changes");
    if report.violations.is_empty() && (quiesces.get() == 0 || outcomes.borrow().len() < 2) {
        eprintln!("MACHINERY: vacuous C13 run");
        return 2;
    }
    common::finish(ctx, report, ev)
}
