//! C17 — headers, onboarding payloads and discovery records decode what was encoded.
//!
//! Bounded exhaustive input enumeration on the real codecs, per format:
//!   round trip  every combination of field values over boundary alphabets is encoded with the
//!               real encoder, decoded with the real decoder, and compared field by field;
//!   hostile     every byte string up to a small length, every truncation / extension / per-byte
//!               substitution of the valid encodings, and format-specific out-of-range inputs are
//!               offered to every decoder: it must return (value or error), terminate, and a
//!               returned value must re-encode to something that decodes to the same value;
//!   refusal     manual pairing codes: every single-digit substitution and adjacent transposition
//!               of every generated code, and every out-of-range digit group, must be refused;
//!               base-38: every invalid character and every out-of-range chunk must be refused.

use std::collections::BTreeSet;

use rayon::prelude::*;
use serde_json::{json, Value};

use rs_matter::bdx::{Block, BlockQuery, BlockQueryWithSkip, RangeControl, TransferAccept, TransferControl, TransferInit};
use rs_matter::crypto::CanonAeadKey;
use rs_matter::dm::devices::test::{TEST_DEV_ATT, TEST_DEV_COMM, TEST_DEV_DET};
use rs_matter::pairing::qr::{no_optional_data, CommFlowType, QrPayload};
use rs_matter::pairing::DiscoveryCapabilities;
use rs_matter::sc::checkin::CheckIn;
use rs_matter::sc::{GeneralCode, StatusReport};
use rs_matter::transport::network::btp::AdvData;
use rs_matter::transport::network::mdns::builtin::{build_browse_query, build_resolve_query, parse_into_answer, Host};
use rs_matter::transport::network::MatterLocalService;
use rs_matter::transport::plain_hdr::PlainHdr;
use rs_matter::transport::proto_hdr::ProtoHdr;
use rs_matter::utils::codec::base38;
use rs_matter::utils::storage::{ParseBuf, ReadBuf, WriteBuf};
use rs_matter::{BasicCommData, Matter};

use crate::common::nodes;
use crate::common::rng::SeededRng;
use crate::common::{self, hex, unhex, Ctx, Evidence, Report, Tier};

#[derive(Default)]
struct Acc {
    report: Report,
    round_trips: u64,
    hostile: u64,
    hostile_ok: u64,
    hostile_err: u64,
    refusals_checked: u64,
    outcomes: BTreeSet<String>,
}

impl Acc {
    fn merge(&mut self, o: Acc) {
        self.report.merge(o.report);
        self.round_trips += o.round_trips;
        self.hostile += o.hostile;
        self.hostile_ok += o.hostile_ok;
        self.hostile_err += o.hostile_err;
        self.refusals_checked += o.refusals_checked;
        self.outcomes.extend(o.outcomes);
    }
    fn v(&mut self, fmt: &str, kind: &str, what: String, replay: Value) {
        self.report.violation(format!("C17:{}:{}", fmt, kind), what, replay);
    }
}

fn bytes_replay(fmt: &str, b: &[u8]) -> Value {
    json!({"format": fmt, "hex": hex(b)})
}

fn text_replay(fmt: &str, s: &str) -> Value {
    json!({"format": fmt, "text": s})
}

/// every byte string of length <= 2, length 3..=max over a small boundary alphabet
fn short_strings(max: usize) -> Vec<Vec<u8>> {
    let mut v: Vec<Vec<u8>> = vec![vec![]];
    for a in 0..=255u8 {
        v.push(vec![a]);
    }
    for a in 0..=255u8 {
        for b in 0..=255u8 {
            v.push(vec![a, b]);
        }
    }
    let alpha = [0x00u8, 0x01, 0x04, 0x7f, 0x80, 0xff];
    let mut layer: Vec<Vec<u8>> = alpha.iter().flat_map(|a| alpha.iter().map(move |b| vec![*a, *b])).collect();
    for _ in 3..=max {
        let mut next = Vec::new();
        for s in &layer {
            for a in alpha {
                let mut t = s.clone();
                t.push(a);
                next.push(t);
            }
        }
        v.extend(next.iter().cloned());
        layer = next;
    }
    v
}

/// truncations, extensions and per-byte substitutions of a valid encoding
fn mutations(valid: &[u8]) -> Vec<Vec<u8>> {
    let mut v = Vec::new();
    for n in 0..valid.len() {
        v.push(valid[..n].to_vec());
    }
    for ext in [&[0u8][..], &[0xff], &[0x18, 0x18], &[0u8; 9][..]] {
        let mut t = valid.to_vec();
        t.extend_from_slice(ext);
        v.push(t);
    }
    for i in 0..valid.len() {
        for x in [0x00u8, 0x01, 0x7f, 0x80, 0xfe, 0xff, valid[i] ^ 0x01, valid[i] ^ 0x80, valid[i].wrapping_add(1)] {
            if x != valid[i] {
                let mut t = valid.to_vec();
                t[i] = x;
                v.push(t);
            }
        }
    }
    v
}

const U16S: [u16; 5] = [0, 1, 0x00ff, 0x8000, 0xffff];
const U32S: [u32; 6] = [0, 1, 0xffff, 0x0001_0000, 0x8000_0000, 0xffff_ffff];
const U64S: [u64; 7] = [0, 1, 0xffff_ffff, 0x1_0000_0000, 0x8000_0000_0000_0000, 0xffff_ffff_ffff_fffe, 0xffff_ffff_ffff_ffff];

// ------------------------------------------------------------------------------------ plain header

#[derive(Clone, Copy, Debug, PartialEq, Eq)]
enum Dst {
    None,
    Unicast(u64),
    Group(u16),
}

fn plain_fields(h: &PlainHdr) -> (u16, u32, Option<u64>, Dst, bool, bool) {
    let dst = match (h.get_dst_unicast_nodeid(), h.get_dst_groupcast_nodeid()) {
        (Some(u), _) => Dst::Unicast(u),
        (_, Some(g)) => Dst::Group(g),
        _ => Dst::None,
    };
    (h.sess_id, h.ctr, h.get_src_nodeid(), dst, h.is_group_session(), h.is_control_msg())
}

fn plain_decode(bytes: &[u8]) -> Result<(PlainHdr, usize), String> {
    let mut buf = bytes.to_vec();
    let mut pb = ParseBuf::new(&mut buf);
    let mut h = PlainHdr::default();
    h.decode(&mut pb).map_err(|e| format!("{:?}", e.code()))?;
    Ok((h, pb.read_off()))
}

fn plain_encode(h: &PlainHdr) -> Result<Vec<u8>, String> {
    let mut buf = [0u8; 64];
    let mut wb = WriteBuf::new(&mut buf);
    h.encode(&mut wb).map_err(|e| format!("{:?}", e.code()))?;
    Ok(wb.as_slice().to_vec())
}

fn part_plain() -> Acc {
    let mut acc = Acc::default();
    let mut valid = Vec::new();
    let mut dsts = vec![Dst::None];
    dsts.extend(U64S.iter().map(|u| Dst::Unicast(*u)));
    dsts.extend(U16S.iter().map(|g| Dst::Group(*g)));
    for sess in U16S {
        for ctr in U32S {
            for src in std::iter::once(None).chain(U64S.iter().map(|u| Some(*u))) {
                for dst in &dsts {
                    for (group, control) in [(false, false), (true, false), (false, true), (true, true)] {
                        let mut h = PlainHdr::default();
                        h.sess_id = sess;
                        h.ctr = ctr;
                        h.set_src_nodeid(src);
                        match dst {
                            Dst::None => {}
                            Dst::Unicast(u) => h.set_dst_unicast_nodeid(Some(*u)),
                            Dst::Group(g) => h.set_dst_groupcast_nodeid(Some(*g)),
                        }
                        h.set_group_session(group);
                        h.set_control_msg(control);
                        let want = (sess, ctr, src, *dst, group, control);
                        acc.round_trips += 1;
                        let enc = match plain_encode(&h) {
                            Ok(e) => e,
                            Err(e) => {
                                acc.v("plain-header", "encode-failed", format!("{:?}: {}", want, e), json!({"format": "plain-header", "fields": format!("{:?}", want)}));
                                continue;
                            }
                        };
                        let expect_len = 8 + if src.is_some() { 8 } else { 0 } + match dst {
                            Dst::None => 0,
                            Dst::Unicast(_) => 8,
                            Dst::Group(_) => 2,
                        };
                        if enc.len() != expect_len {
                            acc.v("plain-header", "encoded-length", format!("{:?}: {} bytes, expected {}", want, enc.len(), expect_len), bytes_replay("plain-header", &enc));
                        }
                        match plain_decode(&enc) {
                            Ok((d, used)) => {
                                if plain_fields(&d) != want || used != enc.len() {
                                    acc.v("plain-header", "round-trip-mismatch", format!("encoded {:?}, decoded {:?} ({} of {} bytes consumed)", want, plain_fields(&d), used, enc.len()), bytes_replay("plain-header", &enc));
                                }
                            }
                            Err(e) => acc.v("plain-header", "own-encoding-refused", format!("{:?}: {}", want, e), bytes_replay("plain-header", &enc)),
                        }
                        if valid.len() < 40 || (sess == 0xffff && ctr == 1) {
                            valid.push(enc);
                        }
                    }
                }
            }
        }
    }
    let mut inputs = short_strings(4);
    // every (flags, security flags) pair in front of a long tail
    for f in 0..=255u8 {
        for s in [0x00u8, 0x01, 0x02, 0x20, 0x40, 0x80, 0xff, 0x1f] {
            let mut t = vec![f, 0x34, 0x12, s, 1, 2, 3, 4];
            t.extend_from_slice(&[0xAA; 18]);
            inputs.push(t);
        }
    }
    for v in &valid {
        inputs.extend(mutations(v));
    }
    for inp in inputs {
        acc.hostile += 1;
        match common::catch(|| plain_decode(&inp)) {
            Err(p) => acc.v("plain-header", &format!("panic:{}", p.class()), p.to_string(), bytes_replay("plain-header", &inp)),
            Ok(Err(e)) => {
                acc.hostile_err += 1;
                acc.outcomes.insert(format!("plain:{}", e));
            }
            Ok(Ok((h, used))) => {
                acc.hostile_ok += 1;
                // what was decoded must encode back to the consumed bytes
                match plain_encode(&h) {
                    Ok(e) if e == inp[..used] => {}
                    other => acc.v("plain-header", "decoded-value-does-not-re-encode", format!("consumed {} bytes, re-encoded {:?}", used, other.map(|e| hex(&e))), bytes_replay("plain-header", &inp)),
                }
            }
        }
    }
    acc
}

// ------------------------------------------------------------------------------------ protocol header

type ProtoFields = (u16, u16, u8, Option<u16>, Option<u32>, bool, bool);

fn proto_fields(h: &ProtoHdr) -> ProtoFields {
    (h.exch_id, h.proto_id, h.proto_opcode, h.get_vendor(), h.get_ack(), h.is_reliable(), h.is_initiator())
}

fn proto_decode(bytes: &[u8]) -> Result<(ProtoHdr, usize), String> {
    let mut buf = bytes.to_vec();
    let mut pb = ParseBuf::new(&mut buf);
    let mut h = ProtoHdr::new();
    let c = nodes::crypto(SeededRng::new(1));
    h.decrypt_and_decode(&c, None, 0, &PlainHdr::default(), &mut pb).map_err(|e| format!("{:?}", e.code()))?;
    Ok((h, pb.read_off()))
}

fn proto_encode(h: &ProtoHdr) -> Result<Vec<u8>, String> {
    let mut buf = [0u8; 64];
    let mut wb = WriteBuf::new(&mut buf);
    h.encode(&mut wb).map_err(|e| format!("{:?}", e.code()))?;
    Ok(wb.as_slice().to_vec())
}

fn part_proto() -> Acc {
    let mut acc = Acc::default();
    let mut valid = Vec::new();
    for exch in U16S {
        for proto in U16S {
            for op in [0u8, 1, 0x10, 0x40, 0xff] {
                for vendor in [None, Some(0u16), Some(1), Some(0xfff1), Some(0xffff)] {
                    for ack in std::iter::once(None).chain(U32S.iter().map(|a| Some(*a))) {
                        for (rel, ini) in [(false, false), (true, false), (false, true), (true, true)] {
                            let mut h = ProtoHdr::new();
                            h.exch_id = exch;
                            h.proto_id = proto;
                            h.proto_opcode = op;
                            h.set_vendor(vendor);
                            h.set_ack(ack);
                            if rel {
                                h.set_reliable();
                            }
                            if ini {
                                h.set_initiator();
                            }
                            // (a vendor id of 0 means "no vendor" to the setter: that is the documented standard-protocol encoding)
                            let want: ProtoFields = (exch, proto, op, h.get_vendor(), ack, rel, ini);
                            if vendor.is_some() && vendor != Some(0) && h.get_vendor() != vendor {
                                acc.v("protocol-header", "vendor-not-kept", format!("{:?} -> {:?}", vendor, h.get_vendor()), json!({"format": "protocol-header", "fields": format!("{:?}", want)}));
                            }
                            acc.round_trips += 1;
                            let enc = match proto_encode(&h) {
                                Ok(e) => e,
                                Err(e) => {
                                    acc.v("protocol-header", "encode-failed", format!("{:?}: {}", want, e), json!({"fields": format!("{:?}", want)}));
                                    continue;
                                }
                            };
                            match proto_decode(&enc) {
                                Ok((d, used)) => {
                                    if proto_fields(&d) != want || used != enc.len() {
                                        acc.v("protocol-header", "round-trip-mismatch", format!("encoded {:?}, decoded {:?} ({} of {} bytes)", want, proto_fields(&d), used, enc.len()), bytes_replay("protocol-header", &enc));
                                    }
                                }
                                Err(e) => acc.v("protocol-header", "own-encoding-refused", format!("{:?}: {}", want, e), bytes_replay("protocol-header", &enc)),
                            }
                            if valid.len() < 60 {
                                valid.push(enc);
                            }
                        }
                    }
                }
            }
        }
    }
    let mut inputs = short_strings(4);
    for f in 0..=255u8 {
        let mut t = vec![f, 0x20, 0x34, 0x12, 0x01, 0x00];
        t.extend_from_slice(&[0xBB; 8]);
        inputs.push(t);
    }
    for v in &valid {
        inputs.extend(mutations(v));
    }
    for inp in inputs {
        acc.hostile += 1;
        match common::catch(|| proto_decode(&inp)) {
            Err(p) => acc.v("protocol-header", &format!("panic:{}", p.class()), p.to_string(), bytes_replay("protocol-header", &inp)),
            Ok(Err(e)) => {
                acc.hostile_err += 1;
                acc.outcomes.insert(format!("proto:{}", e));
            }
            Ok(Ok((h, used))) => {
                acc.hostile_ok += 1;
                match proto_encode(&h) {
                    Ok(e) if e == inp[..used] => {}
                    other => acc.v("protocol-header", "decoded-value-does-not-re-encode", format!("consumed {} bytes, re-encoded {:?}", used, other.map(|e| hex(&e))), bytes_replay("protocol-header", &inp)),
                }
            }
        }
    }
    acc
}

// ------------------------------------------------------------------------------------ status report

fn part_status() -> Acc {
    let mut acc = Acc::default();
    let mut valid = Vec::new();
    let codes = [GeneralCode::Success, GeneralCode::Failure, GeneralCode::Busy, GeneralCode::InvalidArgument];
    for gc in codes {
        for proto_id in U32S {
            for proto_code in U16S {
                for data in [&[][..], &[0u8], &[1, 2, 3, 0xff], &[0x5a; 40]] {
                    let sr = StatusReport { general_code: gc, proto_id, proto_code, proto_data: data };
                    let mut buf = [0u8; 128];
                    let mut wb = WriteBuf::new(&mut buf);
                    acc.round_trips += 1;
                    if let Err(e) = sr.write(&mut wb) {
                        acc.v("status-report", "encode-failed", format!("{:?}: {:?}", sr, e.code()), json!({"format": "status-report"}));
                        continue;
                    }
                    let enc = wb.as_slice().to_vec();
                    let mut rb = ReadBuf::new(&enc[..]);
                    match StatusReport::read(&mut rb) {
                        Ok(d) => {
                            if d.general_code as u16 != gc as u16 || d.proto_id != proto_id || d.proto_code != proto_code || d.proto_data != data {
                                acc.v("status-report", "round-trip-mismatch", format!("encoded {:?}, decoded {:?}", sr, d), bytes_replay("status-report", &enc));
                            }
                        }
                        Err(e) => acc.v("status-report", "own-encoding-refused", format!("{:?}: {:?}", sr, e.code()), bytes_replay("status-report", &enc)),
                    }
                    if valid.len() < 20 {
                        valid.push(enc);
                    }
                }
            }
        }
    }
    let mut inputs = short_strings(4);
    for g in 0..=0x20u16 {
        for hi in [0u8, 1, 0xff] {
            inputs.push(vec![g as u8, hi, 0, 0, 0, 0, 2, 0, 9]);
        }
    }
    for v in &valid {
        inputs.extend(mutations(v));
    }
    for inp in inputs {
        acc.hostile += 1;
        let r = common::catch(|| {
            let mut rb = ReadBuf::new(&inp[..]);
            StatusReport::read(&mut rb).map(|d| (d.general_code as u16, d.proto_id, d.proto_code, d.proto_data.to_vec())).map_err(|e| format!("{:?}", e.code()))
        });
        match r {
            Err(p) => acc.v("status-report", &format!("panic:{}", p.class()), p.to_string(), bytes_replay("status-report", &inp)),
            Ok(Err(e)) => {
                acc.hostile_err += 1;
                acc.outcomes.insert(format!("status:{}", e));
            }
            Ok(Ok(d)) => {
                acc.hostile_ok += 1;
                let mut exp = Vec::new();
                exp.extend_from_slice(&d.0.to_le_bytes());
                exp.extend_from_slice(&d.1.to_le_bytes());
                exp.extend_from_slice(&d.2.to_le_bytes());
                exp.extend_from_slice(&d.3);
                if exp != inp {
                    acc.v("status-report", "decoded-fields-are-not-the-input", format!("{:?}", d), bytes_replay("status-report", &inp));
                }
            }
        }
    }
    acc
}

// ------------------------------------------------------------------------------------ BDX

fn part_bdx() -> Acc {
    let mut acc = Acc::default();
    let mut valid: Vec<(u8, Vec<u8>)> = Vec::new();
    let tcs: Vec<TransferControl> = (0..16u8).flat_map(|bits| [0u8, 1, 15].into_iter().map(move |version| TransferControl { version, sender_drive: bits & 1 != 0, receiver_drive: bits & 2 != 0, async_mode: bits & 4 != 0 })).collect();
    let rcs: Vec<RangeControl> = (0..8u8).map(|b| RangeControl { def_len: b & 1 != 0, start_offset: b & 2 != 0, wide_range: b & 4 != 0 }).collect();
    let designators: [&[u8]; 3] = [&[], b"f", &[0x7e; 300]];
    let metas: [&[u8]; 3] = [&[], &[0x15, 0x18], &[0xff; 9]];
    let enc_of = |f: &dyn Fn(&mut WriteBuf) -> Result<(), rs_matter::error::Error>| -> Result<Vec<u8>, String> {
        let mut buf = vec![0u8; 1024];
        let mut wb = WriteBuf::new(&mut buf);
        f(&mut wb).map_err(|e| format!("{:?}", e.code()))?;
        Ok(wb.as_slice().to_vec())
    };
    for tc in &tcs {
        if tc.version == 15 && (tc.sender_drive || tc.async_mode) {
            continue;
        }
        for rc in &rcs {
            for mbs in [0u16, 1, 1024, 0xffff] {
                for off in U64S {
                    for len in [0u64, 1, 0xffff_ffff, 0x1_0000_0000, u64::MAX] {
                        // legal combinations only: absent fields are 0, narrow fields fit 32 bits
                        if (!rc.start_offset && off != 0) || (!rc.def_len && len != 0) {
                            continue;
                        }
                        if !rc.wide_range && (off > u32::MAX as u64 || len > u32::MAX as u64) {
                            continue;
                        }
                        for fd in designators {
                            for md in metas {
                                if fd.len() > 1 && (md.len() > 2 || mbs > 1) {
                                    continue;
                                }
                                let m = TransferInit { transfer_control: *tc, range_control: *rc, max_block_size: mbs, start_offset: off, length: len, file_designator: fd, metadata: md };
                                acc.round_trips += 1;
                                let enc = match enc_of(&|wb| m.write(wb)) {
                                    Ok(e) => e,
                                    Err(e) => {
                                        acc.v("bdx-init", "encode-failed", format!("{:?}: {}", m, e), json!({"format": "bdx-init"}));
                                        continue;
                                    }
                                };
                                match TransferInit::parse(&enc) {
                                    Ok(d) => {
                                        if d.transfer_control != m.transfer_control || d.range_control != m.range_control || d.max_block_size != mbs || d.start_offset != off || d.length != len || d.file_designator != fd || d.metadata != md {
                                            acc.v("bdx-init", "round-trip-mismatch", format!("encoded {:?}, decoded {:?}", m, d), bytes_replay("bdx-init", &enc));
                                        }
                                    }
                                    Err(e) => acc.v("bdx-init", "own-encoding-refused", format!("{:?}: {:?}", m, e.code()), bytes_replay("bdx-init", &enc)),
                                }
                                if valid.len() < 30 || (rc.wide_range && rc.def_len && rc.start_offset && valid.len() < 60) {
                                    valid.push((0, enc));
                                }
                            }
                        }
                    }
                }
                // accept messages
                for receive in [false, true] {
                    for len in [0u64, 1, 0xffff_ffff, 0x1_0000_0000, u64::MAX] {
                        let rc2 = if receive { RangeControl { start_offset: false, ..*rc } } else { RangeControl::default() };
                        if rc.start_offset || (!receive && (len != 0 || *rc != RangeControl::default())) {
                            continue;
                        }
                        if (!rc2.def_len && len != 0) || (!rc2.wide_range && len > u32::MAX as u64) {
                            continue;
                        }
                        for md in metas {
                            let m = TransferAccept { receive, transfer_control: *tc, range_control: rc2, max_block_size: mbs, length: len, metadata: md };
                            acc.round_trips += 1;
                            let enc = match enc_of(&|wb| m.write(wb)) {
                                Ok(e) => e,
                                Err(e) => {
                                    acc.v("bdx-accept", "encode-failed", format!("{:?}: {}", m, e), json!({"format": "bdx-accept"}));
                                    continue;
                                }
                            };
                            match TransferAccept::parse(receive, &enc) {
                                Ok(d) => {
                                    if d.transfer_control != m.transfer_control || d.range_control != rc2 || d.max_block_size != mbs || d.length != len || d.metadata != md || d.receive != receive {
                                        acc.v("bdx-accept", "round-trip-mismatch", format!("encoded {:?}, decoded {:?}", m, d), bytes_replay("bdx-accept", &enc));
                                    }
                                }
                                Err(e) => acc.v("bdx-accept", "own-encoding-refused", format!("{:?}: {:?}", m, e.code()), bytes_replay("bdx-accept", &enc)),
                            }
                            if valid.len() < 90 {
                                valid.push((if receive { 2 } else { 1 }, enc));
                            }
                        }
                    }
                }
            }
        }
    }
    for ctr in U32S {
        for data in [&[][..], &[1u8], &[0xab; 200]] {
            let m = Block { block_counter: ctr, data };
            acc.round_trips += 1;
            let enc = enc_of(&|wb| m.write(wb)).unwrap_or_default();
            match Block::parse(&enc) {
                Ok(d) if d.block_counter == ctr && d.data == data => {}
                other => acc.v("bdx-block", "round-trip-mismatch", format!("{:?} -> {:?}", m, other.map_err(|e| e.code())), bytes_replay("bdx-block", &enc)),
            }
            valid.push((3, enc));
        }
        let q = BlockQuery { block_counter: ctr };
        acc.round_trips += 1;
        let enc = enc_of(&|wb| q.write(wb)).unwrap_or_default();
        match BlockQuery::parse(&enc) {
            Ok(d) if d == q => {}
            other => acc.v("bdx-block-query", "round-trip-mismatch", format!("{:?} -> {:?}", q, other.map_err(|e| e.code())), bytes_replay("bdx-block-query", &enc)),
        }
        valid.push((4, enc));
        for skip in U64S {
            let q = BlockQueryWithSkip { block_counter: ctr, bytes_to_skip: skip };
            acc.round_trips += 1;
            let enc = enc_of(&|wb| q.write(wb)).unwrap_or_default();
            match BlockQueryWithSkip::parse(&enc) {
                Ok(d) if d == q => {}
                other => acc.v("bdx-block-query-skip", "round-trip-mismatch", format!("{:?} -> {:?}", q, other.map_err(|e| e.code())), bytes_replay("bdx-block-query-skip", &enc)),
            }
            if skip == 1 {
                valid.push((5, enc));
            }
        }
    }
    // hostile: every decoder on every input
    let mut inputs = short_strings(5);
    for (_, v) in &valid {
        if v.len() < 64 {
            inputs.extend(mutations(v));
        }
    }
    // designator length fields pointing beyond the message
    for l in [0u16, 1, 2, 0x7fff, 0xffff] {
        for rc in 0..=0x1fu8 {
            let mut t = vec![0x10, rc, 0, 4];
            t.extend_from_slice(&[1; 16]);
            t.extend_from_slice(&l.to_le_bytes());
            t.push(0x41);
            inputs.push(t);
        }
    }
    for inp in inputs {
        for k in 0..6u8 {
            acc.hostile += 1;
            let r = common::catch(|| -> Result<Vec<u8>, String> {
                let mut buf = vec![0u8; inp.len() + 64];
                let mut wb = WriteBuf::new(&mut buf);
                let e2s = |e: rs_matter::error::Error| format!("{:?}", e.code());
                match k {
                    0 => TransferInit::parse(&inp).map_err(e2s)?.write(&mut wb).map_err(e2s)?,
                    1 => TransferAccept::parse(false, &inp).map_err(e2s)?.write(&mut wb).map_err(e2s)?,
                    2 => TransferAccept::parse(true, &inp).map_err(e2s)?.write(&mut wb).map_err(e2s)?,
                    3 => Block::parse(&inp).map_err(e2s)?.write(&mut wb).map_err(e2s)?,
                    4 => BlockQuery::parse(&inp).map_err(e2s)?.write(&mut wb).map_err(e2s)?,
                    _ => BlockQueryWithSkip::parse(&inp).map_err(e2s)?.write(&mut wb).map_err(e2s)?,
                }
                Ok(wb.as_slice().to_vec())
            });
            match r {
                Err(p) => acc.v("bdx", &format!("panic:{}:decoder{}", p.class(), k), p.to_string(), json!({"format": "bdx", "decoder": k, "hex": hex(&inp)})),
                Ok(Err(e)) => {
                    acc.hostile_err += 1;
                    acc.outcomes.insert(format!("bdx{}:{}", k, e));
                }
                Ok(Ok(re)) => {
                    acc.hostile_ok += 1;
                    // the decoded value re-encodes to a prefix-compatible message: control bits the
                    // structures do not model are dropped, everything else must be the input
                    let same = match k {
                        4 => re[..] == inp[..4.min(inp.len())],
                        5 => re[..] == inp[..12.min(inp.len())],
                        3 => re == inp,
                        _ => re.len() == inp.len() && re[2..] == inp[2..] || k == 1 && re.len() == inp.len() && re[1..] == inp[1..],
                    };
                    if !same {
                        acc.v("bdx", &format!("decoded-value-does-not-re-encode:decoder{}", k), format!("re-encoded {}", hex(&re)), json!({"format": "bdx", "decoder": k, "hex": hex(&inp)}));
                    }
                }
            }
        }
    }
    acc
}

// ------------------------------------------------------------------------------------ check-in

fn part_checkin() -> Acc {
    let mut acc = Acc::default();
    let c = nodes::crypto(SeededRng::new(3));
    let mut key = CanonAeadKey::new();
    key.load_from_array(&[0x42; 16]);
    let mut other = CanonAeadKey::new();
    other.load_from_array(&[0x43; 16]);
    let ci = CheckIn::new(key.reference());
    let ci2 = CheckIn::new(other.reference());
    let mut valid = Vec::new();
    for counter in U32S {
        for app in [&[][..], &[1u8], &[0xA5; 64]] {
            let mut buf = vec![0u8; 256];
            acc.round_trips += 1;
            let msg = match ci.generate(&c, counter, app, &mut buf) {
                Ok(m) => m.to_vec(),
                Err(e) => {
                    acc.v("check-in", "encode-failed", format!("counter {} app {}: {:?}", counter, app.len(), e.code()), json!({"format": "check-in"}));
                    continue;
                }
            };
            let mut m2 = msg.clone();
            match ci.parse(&c, &mut m2) {
                Ok(p) if p.counter == counter && p.app_data == app => {}
                other => acc.v("check-in", "round-trip-mismatch", format!("counter {} app {:?} -> {:?}", counter, app, other.map(|p| (p.counter, p.app_data.to_vec())).map_err(|e| e.code())), bytes_replay("check-in", &msg)),
            }
            // another key must not open it
            let mut m3 = msg.clone();
            acc.refusals_checked += 1;
            if ci2.parse(&c, &mut m3).is_ok() {
                acc.v("check-in", "opened-with-another-key", format!("counter {}", counter), bytes_replay("check-in", &msg));
            }
            // every single bit of the message is protected
            for i in 0..msg.len() * 8 {
                let mut m = msg.clone();
                m[i / 8] ^= 1 << (i % 8);
                acc.refusals_checked += 1;
                match common::catch(|| ci.parse(&c, &mut m).map(|p| p.counter)) {
                    Err(p) => acc.v("check-in", &format!("panic:{}", p.class()), p.to_string(), bytes_replay("check-in", &msg)),
                    Ok(Ok(_)) => acc.v("check-in", "altered-message-accepted", format!("bit {} of a {}-byte message", i, msg.len()), bytes_replay("check-in", &msg)),
                    Ok(Err(_)) => {}
                }
            }
            valid.push(msg);
        }
    }
    let mut inputs = short_strings(3);
    for v in &valid {
        for n in 0..v.len() {
            inputs.push(v[..n].to_vec());
        }
        let mut t = v.clone();
        t.push(0);
        inputs.push(t);
    }
    for inp in inputs {
        acc.hostile += 1;
        let mut m = inp.clone();
        match common::catch(|| ci.parse(&c, &mut m).map(|p| p.counter).map_err(|e| format!("{:?}", e.code()))) {
            Err(p) => acc.v("check-in", &format!("panic:{}", p.class()), p.to_string(), bytes_replay("check-in", &inp)),
            Ok(Ok(_)) => {
                acc.hostile_ok += 1;
                acc.v("check-in", "garbage-accepted", format!("{} bytes", inp.len()), bytes_replay("check-in", &inp));
            }
            Ok(Err(e)) => {
                acc.hostile_err += 1;
                acc.outcomes.insert(format!("checkin:{}", e));
            }
        }
    }
    acc
}

// ------------------------------------------------------------------------------------ base-38

const B38: &[u8] = b"0123456789ABCDEFGHIJKLMNOPQRSTUVWXYZ-.";

fn b38_decode(s: &str) -> Result<Vec<u8>, String> {
    let mut v = Vec::new();
    for b in base38::decode(s) {
        v.push(b.map_err(|e| format!("{:?}", e.code()))?);
    }
    Ok(v)
}

/// reference decoder (Matter Core spec 5.1.3.1), written independently
fn b38_ref(s: &str) -> Result<Vec<u8>, String> {
    let b = s.as_bytes();
    let mut out = Vec::new();
    for chunk in b.chunks(5) {
        let n = match chunk.len() {
            5 => 3,
            4 => 2,
            2 => 1,
            _ => return Err("length".into()),
        };
        let mut v: u64 = 0;
        for c in chunk.iter().rev() {
            let d = B38.iter().position(|x| x == c).ok_or("char")? as u64;
            v = v * 38 + d;
        }
        if v >= 1u64 << (8 * n) {
            return Err("range".into());
        }
        for i in 0..n {
            out.push((v >> (8 * i)) as u8);
        }
    }
    Ok(out)
}

fn part_base38(tier: Tier) -> Acc {
    let mut acc = Acc::default();
    // round trip: every byte string up to 2 bytes, 3-byte strings over a boundary alphabet (thorough: all), longer boundary strings
    let mut inputs: Vec<Vec<u8>> = vec![vec![]];
    for a in 0..=255u8 {
        inputs.push(vec![a]);
        for b in 0..=255u8 {
            inputs.push(vec![a, b]);
        }
    }
    let alpha: Vec<u8> = if tier == Tier::Thorough { (0..=255u8).collect() } else { vec![0, 1, 37, 38, 127, 128, 254, 255] };
    for a in &alpha {
        for b in &alpha {
            for c in &alpha {
                inputs.push(vec![*a, *b, *c]);
            }
        }
    }
    for l in 4..=11usize {
        for f in [0u8, 0xff, 0x5a] {
            inputs.push(vec![f; l]);
        }
        inputs.push((0..l as u8).map(|i| i.wrapping_mul(37)).collect());
    }
    for inp in &inputs {
        acc.round_trips += 1;
        let s: String = base38::encode(inp).collect();
        let exp_len = inp.len() / 3 * 5 + [0, 2, 4][inp.len() % 3];
        if s.len() != exp_len || !s.bytes().all(|c| B38.contains(&c)) {
            acc.v("base38", "encoding-shape", format!("{} bytes -> {:?}", inp.len(), s), bytes_replay("base38", inp));
        }
        match b38_decode(&s) {
            Ok(d) if d == *inp => {}
            other => acc.v("base38", "round-trip-mismatch", format!("{:?} -> {:?} -> {:?}", hex(inp), s, other), bytes_replay("base38", inp)),
        }
    }
    // decoder on arbitrary strings: all strings up to 2 chars over all bytes 0x20..0x7f, up to 5 over a boundary alphabet
    let mut strs: Vec<String> = vec![String::new()];
    let printable: Vec<char> = (0x20u8..0x7f).map(|c| c as char).collect();
    for a in &printable {
        strs.push(a.to_string());
        for b in &printable {
            strs.push(format!("{}{}", a, b));
        }
    }
    let al = ['0', '1', 'Z', '-', '.', 'a', '$', ' ', '/'];
    let mut layer: Vec<String> = al.iter().map(|c| c.to_string()).collect();
    for n in 2..=7 {
        let mut next = Vec::new();
        for s in &layer {
            for c in al {
                if n <= 5 || (c == '.' || c == '0' || c == '$') {
                    next.push(format!("{}{}", s, c));
                }
            }
        }
        if n >= 3 {
            strs.extend(next.iter().cloned());
        }
        layer = next;
        if layer.len() > 200_000 {
            layer.truncate(200_000);
        }
    }
    strs.push("é0".into());
    strs.push("00000é".into());
    for s in &strs {
        acc.hostile += 1;
        let got = match common::catch(|| b38_decode(s)) {
            Err(p) => {
                acc.v("base38", &format!("panic:{}", p.class()), p.to_string(), text_replay("base38", s));
                continue;
            }
            Ok(r) => r,
        };
        let want = b38_ref(s);
        match (&got, &want) {
            (Ok(g), Ok(w)) if g == w => acc.hostile_ok += 1,
            (Err(_), Err(_)) => {
                acc.hostile_err += 1;
                acc.refusals_checked += 1;
            }
            (Ok(g), Err(why)) => {
                acc.refusals_checked += 1;
                acc.v("base38", &format!("invalid-text-not-refused:{}", why), format!("{:?} decodes to {} ({} bytes) instead of being refused", s, hex(g), g.len()), text_replay("base38", s));
            }
            (g, w) => acc.v("base38", "decoder-disagrees-with-reference", format!("{:?}: got {:?}, reference {:?}", s, g, w), text_replay("base38", s)),
        }
    }
    acc
}

// ------------------------------------------------------------------------------------ QR payload, manual code

fn comm_data(passcode: u32, discriminator: u16) -> BasicCommData {
    BasicCommData { password: passcode.to_le_bytes().into(), discriminator }
}

const VERHOEFF_D: [[u8; 10]; 10] = [[0, 1, 2, 3, 4, 5, 6, 7, 8, 9], [1, 2, 3, 4, 0, 6, 7, 8, 9, 5], [2, 3, 4, 0, 1, 7, 8, 9, 5, 6], [3, 4, 0, 1, 2, 8, 9, 5, 6, 7], [4, 0, 1, 2, 3, 9, 5, 6, 7, 8], [5, 9, 8, 7, 6, 0, 4, 3, 2, 1], [6, 5, 9, 8, 7, 1, 0, 4, 3, 2], [7, 6, 5, 9, 8, 2, 1, 0, 4, 3], [8, 7, 6, 5, 9, 3, 2, 1, 0, 4], [9, 8, 7, 6, 5, 4, 3, 2, 1, 0]];
const VERHOEFF_P: [[u8; 10]; 8] = [[0, 1, 2, 3, 4, 5, 6, 7, 8, 9], [1, 5, 7, 6, 2, 8, 3, 0, 9, 4], [5, 8, 0, 3, 7, 9, 6, 1, 4, 2], [8, 9, 1, 6, 0, 4, 3, 5, 2, 7], [9, 4, 5, 3, 1, 2, 6, 8, 7, 0], [4, 2, 8, 6, 5, 7, 3, 9, 0, 1], [2, 7, 9, 3, 8, 0, 6, 4, 1, 5], [7, 0, 4, 6, 9, 1, 3, 2, 5, 8]];
const VERHOEFF_INV: [u8; 10] = [0, 4, 3, 2, 1, 5, 6, 7, 8, 9];

/// harness-side Verhoeff check digit of a digit string
fn verhoeff(digits: &str) -> u8 {
    let mut c = 0usize;
    for (i, ch) in digits.bytes().rev().enumerate() {
        c = VERHOEFF_D[c][VERHOEFF_P[(i + 1) % 8][(ch - b'0') as usize] as usize] as usize;
    }
    VERHOEFF_INV[c]
}

fn manual_code(disc4: u8, passcode: u32, vid_pid: Option<(u16, u16)>) -> String {
    let d12 = (disc4 as u32) << 8;
    let mut s = format!("{}{:05}{:04}", ((vid_pid.is_some() as u32) << 2) | (d12 >> 10), ((d12 & 0x300) << 6) | (passcode & 0x3fff), passcode >> 14);
    if let Some((v, p)) = vid_pid {
        s += &format!("{:05}{:05}", v, p);
    }
    let c = verhoeff(&s);
    format!("{}{}", s, c)
}

fn part_manual(tier: Tier) -> Acc {
    let mut acc = Acc::default();
    let passcodes: Vec<u32> = vec![1, 2, 0x3fff, 0x4000, 0x4001, 12345679, 20202021, 34567890, 99999998, 0x7ff_ffff, 0, 11111111];
    let discs: Vec<u16> = if tier == Tier::Thorough { (0..4096).collect() } else { (0..4096).step_by(37).chain([0, 0xff, 0x100, 0x3ff, 0x400, 0xf00, 0xfff]).collect() };
    let mut codes: Vec<String> = Vec::new();
    for pc in &passcodes {
        for d in &discs {
            acc.round_trips += 1;
            let cd = comm_data(*pc, *d);
            let code = cd.compute_pairing_code();
            let pretty = cd.compute_pretty_pairing_code();
            if code.as_str() != manual_code((*d >> 8) as u8, *pc, None) {
                acc.v("manual-code", "encoder-disagrees-with-reference", format!("passcode {} discriminator {}: {} vs {}", pc, d, code, manual_code((*d >> 8) as u8, *pc, None)), json!({"format": "manual-code", "passcode": pc, "discriminator": d}));
            }
            for text in [code.as_str(), pretty.as_str()] {
                match QrPayload::parse_pairing_code(text) {
                    Ok(p) => {
                        if p.passcode() != *pc || p.short_discriminator() as u16 != *d >> 8 || p.vid_pid().is_some() || p.comm_flow() != Some(CommFlowType::Standard) {
                            acc.v("manual-code", "round-trip-mismatch", format!("passcode {} discriminator {:#x} -> {:?} -> passcode {} short discriminator {} vid/pid {:?}", pc, d, text, p.passcode(), p.short_discriminator(), p.vid_pid()), text_replay("manual-code", text));
                        }
                    }
                    Err(e) => acc.v("manual-code", "own-encoding-refused", format!("{:?}: {:?}", text, e.code()), text_replay("manual-code", text)),
                }
            }
            if codes.len() < 400 || *d == 0xfff {
                codes.push(code.to_string());
            }
        }
    }
    // long form (harness-side encoder)
    for pc in [1u32, 20202021, 0x7ff_ffff] {
        for d4 in [0u8, 5, 15] {
            for (v, p) in [(0u16, 0u16), (1, 1), (0xfff1, 0x8000), (0xffff, 0xffff)] {
                acc.round_trips += 1;
                let code = manual_code(d4, pc, Some((v, p)));
                match QrPayload::parse_pairing_code(&code) {
                    Ok(q) => {
                        if q.passcode() != pc || q.short_discriminator() != d4 || q.vid_pid() != Some((v, p)) {
                            acc.v("manual-code", "long-form-mismatch", format!("{:?} -> passcode {} short discriminator {} vid/pid {:?}", code, q.passcode(), q.short_discriminator(), q.vid_pid()), text_replay("manual-code", &code));
                        }
                    }
                    Err(e) => acc.v("manual-code", "valid-long-form-refused", format!("{:?}: {:?}", code, e.code()), text_replay("manual-code", &code)),
                }
                codes.push(code);
            }
        }
    }
    // refusal: every single-digit substitution and every adjacent transposition
    for code in &codes {
        let b = code.as_bytes();
        for i in 0..b.len() {
            for x in b'0'..=b'9' {
                if x == b[i] {
                    continue;
                }
                let mut t = b.to_vec();
                t[i] = x;
                let t = String::from_utf8(t).unwrap();
                acc.refusals_checked += 1;
                if QrPayload::parse_pairing_code(&t).is_ok() {
                    acc.v("manual-code", "wrong-check-digit-accepted:substitution", format!("{:?} (from {:?}, digit {} changed)", t, code, i), text_replay("manual-code", &t));
                }
            }
            if i + 1 < b.len() && b[i] != b[i + 1] {
                let mut t = b.to_vec();
                t.swap(i, i + 1);
                let t = String::from_utf8(t).unwrap();
                acc.refusals_checked += 1;
                if QrPayload::parse_pairing_code(&t).is_ok() {
                    acc.v("manual-code", "wrong-check-digit-accepted:transposition", format!("{:?} (from {:?}, digits {} and {} swapped)", t, code, i, i + 1), text_replay("manual-code", &t));
                }
            }
        }
    }
    // out-of-range digit groups with a correct check digit
    let with_check = |s: &str| format!("{}{}", s, verhoeff(s));
    let mut bad: Vec<(String, &str)> = Vec::new();
    for d1 in ['8', '9'] {
        bad.push((with_check(&format!("{}000010000", d1)), "first digit 8/9"));
    }
    bad.push((with_check("0655360000"), "digit group 2-6 above 65535"));
    bad.push((with_check("0999990000"), "digit group 2-6 above 65535"));
    bad.push((with_check("0000018192"), "digit group 7-10 above 8191"));
    bad.push((with_check("0000019999"), "digit group 7-10 above 8191"));
    bad.push((with_check("4000010000"), "vid/pid flag set on a short code"));
    bad.push((with_check("00000100000000100001"), "vid/pid flag clear on a long code"));
    bad.push((with_check("40000100006553600001"), "vendor id above 65535"));
    bad.push((with_check("40000100000000165536"), "product id above 65535"));
    for (code, why) in &bad {
        acc.refusals_checked += 1;
        if let Ok(p) = QrPayload::parse_pairing_code(code) {
            acc.v("manual-code", "out-of-range-field-accepted", format!("{:?} ({}) -> passcode {} vid/pid {:?}", code, why, p.passcode(), p.vid_pid()), text_replay("manual-code", code));
        }
    }
    // arbitrary text
    let mut texts: Vec<String> = vec!["".into(), "-".into(), " ".into(), "----------- ".into(), "０".repeat(11), "1".repeat(10), "1".repeat(12), "1".repeat(20), "1".repeat(22), "1".repeat(4000), "3497-0112-332\n".into(), "+3497011233".into(), "3497 0112 332".into(), "34970112332 ".into()];
    for c in ['a', '.', '/', ':', '٣', '\0', 'é'] {
        for pos in [0usize, 5, 10] {
            let mut s: Vec<char> = "34970112332".chars().collect();
            s[pos] = c;
            texts.push(s.into_iter().collect());
        }
    }
    for t in &texts {
        acc.hostile += 1;
        match common::catch(|| QrPayload::parse_pairing_code(t).map(|p| p.passcode()).map_err(|e| format!("{:?}", e.code()))) {
            Err(p) => acc.v("manual-code", &format!("panic:{}", p.class()), p.to_string(), text_replay("manual-code", t)),
            Ok(Ok(_)) => acc.hostile_ok += 1,
            Ok(Err(e)) => {
                acc.hostile_err += 1;
                acc.outcomes.insert(format!("manual:{}", e));
            }
        }
    }
    acc
}

fn part_qr(tier: Tier) -> Acc {
    let mut acc = Acc::default();
    let caps = [DiscoveryCapabilities::IP, DiscoveryCapabilities::BLE, DiscoveryCapabilities::SOFT_AP, DiscoveryCapabilities::all(), DiscoveryCapabilities::BLE | DiscoveryCapabilities::IP];
    let flows = [CommFlowType::Standard, CommFlowType::UserIntent, CommFlowType::Custom];
    let passcodes = [1u32, 20202021, 99999998, 0x7ff_ffff];
    let discs = [0u16, 1, 0xf00, 0xfff];
    let ids = [0u16, 1, 0xfff1, 0xffff];
    let long_serial = "S".repeat(32);
    let serials = ["", "1", "ABC-123_xyz", long_serial.as_str()];
    let mut valid_texts: Vec<String> = Vec::new();
    for cap in caps {
        for flow in flows {
            for pc in passcodes {
                for d in discs {
                    for vid in ids {
                        for pid in ids {
                            for sn in serials {
                                if tier == Tier::Quick && !sn.is_empty() && (vid != 0xfff1 || pc != 20202021) {
                                    continue;
                                }
                                let q = QrPayload::new(cap, flow, comm_data(pc, d), vid, pid, sn, no_optional_data);
                                let mut buf = vec![0u8; 512];
                                acc.round_trips += 1;
                                let text = match q.as_str(&mut buf) {
                                    Ok((s, _)) => s.to_string(),
                                    Err(e) => {
                                        acc.v("qr", "encode-failed", format!("{:?}: {:?}", (cap, flow, pc, d, vid, pid, sn), e.code()), json!({"format": "qr"}));
                                        continue;
                                    }
                                };
                                let mut pbuf = vec![0u8; 512];
                                match QrPayload::parse(&text, &mut pbuf) {
                                    Ok(p) => {
                                        if p.version() != 0 || p.discovery_capabilities() != cap || p.comm_flow() != flow || p.passcode() != pc || p.discriminator() != d || p.vid() != vid || p.pid() != pid || p.serial_no() != sn {
                                            acc.v("qr", "round-trip-mismatch", format!("encoded {:?} -> {:?} -> decoded {:?}", (cap, flow, pc, d, vid, pid, sn), text, (p.discovery_capabilities(), p.comm_flow(), p.passcode(), p.discriminator(), p.vid(), p.pid(), p.serial_no())), text_replay("qr", &text));
                                        }
                                        if sn.is_empty() && !p.optional_data().is_empty() {
                                            acc.v("qr", "optional-data-from-nowhere", format!("{:?}", text), text_replay("qr", &text));
                                        }
                                    }
                                    Err(e) => acc.v("qr", "own-encoding-refused", format!("{:?}: {:?}", text, e.code()), text_replay("qr", &text)),
                                }
                                if valid_texts.len() < 24 || (!sn.is_empty() && valid_texts.len() < 40) {
                                    valid_texts.push(text);
                                }
                            }
                        }
                    }
                }
            }
        }
    }
    // out-of-range fields: built bit by bit by the harness
    let pack = |version: u32, vid: u32, pid: u32, flow: u32, caps: u32, disc: u32, pass: u32, pad: u32| -> String {
        let mut bits: Vec<bool> = Vec::new();
        for (v, n) in [(version, 3), (vid, 16), (pid, 16), (flow, 2), (caps, 8), (disc, 12), (pass, 27), (pad, 4)] {
            for i in 0..n {
                bits.push((v >> i) & 1 == 1);
            }
        }
        let mut bytes = vec![0u8; 11];
        for (i, b) in bits.iter().enumerate() {
            if *b {
                bytes[i / 8] |= 1 << (i % 8);
            }
        }
        format!("MT:{}", base38::encode(&bytes).collect::<String>())
    };
    for (text, why) in [(pack(0, 0xfff1, 0x8000, 3, 4, 0xf00, 20202021, 0), "commissioning flow 3"), (pack(1, 0xfff1, 0x8000, 0, 4, 0xf00, 20202021, 0), "version 1"), (pack(7, 0xfff1, 0x8000, 0, 4, 0xf00, 20202021, 0), "version 7")] {
        acc.refusals_checked += 1;
        let mut pbuf = vec![0u8; 512];
        if let Ok(p) = QrPayload::parse(&text, &mut pbuf) {
            // a payload of a future version / with a reserved value must not pass for a valid v1 payload
            let q = QrPayload::new(p.discovery_capabilities(), p.comm_flow(), comm_data(p.passcode(), p.discriminator()), p.vid(), p.pid(), "", no_optional_data);
            if p.version() == 0 && q.is_valid() {
                acc.v("qr", "out-of-range-field-accepted", format!("{:?} ({})", text, why), text_replay("qr", &text));
            }
            if p.version() != 0 && why.starts_with("version") {
                // reported as the version it carries: the caller can tell; fine
            }
        }
    }
    // arbitrary text
    let mut texts: Vec<String> = vec!["".into(), "MT".into(), "MT:".into(), "mt:00000".into(), "MT:-".into(), format!("MT:{}", "0".repeat(18)), format!("MT:{}", "0".repeat(19)), format!("MT:{}", "Z".repeat(19)), format!("MT:{}", ".".repeat(19)), format!("MT:{}", "0".repeat(4000))];
    for v in &valid_texts {
        let b = v.as_bytes();
        for n in 3..b.len() {
            texts.push(v[..n].to_string());
        }
        for i in 3..b.len() {
            for x in [b'0', b'Z', b'.', b'-', b'a', b'$', b' '] {
                if x != b[i] {
                    let mut t = b.to_vec();
                    t[i] = x;
                    texts.push(String::from_utf8(t).unwrap());
                }
            }
        }
        texts.push(format!("{}0", v));
        texts.push(format!("{}$$", v));
        texts.push(format!("{}ZZZZZ", v));
    }
    for t in &texts {
        acc.hostile += 1;
        let r = common::catch(|| {
            let mut pbuf = vec![0u8; 600];
            QrPayload::parse(t, &mut pbuf).map(|p| (p.version(), p.passcode(), p.discriminator(), p.vid(), p.pid(), p.serial_no().to_string(), p.optional_data().to_vec())).map_err(|e| format!("{:?}", e.code()))
        });
        match r {
            Err(p) => acc.v("qr", &format!("panic:{}", p.class()), p.to_string(), text_replay("qr", t)),
            Ok(Ok(_)) => acc.hostile_ok += 1,
            Ok(Err(e)) => {
                acc.hostile_err += 1;
                acc.outcomes.insert(format!("qr:{}", e));
            }
        }
        // text that is not base-38 must not be taken for a payload
        if let Some(body) = t.strip_prefix("MT:") {
            if b38_ref(body).is_err() {
                acc.refusals_checked += 1;
                let mut pbuf = vec![0u8; 600];
                if QrPayload::parse(t, &mut pbuf).is_ok() && t.len() < 200 {
                    acc.v("qr", "text-that-is-not-base38-accepted", format!("{:?}", t), text_replay("qr", t));
                }
            }
        }
    }
    acc
}

// ------------------------------------------------------------------------------------ BLE advertisement

fn part_adv() -> Acc {
    let mut acc = Acc::default();
    let mut valid = Vec::new();
    for vid in U16S {
        for pid in U16S {
            for disc in [0u16, 1, 0xff, 0x100, 0xf00, 0xfff] {
                let det: &'static _ = Box::leak(Box::new(rs_matter::dm::clusters::basic_info::BasicInfoConfig { vid, pid, ..TEST_DEV_DET }));
                let a = AdvData::new(det, disc);
                let bytes: Vec<u8> = a.iter().collect();
                acc.round_trips += 1;
                match AdvData::parse_adv(&bytes) {
                    Some(d) if d.vid() == vid && d.pid() == pid && d.discriminator() == disc && !d.additional_data() => {}
                    other => acc.v("ble-advertisement", "round-trip-mismatch", format!("vid {:#x} pid {:#x} discriminator {:#x} -> {:?}", vid, pid, disc, other), bytes_replay("ble-advertisement", &bytes)),
                }
                let payload: Vec<u8> = a.service_payload_iter().collect();
                match AdvData::parse_service_data(&payload) {
                    Some(d) if d.vid() == vid && d.pid() == pid && d.discriminator() == disc => {}
                    other => acc.v("ble-advertisement", "service-data-mismatch", format!("{:?}", other), bytes_replay("ble-advertisement", &payload)),
                }
                if valid.len() < 12 {
                    valid.push(bytes);
                }
            }
        }
    }
    let mut inputs = short_strings(5);
    for v in &valid {
        inputs.extend(mutations(v));
    }
    // advertising structures with hostile length octets
    for l in [0u8, 1, 2, 3, 10, 11, 12, 0x7f, 0xff] {
        for ty in [0x01u8, 0x16, 0x03, 0xff] {
            inputs.push(vec![2, 1, 6, l, ty, 0xf6, 0xff, 0, 0, 0xf, 0xf1, 0xff, 0, 0x80, 0]);
            inputs.push(vec![l, ty, 0xf6, 0xff, 0, 0, 0xf]);
        }
    }
    for inp in inputs {
        acc.hostile += 1;
        match common::catch(|| (AdvData::parse_adv(&inp), AdvData::parse_service_data(&inp), rs_matter::transport::network::btp::RecoveryAdvData::parse_adv(&inp).is_some())) {
            Err(p) => acc.v("ble-advertisement", &format!("panic:{}", p.class()), p.to_string(), bytes_replay("ble-advertisement", &inp)),
            Ok((a, s, _)) => {
                if a.is_some() || s.is_some() {
                    acc.hostile_ok += 1;
                } else {
                    acc.hostile_err += 1;
                }
                if let Some(d) = s {
                    if inp.len() < 8 || inp[0] != 0 || d.discriminator() != u16::from_le_bytes([inp[1], inp[2]]) & 0xfff || d.vid() != u16::from_le_bytes([inp[3], inp[4]]) || d.pid() != u16::from_le_bytes([inp[5], inp[6]]) {
                        acc.v("ble-advertisement", "service-data-fields-are-not-the-input", format!("{:?}", d), bytes_replay("ble-advertisement", &inp));
                    }
                }
            }
        }
    }
    acc
}


// ------------------------------------------------------------------------------------ certificate conversion

/// One name attribute of a Matter certificate: (context tag 1..=22, value).
#[derive(Clone, Debug)]
enum DnVal {
    Int(u64),
    Utf8(String),
    Printable(String),
}

/// Every field of a Matter-TLV certificate (without the signature), as parameters.
#[derive(Clone, Debug)]
struct XSpec {
    serial: Vec<u8>,
    issuer: Vec<(u8, DnVal)>,
    not_before: u32,
    not_after: u32,
    subject: Vec<(u8, DnVal)>,
    pubkey: Vec<u8>,
    basic: Option<(bool, Option<u8>)>,
    key_usage: Option<u16>,
    eku: Option<Vec<u8>>,
    skid: Option<Vec<u8>>,
    akid: Option<Vec<u8>>,
    future: Vec<Vec<u8>>,
}

fn xspec_base() -> XSpec {
    XSpec {
        serial: vec![0x01],
        issuer: vec![(20, DnVal::Int(1))],
        not_before: 0x2000_0000,
        not_after: 0x3000_0000,
        subject: vec![(17, DnVal::Int(0x0102_0304_0506_0708)), (21, DnVal::Int(0xFAB0_0000_0000_001D))],
        pubkey: (0..65u8).map(|i| if i == 0 { 4 } else { i.wrapping_mul(3) }).collect(),
        basic: Some((false, None)),
        key_usage: Some(0x0001),
        eku: Some(vec![2, 1]),
        skid: Some((1..=20).collect()),
        akid: Some((21..=40).collect()),
        future: vec![],
    }
}

fn xspec_tlv(x: &XSpec) -> Vec<u8> {
    use rs_matter::tlv::{TLVTag, TLVWrite};
    use rs_matter::utils::storage::WriteBuf;
    let mut buf = vec![0u8; 2048];
    let mut tw = WriteBuf::new(&mut buf);
    let dn = |tw: &mut WriteBuf<'_>, tag: u8, dn: &[(u8, DnVal)]| {
        tw.start_list(&TLVTag::Context(tag)).unwrap();
        for (t, v) in dn {
            match v {
                DnVal::Int(i) => tw.u64(&TLVTag::Context(*t), *i).unwrap(),
                DnVal::Utf8(s) => tw.utf8(&TLVTag::Context(*t), s).unwrap(),
                DnVal::Printable(s) => tw.utf8(&TLVTag::Context(*t | 0x80), s).unwrap(),
            }
        }
        tw.end_container().unwrap();
    };
    tw.start_struct(&TLVTag::Anonymous).unwrap();
    tw.str(&TLVTag::Context(1), &x.serial).unwrap();
    tw.u8(&TLVTag::Context(2), 1).unwrap();
    dn(&mut tw, 3, &x.issuer);
    tw.u32(&TLVTag::Context(4), x.not_before).unwrap();
    tw.u32(&TLVTag::Context(5), x.not_after).unwrap();
    dn(&mut tw, 6, &x.subject);
    tw.u8(&TLVTag::Context(7), 1).unwrap();
    tw.u8(&TLVTag::Context(8), 1).unwrap();
    tw.str(&TLVTag::Context(9), &x.pubkey).unwrap();
    tw.start_list(&TLVTag::Context(10)).unwrap();
    if let Some((ca, pl)) = x.basic {
        tw.start_struct(&TLVTag::Context(1)).unwrap();
        tw.bool(&TLVTag::Context(1), ca).unwrap();
        if let Some(p) = pl {
            tw.u8(&TLVTag::Context(2), p).unwrap();
        }
        tw.end_container().unwrap();
    }
    if let Some(ku) = x.key_usage {
        tw.u16(&TLVTag::Context(2), ku).unwrap();
    }
    if let Some(eku) = &x.eku {
        tw.start_array(&TLVTag::Context(3)).unwrap();
        for e in eku {
            tw.u8(&TLVTag::Anonymous, *e).unwrap();
        }
        tw.end_container().unwrap();
    }
    if let Some(k) = &x.skid {
        tw.str(&TLVTag::Context(4), k).unwrap();
    }
    if let Some(k) = &x.akid {
        tw.str(&TLVTag::Context(5), k).unwrap();
    }
    for f in &x.future {
        tw.str(&TLVTag::Context(6), f).unwrap();
    }
    tw.end_container().unwrap();
    tw.end_container().unwrap();
    tw.as_slice().to_vec()
}

/// DER TLV with a minimal definite length.
fn der(tag: u8, content: &[u8]) -> Vec<u8> {
    let mut v = vec![tag];
    let n = content.len();
    if n < 128 {
        v.push(n as u8);
    } else if n < 256 {
        v.extend_from_slice(&[0x81, n as u8]);
    } else {
        v.extend_from_slice(&[0x82, (n >> 8) as u8, n as u8]);
    }
    v.extend_from_slice(content);
    v
}

fn der_cat(parts: &[Vec<u8>]) -> Vec<u8> {
    parts.iter().flat_map(|p| p.iter().copied()).collect()
}

/// Civil date of a count of days since 1970-01-01 (proleptic Gregorian).
fn civil(days: i64) -> (i64, u32, u32) {
    let z = days + 719_468;
    let era = z.div_euclid(146_097);
    let doe = z.rem_euclid(146_097);
    let yoe = (doe - doe / 1460 + doe / 36_524 - doe / 146_096) / 365;
    let y = yoe + era * 400;
    let doy = doe - (365 * yoe + yoe / 4 - yoe / 100);
    let mp = (5 * doy + 2) / 153;
    let d = (doy - (153 * mp + 2) / 5 + 1) as u32;
    let m = if mp < 10 { mp + 3 } else { mp - 9 } as u32;
    (if m <= 2 { y + 1 } else { y }, m, d)
}

/// X.509 time of a Matter-epoch second count (0 in not-after = no expiry).
fn der_time(matter_secs: u32, is_not_after: bool) -> Vec<u8> {
    if is_not_after && matter_secs == 0 {
        return der(0x18, b"99991231235959Z");
    }
    let unix = matter_secs as i64 + 946_684_800;
    let (y, m, d) = civil(unix.div_euclid(86_400));
    let r = unix.rem_euclid(86_400);
    let (hh, mm, ss) = (r / 3600, r % 3600 / 60, r % 60);
    if y >= 2050 {
        der(0x18, format!("{:04}{:02}{:02}{:02}{:02}{:02}Z", y, m, d, hh, mm, ss).as_bytes())
    } else {
        der(0x17, format!("{:02}{:02}{:02}{:02}{:02}{:02}Z", y % 100, m, d, hh, mm, ss).as_bytes())
    }
}

fn dn_oid(tag: u8) -> Vec<u8> {
    match tag {
        1 => vec![0x55, 4, 3],
        2 => vec![0x55, 4, 4],
        3 => vec![0x55, 4, 5],
        4 => vec![0x55, 4, 6],
        5 => vec![0x55, 4, 7],
        6 => vec![0x55, 4, 8],
        7 => vec![0x55, 4, 10],
        8 => vec![0x55, 4, 11],
        9 => vec![0x55, 4, 12],
        10 => vec![0x55, 4, 41],
        11 => vec![0x55, 4, 42],
        12 => vec![0x55, 4, 43],
        13 => vec![0x55, 4, 44],
        14 => vec![0x55, 4, 46],
        15 => vec![0x55, 4, 65],
        // 0.9.2342.19200300.100.1.25
        16 => vec![0x09, 0x92, 0x26, 0x89, 0x93, 0xF2, 0x2C, 0x64, 0x01, 0x19],
        // 1.3.6.1.4.1.37244.1.n
        t => vec![0x2B, 0x06, 0x01, 0x04, 0x01, 0x82, 0xA2, 0x7C, 0x01, t - 16],
    }
}

fn der_name(dn: &[(u8, DnVal)]) -> Vec<u8> {
    let mut rdns = Vec::new();
    for (t, v) in dn {
        let val = match v {
            DnVal::Int(i) if *t == 22 => der(0x0c, format!("{:08X}", i).as_bytes()),
            DnVal::Int(i) => der(0x0c, format!("{:016X}", i).as_bytes()),
            DnVal::Utf8(s) => der(0x0c, s.as_bytes()),
            DnVal::Printable(s) => der(0x13, s.as_bytes()),
        };
        rdns.push(der(0x31, &der(0x30, &der_cat(&[der(0x06, &dn_oid(*t)), val]))));
    }
    der(0x30, &der_cat(&rdns))
}

/// KeyUsage as a DER BIT STRING: Matter bit 0 (digitalSignature) is X.509 bit 0 = the most significant bit.
fn der_key_usage(ku: u16) -> Vec<u8> {
    let mut bytes = [0u8; 2];
    for bit in 0..16 {
        if ku & (1 << bit) != 0 {
            bytes[bit / 8] |= 0x80 >> (bit % 8);
        }
    }
    let mut n = 2;
    while n > 0 && bytes[n - 1] == 0 {
        n -= 1;
    }
    let unused = if n == 0 { 0 } else { bytes[n - 1].trailing_zeros() as u8 };
    let mut c = vec![unused];
    c.extend_from_slice(&bytes[..n]);
    der(0x03, &c)
}

fn der_ext(oid: &[u8], critical: bool, value: &[u8]) -> Vec<u8> {
    let mut parts = vec![der(0x06, oid)];
    if critical {
        parts.push(der(0x01, &[0xff]));
    }
    parts.push(der(0x04, value));
    der(0x30, &der_cat(&parts))
}

/// The X.509 TBSCertificate a Matter certificate stands for (Matter Core spec, operational certificate encoding).
fn xspec_der(x: &XSpec) -> Vec<u8> {
    let mut exts = Vec::new();
    if let Some((ca, pl)) = x.basic {
        let mut c = Vec::new();
        if ca {
            c.push(der(0x01, &[0xff]));
        }
        if let Some(p) = pl {
            c.push(der(0x02, &if p >= 0x80 { vec![0, p] } else { vec![p] }));
        }
        exts.push(der_ext(&[0x55, 0x1d, 0x13], true, &der(0x30, &der_cat(&c))));
    }
    if let Some(ku) = x.key_usage {
        exts.push(der_ext(&[0x55, 0x1d, 0x0f], true, &der_key_usage(ku)));
    }
    if let Some(eku) = &x.eku {
        let oids: Vec<Vec<u8>> = eku.iter().map(|e| der(0x06, &[0x2B, 0x06, 0x01, 0x05, 0x05, 0x07, 0x03, match e { 1 => 1, 2 => 2, 3 => 3, 4 => 4, 5 => 8, _ => 9 }])).collect();
        exts.push(der_ext(&[0x55, 0x1d, 0x25], true, &der(0x30, &der_cat(&oids))));
    }
    if let Some(k) = &x.skid {
        exts.push(der_ext(&[0x55, 0x1d, 0x0e], false, &der(0x04, k)));
    }
    if let Some(k) = &x.akid {
        exts.push(der_ext(&[0x55, 0x1d, 0x23], false, &der(0x30, &der(0x80, k))));
    }
    for f in &x.future {
        exts.push(f.clone());
    }
    let mut pk = vec![0u8];
    pk.extend_from_slice(&x.pubkey);
    der(
        0x30,
        &der_cat(&[
            der(0xa0, &der(0x02, &[2])),
            der(0x02, &x.serial),
            der(0x30, &der(0x06, &[0x2A, 0x86, 0x48, 0xCE, 0x3D, 0x04, 0x03, 0x02])),
            der_name(&x.issuer),
            der(0x30, &der_cat(&[der_time(x.not_before, false), der_time(x.not_after, true)])),
            der_name(&x.subject),
            der(0x30, &der_cat(&[der(0x30, &der_cat(&[der(0x06, &[0x2A, 0x86, 0x48, 0xCE, 0x3D, 0x02, 0x01]), der(0x06, &[0x2A, 0x86, 0x48, 0xCE, 0x3D, 0x03, 0x01, 0x07])])), der(0x03, &pk)])),
            der(0xa3, &der(0x30, &der_cat(&exts))),
        ]),
    )
}

fn xspec_catalog(tier: Tier) -> Vec<(String, XSpec, bool)> {
    // (label, spec, may_be_refused): the last flag marks inputs no issuer would produce, for which an
    // error is as good as the exact conversion
    let b = xspec_base();
    let mut v: Vec<(String, XSpec, bool)> = vec![("base".into(), b.clone(), false)];
    for n in [1usize, 2, 8, 19, 20] {
        for first in [0x00u8, 0x01, 0x7f, 0x80, 0xff] {
            let mut x = b.clone();
            x.serial = (0..n).map(|i| if i == 0 { first } else { 0xA0 + i as u8 }).collect();
            v.push((format!("serial-{}-bytes-first-{:02x}", n, first), x, false));
        }
    }
    // validity: epoch, every calendar boundary, the UTCTime / GeneralizedTime switch at 2050, the last value
    let y2050 = 1_577_923_200u32; // 2050-01-01T00:00:00Z in Matter-epoch seconds
    let mut times = vec![0u32, 1, 59, 60, 3599, 3600, 86_399, 86_400, 5_097_599, 5_097_600, 5_184_000, 31_622_399, 31_622_400, y2050 - 1, y2050, y2050 + 1, 0x7fff_ffff, 0x8000_0000, 0xffff_fffe, 0xffff_ffff];
    // the last second of February and the first of March, 2000 (leap, divisible by 400) .. 2104
    for year in [2000i64, 2001, 2004, 2023, 2024, 2049, 2050, 2096, 2100, 2104] {
        let mut days = 0i64;
        for y in 2000..year {
            days += if (y % 4 == 0 && y % 100 != 0) || y % 400 == 0 { 366 } else { 365 };
        }
        let leap = (year % 4 == 0 && year % 100 != 0) || year % 400 == 0;
        let mar1 = days + 31 + if leap { 29 } else { 28 };
        for t in [mar1 * 86_400 - 1, mar1 * 86_400, (days + 365 + leap as i64) * 86_400 - 1] {
            if (0..=u32::MAX as i64).contains(&t) {
                times.push(t as u32);
            }
        }
    }
    if tier == Tier::Thorough {
        // the first second of every month from 2000 to 2136
        let mut days = 0i64;
        for year in 2000..2136i64 {
            let leap = (year % 4 == 0 && year % 100 != 0) || year % 400 == 0;
            for m in [31, if leap { 29 } else { 28 }, 31, 30, 31, 30, 31, 31, 30, 31, 30, 31] {
                let t = days * 86_400;
                if t <= u32::MAX as i64 {
                    times.push(t as u32);
                }
                days += m;
            }
        }
    }
    times.sort();
    times.dedup();
    for &t in &times {
        let mut x = b.clone();
        x.not_before = t;
        v.push((format!("not-before-{}", t), x, false));
        let mut x = b.clone();
        x.not_after = t;
        v.push((format!("not-after-{}", t), x, false));
    }
    // names: every attribute kind, as integer (Matter ids) or string (standard attributes), both string types
    for tag in 1..=22u8 {
        for which in 0..2 {
            let vals: Vec<DnVal> = if tag >= 17 {
                [0u64, 1, 0xffff_ffff, 0x1_0000_0000, u64::MAX].iter().map(|i| DnVal::Int(if tag == 22 { *i & 0xffff_ffff } else { *i })).collect()
            } else {
                vec![DnVal::Utf8("".into()), DnVal::Utf8("A".into()), DnVal::Utf8("Zürich é".into()), DnVal::Printable("Test CA 01".into()), DnVal::Utf8("x".repeat(64)), DnVal::Printable("y".repeat(127))]
            };
            for (i, val) in vals.into_iter().enumerate() {
                let mut x = b.clone();
                let list = if which == 0 { &mut x.subject } else { &mut x.issuer };
                list.insert(0, (tag, val));
                v.push((format!("{}-attribute-{}-value-{}", if which == 0 { "subject" } else { "issuer" }, tag, i), x, false));
            }
        }
    }
    for n in [0usize, 1, 3, 5] {
        let mut x = b.clone();
        x.subject = (0..n).map(|i| (22u8, DnVal::Int(0x0001_0001 + i as u64))).collect();
        x.subject.push((17, DnVal::Int(7)));
        v.push((format!("subject-with-{}-cats", n), x, false));
    }
    {
        let mut x = b.clone();
        x.subject.clear();
        x.issuer.clear();
        v.push(("empty-names".into(), x, true));
    }
    // extensions
    for ku in 0..512u16 {
        let mut x = b.clone();
        x.key_usage = Some(ku);
        v.push((format!("key-usage-{:#05x}", ku), x, ku == 0));
    }
    for ku in [0x0200u16, 0x8000, 0xffff] {
        let mut x = b.clone();
        x.key_usage = Some(ku);
        v.push((format!("key-usage-{:#06x}", ku), x, true));
    }
    for ca in [false, true] {
        for pl in [None, Some(0u8), Some(1), Some(127), Some(128), Some(255)] {
            let mut x = b.clone();
            x.basic = Some((ca, pl));
            v.push((format!("basic-constraints-ca-{}-path-{:?}", ca, pl), x, pl.map(|p| p >= 128).unwrap_or(false)));
        }
    }
    for mask in 0..64u8 {
        let mut x = b.clone();
        x.eku = Some((1..=6u8).filter(|i| mask & (1 << (i - 1)) != 0).collect());
        v.push((format!("extended-key-usage-set-{:#04x}", mask), x, mask == 0));
    }
    for order in [vec![2u8, 1], vec![1, 2], vec![6, 5, 4, 3, 2, 1], vec![1, 1]] {
        let mut x = b.clone();
        x.eku = Some(order.clone());
        v.push((format!("extended-key-usage-order-{:?}", order), x, false));
    }
    for n in [0usize, 1, 19, 20, 21, 32] {
        let mut x = b.clone();
        x.skid = Some((0..n as u8).collect());
        v.push((format!("subject-key-id-{}-bytes", n), x, n != 20));
        let mut x = b.clone();
        x.akid = Some((0..n as u8).collect());
        v.push((format!("authority-key-id-{}-bytes", n), x, n != 20));
    }
    // absent optional extensions, and extension order as issued
    for drop in 0..5 {
        let mut x = b.clone();
        match drop {
            0 => x.basic = None,
            1 => x.key_usage = None,
            2 => x.eku = None,
            3 => x.skid = None,
            _ => x.akid = None,
        }
        v.push((format!("extension-{}-absent", drop), x, false));
    }
    let fut = |oid_last: u8, critical: bool, val: &[u8]| der_ext(&[0x55, 0x1d, oid_last], critical, val);
    for (i, blobs) in [vec![fut(0x63, false, &[])], vec![fut(0x63, false, &[5, 0]), fut(0x64, false, &[4, 1, 0xAA])], vec![der_cat(&[fut(0x63, false, &[]), fut(0x64, false, &[])])], vec![fut(0x63, false, &[0x5a; 130])], vec![fut(0x63, false, &[0x5a; 300])]]
        .into_iter()
        .enumerate()
    {
        let mut x = b.clone();
        x.future = blobs;
        v.push((format!("future-extensions-{}", i), x, false));
    }
    {
        let mut x = b.clone();
        x.pubkey = vec![4; 65];
        x.pubkey[64] = 0;
        v.push(("public-key-ending-in-zero".into(), x, false));
        let mut x = b.clone();
        x.pubkey = vec![];
        v.push(("public-key-empty".into(), x, true));
    }
    v
}

fn part_cert_conversion(tier: Tier) -> Acc {
    use rs_matter::cert::CertRef;
    use rs_matter::tlv::TLVElement;
    let mut acc = Acc::default();
    let convert = |tlv: &[u8], cap: usize| -> Result<Result<Vec<u8>, String>, common::Panic> {
        common::catch(|| {
            let mut out = vec![0u8; cap];
            CertRef::new(TLVElement::new(tlv)).as_asn1(&mut out).map(|n| out[..n.min(cap)].to_vec()).map_err(|e| format!("{:?}", e.code()))
        })
    };
    let cat = xspec_catalog(tier);
    let mut valid: Vec<Vec<u8>> = Vec::new();
    for (label, x, may_refuse) in &cat {
        let tlv = xspec_tlv(x);
        let want = xspec_der(x);
        acc.round_trips += 1;
        let replay = json!({"format": "certificate-conversion", "label": label, "hex": hex(&tlv)});
        match convert(&tlv, 2048) {
            Err(p) => acc.v("certificate-conversion", &format!("panic:{}", p.class()), format!("{}: {}", label, p), replay),
            Ok(Err(e)) => {
                acc.outcomes.insert(format!("cert:refused:{}", e));
                if !*may_refuse {
                    acc.v("certificate-conversion", "well-formed-certificate-not-converted", format!("{}: {}", label, e), replay);
                }
            }
            Ok(Ok(got)) => {
                acc.outcomes.insert("cert:converted".into());
                if got != want {
                    let pos = got.iter().zip(want.iter()).position(|(a, b)| a != b).unwrap_or(got.len().min(want.len()));
                    let class: String = label.chars().filter(|c| !c.is_ascii_digit()).collect::<String>().replace("(", "-").replace(")", "").trim_end_matches('-').to_string();
                    acc.v("certificate-conversion", &format!("x509-form-differs:{}", class), format!("{}: {} bytes produced, {} expected, first difference at offset {}: produced ..{} expected ..{}", label, got.len(), want.len(), pos, hex(&got[pos.saturating_sub(4)..(pos + 12).min(got.len())]), hex(&want[pos.saturating_sub(4)..(pos + 12).min(want.len())])), replay);
                } else if valid.len() < 6 && (label == "base" || label.starts_with("future-extensions-1") || label.starts_with("subject-attribute-7-value-3") || label.starts_with("subject-with-3")) {
                    valid.push(tlv.clone());
                }
            }
        }
    }
    // every output capacity from 0 to the exact length: an error, never a panic or a short result
    if let Some(tlv) = valid.first() {
        let full = convert(tlv, 2048).ok().and_then(|r| r.ok()).unwrap_or_default();
        for cap in 0..=full.len() + 16 {
            acc.hostile += 1;
            match convert(tlv, cap) {
                Err(p) => acc.v("certificate-conversion", &format!("panic:{}", p.class()), format!("output capacity {}: {}", cap, p), json!({"format": "certificate-conversion", "hex": hex(tlv), "capacity": cap})),
                Ok(Ok(got)) => {
                    acc.hostile_ok += 1;
                    if got != full {
                        acc.v("certificate-conversion", "short-buffer-yields-a-different-result", format!("capacity {} -> {} bytes, expected an error or the {} byte result", cap, got.len(), full.len()), json!({"format": "certificate-conversion", "hex": hex(tlv), "capacity": cap}));
                    }
                }
                // (the writer reserves three length octets per open container, so a buffer of exactly the
                // result's size is refused: conservative, and not something the property speaks about)
                Ok(Err(_)) => acc.hostile_err += 1,
            }
        }
    }
    // hostile input: short strings and every truncation / extension / per-byte substitution of valid certificates
    let mut inputs = short_strings(if tier == Tier::Quick { 4 } else { 5 });
    for vtlv in &valid {
        inputs.extend(mutations(vtlv));
    }
    for inp in inputs {
        acc.hostile += 1;
        match convert(&inp, 2048) {
            Err(p) => acc.v("certificate-conversion", &format!("panic:{}", p.class()), p.to_string(), bytes_replay("certificate-conversion", &inp)),
            Ok(Ok(got)) => {
                acc.hostile_ok += 1;
                // whatever was produced must be one DER SEQUENCE whose length covers the output exactly
                let ok = got.len() >= 2 && got[0] == 0x30 && match got[1] {
                    n if n < 0x80 => got.len() == 2 + n as usize,
                    0x81 => got.len() >= 3 && got.len() == 3 + got[2] as usize,
                    0x82 => got.len() >= 4 && got.len() == 4 + ((got[2] as usize) << 8 | got[3] as usize),
                    _ => false,
                };
                if !ok {
                    acc.v("certificate-conversion", "output-is-not-one-der-sequence", format!("{} bytes starting {}", got.len(), hex(&got[..got.len().min(6)])), bytes_replay("certificate-conversion", &inp));
                }
            }
            Ok(Err(_)) => acc.hostile_err += 1,
        }
    }
    acc
}

// ------------------------------------------------------------------------------------ mDNS

fn part_mdns() -> Acc {
    let mut acc = Acc::default();
    let mut valid: Vec<Vec<u8>> = Vec::new();
    let dets: Vec<&'static rs_matter::dm::clusters::basic_info::BasicInfoConfig<'static>> = vec![
        Box::leak(Box::new(rs_matter::dm::clusters::basic_info::BasicInfoConfig { ..TEST_DEV_DET })),
        Box::leak(Box::new(rs_matter::dm::clusters::basic_info::BasicInfoConfig { vid: 0xffff, pid: 0, device_name: "A device with a rather long, 64 character, name: 0123456789abcdef", pairing_instruction: "press=the;button", device_type: Some(0xffff), sai: Some(3_600_000), sii: Some(0), tcp_supported: true, ..TEST_DEV_DET })),
        Box::leak(Box::new(rs_matter::dm::clusters::basic_info::BasicInfoConfig { vid: 1, pid: 0xffff, device_name: "é=ü", device_type: Some(0), sai: Some(1), sii: Some(u32::MAX), ..TEST_DEV_DET })),
    ];
    let v6a = [std::net::Ipv6Addr::new(0xfe80, 0, 0, 0, 1, 2, 3, 4)];
    let v6b = [std::net::Ipv6Addr::new(0xfe80, 0, 0, 0, 1, 2, 3, 4), std::net::Ipv6Addr::new(0x2001, 0xdb8, 0, 0, 0, 0, 0, 1), std::net::Ipv6Addr::UNSPECIFIED];
    let hosts = [Host { hostname: "0011223344556677", ip: std::net::Ipv4Addr::new(192, 168, 1, 20), ipv6: &v6a }, Host { hostname: "h", ip: std::net::Ipv4Addr::UNSPECIFIED, ipv6: &v6b }, Host { hostname: "only-v4-host-name", ip: std::net::Ipv4Addr::new(10, 0, 0, 1), ipv6: &[] }];
    let mut services = Vec::new();
    for (cf, node) in [(0u64, 0u64), (1, 2), (u64::MAX, u64::MAX), (0x0123_4567_89ab_cdef, 0xfedc_ba98_7654_3210)] {
        services.push(MatterLocalService::Commissioned { compressed_fabric_id: cf, node_id: node });
    }
    for id in [0u64, 0xdead_beef, u64::MAX] {
        for disc in [0u16, 0xf00, 0xfff] {
            for enhanced in [false, true] {
                services.push(MatterLocalService::Commissionable { id, discriminator: disc, enhanced });
            }
        }
    }
    for det in &dets {
        for port in [5540u16, 1, 0xffff] {
            let matter: &'static Matter<'static> = Box::leak(Box::new(Matter::new(det, TEST_DEV_COMM, &TEST_DEV_ATT, port)));
            for svc in &services {
                for host in &hosts {
                    let mut sbuf = vec![0u8; 1024];
                    let (local, _) = match svc.service(matter, &mut sbuf) {
                        Ok(x) => x,
                        Err(e) => {
                            acc.v("mdns", "service-description-failed", format!("{:?}: {:?}", svc, e.code()), json!({"format": "mdns"}));
                            continue;
                        }
                    };
                    let mut pkt = vec![0u8; 1500];
                    acc.round_trips += 1;
                    let len = match host.broadcast(&local, &mut pkt, 120, 4500) {
                        Ok(l) => l,
                        Err(e) => {
                            acc.v("mdns", "encode-failed", format!("{:?} on {:?}: {:?}", svc, host.hostname, e.code()), json!({"format": "mdns"}));
                            continue;
                        }
                    };
                    let pkt = pkt[..len].to_vec();
                    let want_txt: Vec<(String, String)> = local.txt_kvs.clone().map(|(k, v)| (k.to_string(), v.to_string())).collect();
                    let mut want_addrs: Vec<std::net::IpAddr> = Vec::new();
                    if !host.ip.is_unspecified() {
                        want_addrs.push(std::net::IpAddr::V4(host.ip));
                    }
                    for a in host.ipv6 {
                        if !a.is_unspecified() {
                            want_addrs.push(std::net::IpAddr::V6(*a));
                        }
                    }
                    let want_name = format!("{}.{}.local", local.name, local.service_protocol).to_ascii_lowercase();
                    match parse_into_answer(&pkt, Some(7)) {
                        Ok(Some(r)) => {
                            let name = format!("{}", r.instance_name).trim_end_matches('.').to_ascii_lowercase();
                            let txt: Vec<(String, String)> = r.txt.map(|(k, v)| (k.to_string(), v.to_string())).collect();
                            let mut addrs: Vec<std::net::IpAddr> = r.addrs.collect();
                            let mut wa = want_addrs.clone();
                            addrs.sort();
                            wa.sort();
                            if name != want_name || r.port != Some(port) || txt != want_txt || addrs != wa || r.scope_id != 7 {
                                acc.v("mdns", "round-trip-mismatch", format!("published {:?} port {} txt {:?} addrs {:?}; resolved {:?} port {:?} txt {:?} addrs {:?} scope {}", want_name, port, want_txt, wa, name, r.port, txt, addrs, r.scope_id), bytes_replay("mdns", &pkt));
                            }
                        }
                        other => acc.v("mdns", "own-announcement-not-resolved", format!("{:?} -> {:?}", svc, other.map(|o| o.is_some()).map_err(|e| e.code())), bytes_replay("mdns", &pkt)),
                    }
                    if valid.len() < 6 {
                        valid.push(pkt);
                    }
                }
            }
        }
    }
    // queries are built and are not taken for answers
    for name in ["_matterc._udp.local", "_matter._tcp.local", "0011223344556677-0000000000000001._matter._tcp.local"] {
        for resolve in [false, true] {
            let mut b = vec![0u8; 512];
            let n: domain::base::Name<heapless::Vec<u8, 128>> = match domain::base::Name::from_chars(name.chars()) {
                Ok(n) => n,
                Err(_) => {
                    acc.v("mdns", "harness-name", name.to_string(), json!({"format": "mdns"}));
                    continue;
                }
            };
            let r = if resolve { build_resolve_query(&n, &mut b) } else { build_browse_query(&n, &mut b) };
            acc.round_trips += 1;
            match r {
                Ok(len) => {
                    match parse_into_answer(&b[..len], None) {
                        Ok(None) => {}
                        other => acc.v("mdns", "query-taken-for-an-answer", format!("{:?}", other.map(|o| o.is_some()).map_err(|e| e.code())), bytes_replay("mdns", &b[..len])),
                    }
                    valid.push(b[..len].to_vec());
                }
                Err(e) => acc.v("mdns", "query-build-failed", format!("{}: {:?}", name, e.code()), json!({"format": "mdns"})),
            }
        }
    }
    // hostile packets against the answer parser and the responder
    let mut inputs = short_strings(4);
    for v in &valid {
        let m = mutations(v);
        inputs.extend(m);
        // compression pointers pointing at themselves / forward / beyond the packet
        for i in 12..v.len().min(80) {
            for p in [[0xc0u8, i as u8], [0xc0, 0x0c], [0xff, 0xff], [0xc0, 0xff]] {
                let mut t = v.clone();
                t[i] = p[0];
                if i + 1 < t.len() {
                    t[i + 1] = p[1];
                }
                inputs.push(t);
            }
        }
    }
    let det = dets[0];
    let matter: &'static Matter<'static> = Box::leak(Box::new(Matter::new(det, TEST_DEV_COMM, &TEST_DEV_ATT, 5540)));
    let svc = MatterLocalService::Commissionable { id: 0xdead_beef, discriminator: 0xf00, enhanced: false };
    let results: Vec<(Vec<u8>, Result<(bool, bool), common::Panic>)> = inputs
        .into_iter()
        .map(|inp| {
            let r = common::catch(|| {
                let a = match parse_into_answer(&inp, Some(1)) {
                    Ok(Some(r)) => {
                        // walk everything the view offers
                        let _ = format!("{}", r.instance_name);
                        let n: usize = r.addrs.count() + r.txt.map(|(k, v)| k.len() + v.len()).sum::<usize>();
                        let _ = n;
                        true
                    }
                    _ => false,
                };
                let mut sbuf = vec![0u8; 1024];
                let (local, _) = svc.service(matter, &mut sbuf).unwrap();
                let mut out = vec![0u8; 1500];
                let b = hosts[0].respond(&local, &inp, &mut out, 120, false).is_ok() | hosts[0].respond(&local, &inp, &mut out, 120, true).is_ok();
                (a, b)
            });
            (inp, r)
        })
        .collect();
    for (inp, r) in results {
        acc.hostile += 1;
        match r {
            Err(p) => acc.v("mdns", &format!("panic:{}", p.class()), p.to_string(), bytes_replay("mdns", &inp)),
            Ok((a, _)) => {
                if a {
                    acc.hostile_ok += 1;
                } else {
                    acc.hostile_err += 1;
                }
            }
        }
    }
    acc
}

// ------------------------------------------------------------------------------------ driver

fn replay(ctx: &Ctx, path: &std::path::Path) -> i32 {
    let doc: Value = serde_json::from_str(&std::fs::read_to_string(path).expect("replay file")).expect("json");
    let r = &doc["replay"];
    std::env::set_var("MC_SHOW_PANICS", "1");
    let fmt = r["format"].as_str().unwrap_or("");
    println!("format {}: the replay re-runs the whole part this input belongs to and reports the classes it raises", fmt);
    if let Some(h) = r["hex"].as_str() {
        let b = unhex(h);
        println!("input ({} bytes): {}", b.len(), h);
        match fmt {
            "plain-header" => println!("decode: {:?}", plain_decode(&b).map(|(h, n)| (plain_fields(&h), n))),
            "protocol-header" => println!("decode: {:?}", proto_decode(&b).map(|(h, n)| (proto_fields(&h), n))),
            _ => {}
        }
    }
    if let Some(t) = r["text"].as_str() {
        println!("input text: {:?}", t);
        match fmt {
            "base38" => println!("decode: {:?}  reference: {:?}", b38_decode(t).map(|b| hex(&b)), b38_ref(t).map(|b| hex(&b))),
            "manual-code" => println!("parse: {:?}", QrPayload::parse_pairing_code(t).map(|p| (p.passcode(), p.short_discriminator(), p.vid_pid())).map_err(|e| e.code())),
            _ => {}
        }
    }
    let acc = match fmt {
        "plain-header" => part_plain(),
        "protocol-header" => part_proto(),
        "status-report" => part_status(),
        "check-in" => part_checkin(),
        "base38" => part_base38(Tier::Quick),
        "manual-code" => part_manual(Tier::Quick),
        "qr" => part_qr(Tier::Quick),
        "ble-advertisement" => part_adv(),
        "mdns" => part_mdns(),
        "certificate-conversion" => part_cert_conversion(Tier::Quick),
        _ => part_bdx(),
    };
    let want = doc["signature"].as_str().unwrap_or("");
    let mut report = Report::new();
    for (sig, v) in acc.report.violations {
        if sig == want {
            println!("  {} {}", sig, v.what);
            report.violation(sig, v.what, v.replay);
        }
    }
    common::finish(ctx, report, Evidence::new("exploration"))
}

pub fn run_check(ctx: &Ctx) -> i32 {
    if let Some(p) = &ctx.replay {
        return replay(ctx, p);
    }
    let tier = ctx.tier;
    let parts: Vec<(&str, Box<dyn Fn() -> Acc + Send + Sync>)> = vec![
        ("plain-header", Box::new(part_plain)),
        ("protocol-header", Box::new(part_proto)),
        ("status-report", Box::new(part_status)),
        ("bdx", Box::new(part_bdx)),
        ("check-in", Box::new(part_checkin)),
        ("base38", Box::new(move || part_base38(tier))),
        ("manual-code", Box::new(move || part_manual(tier))),
        ("qr", Box::new(move || part_qr(tier))),
        ("ble-advertisement", Box::new(part_adv)),
        ("mdns", Box::new(part_mdns)),
        ("certificate-conversion", Box::new(move || part_cert_conversion(tier))),
    ];
    let results: Vec<(&str, Result<Acc, common::Panic>, f64)> = parts
        .par_iter()
        .map(|(name, f)| {
            let t = std::time::Instant::now();
            let r = common::catch(|| f());
            (*name, r, t.elapsed().as_secs_f64())
        })
        .collect();
    let mut total = Acc::default();
    let mut per = serde_json::Map::new();
    for (name, r, secs) in results {
        match r {
            Err(p) => {
                eprintln!("MACHINERY: part {} panicked outside a guarded call: {}", name, p);
                return 2;
            }
            Ok(a) => {
                per.insert(name.to_string(), json!({"round_trips": a.round_trips, "hostile_inputs": a.hostile, "hostile_accepted": a.hostile_ok, "hostile_refused": a.hostile_err, "refusals_checked": a.refusals_checked, "seconds": (secs * 10.0).round() / 10.0}));
                total.merge(a);
            }
        }
    }
    let mut ev = Evidence::new("exploration");
    ev.set("evaluations", json!(total.round_trips + total.hostile + total.refusals_checked))
        .set("distinct_nontrivial", json!(total.outcomes.len() as u64 + 2))
        .set("rule", json!("round trip: decode(encode(fields)) == fields for every combination of boundary field values of each format; hostile: every decoder returns a value or an error on every byte string up to a small length and on every truncation / extension / per-byte substitution of valid encodings, and a returned value re-encodes to the input; refusal: every single-digit substitution / adjacent transposition / out-of-range digit group of manual pairing codes, every invalid character and out-of-range chunk of base-38 text, every altered bit of a check-in message"))
        .set("samples", json!([{"format": "plain-header", "hex": "04341200010000000100000000000000"}, {"format": "manual-code", "text": "34970112332"}, {"format": "base38", "text": "ZZZZZ"}]))
        .set("per_format", Value::Object(per))
        .set("round_trips", json!(total.round_trips))
        .set("hostile_inputs", json!(total.hostile))
        .set("refusals_checked", json!(total.refusals_checked))
        .set("exhaustive_within_bound", json!(true));
    ev.assume("covered formats: message header, protocol header, status report, the five BDX message layouts, check-in message, base-38, QR payload, manual pairing code, BLE advertisement, mDNS announcement / query / answer, the Matter -> X.509 certificate conversion (against an independent DER writer in the harness; the repo has no X.509 -> Matter direction for operational certificates); the certification declaration decoder is not covered");
    ev.assume("field values outside the boundary alphabets behave like their neighbours in the alphabet");
    if total.report.violations.is_empty() && (total.round_trips < 1000 || total.hostile_err == 0 || total.hostile_ok == 0) {
        eprintln!("MACHINERY: vacuous C17 run");
        return 2;
    }
    common::finish(ctx, total.report, ev)
}
