//! C20, rendezvous clause: the single-occupancy mDNS rendezvous slots (operational resolve,
//! commissionable browse) are released when their waiter is cancelled or times out.
//!
//! Explicit-state BFS over operation histories on a real `Matter` (no network needed): two browse
//! requesters with different filters (`Transport::browse_commissionable`), one resolve requester
//! (`Exchange::initiate` towards a node without a session), the responder side of both slots
//! (`wait_mdns_*_request`, `try_deposit_mdns_*` with matching and non-matching answers), polling
//! and dropping (= cancelling) every requester at every point, and the clock passing the
//! time-outs. In every visited state, on fresh copies: (a) all waiters cancelled, (b) all waiters
//! left to time out - afterwards a new browse and a new resolve must be picked up by the responder
//! and be served; and a requester is only ever handed a node that matches *its* filter.

use core::future::Future;
use core::num::NonZeroU8;
use core::pin::Pin;
use core::task::{Context, Poll, Waker};
use std::net::{IpAddr, Ipv4Addr};

use serde_json::{json, Value};

use rs_matter::error::Error;
use rs_matter::transport::exchange::Exchange;
use rs_matter::transport::network::mdns::{CommissionableFilter, DottedName, MdnsRemoteService};
use rs_matter::transport::network::Address;
use rs_matter::Matter;

use crate::common::e2;
use crate::common::nodes;
use crate::common::rng::SeededRng;
use crate::common::sim::Owned;
use crate::common::{vclock, Report, Tier};

const START_US: u64 = 91_000_000_000;
const PEER_NODE: u64 = 0x77;

#[derive(Clone, Copy, Debug, PartialEq, Eq, Hash)]
enum Act {
    StartB(u8),
    PollB(u8),
    DropB(u8),
    TakeB,
    /// deposit a commissionable node matching filter 0 / 1
    DepB(u8),
    StartR,
    PollR,
    DropR,
    TakeR,
    /// deposit the operational node asked for / another one
    DepR(bool),
    /// 6 s pass (both time-outs are 5 s)
    Tick,
}

const ACTS: [Act; 15] = [Act::StartB(0), Act::StartB(1), Act::PollB(0), Act::PollB(1), Act::DropB(0), Act::DropB(1), Act::TakeB, Act::DepB(0), Act::DepB(1), Act::StartR, Act::PollR, Act::DropR, Act::TakeR, Act::DepR(true), Act::Tick];

type BrowseFut = Pin<Box<dyn Future<Output = Result<(Address, u64), Error>>>>;
type ResolveFut = Pin<Box<dyn Future<Output = Result<(), Error>>>>;

fn filter(k: u8) -> CommissionableFilter {
    CommissionableFilter { discriminator: Some(if k == 0 { 0xA5A } else { 0x123 }), ..Default::default() }
}

fn poll<F: Future + ?Sized>(f: &mut Pin<Box<F>>) -> Poll<F::Output> {
    let mut cx = Context::from_waker(Waker::noop());
    f.as_mut().poll(&mut cx)
}

struct Sys {
    m: Owned<Matter<'static>>,
    browse: [Option<BrowseFut>; 2],
    /// result of a finished browse requester: Ok(instance id) / Err
    browse_done: [Option<Result<u64, String>>; 2],
    resolve: Option<ResolveFut>,
    /// the resolve requester got past the rendezvous (its future went on to the handshake) or failed
    resolve_done: Option<Result<(), String>>,
    /// the resolve requester has consumed an answer (it goes on with the handshake, which the harness does not serve)
    fault: Option<(String, String)>,
    ticks: u8,
    /// the operations applied so far (the state key looks one step ahead on fresh copies)
    hist: Vec<Act>,
}

impl Sys {
    fn new() -> Self {
        vclock::reset(START_US);
        let m = Owned::from_box(nodes::new_matter());
        nodes::add_fabric(m.get());
        Sys { m, browse: [None, None], browse_done: [None, None], resolve: None, resolve_done: None, fault: None, ticks: 0, hist: Vec::new() }
    }

    fn matter(&self) -> &'static Matter<'static> {
        self.m.get()
    }

    fn poll_b(&mut self, k: usize) -> bool {
        let Some(f) = self.browse[k].as_mut() else { return false };
        if let Poll::Ready(r) = poll(f) {
            self.browse[k] = None;
            let r = r.map(|(_, id)| id).map_err(|e| format!("{:?}", e.code()));
            if let Ok(id) = &r {
                let want = if k == 0 { 0xA0 } else { 0xB0 };
                if *id & 0xF0 != want {
                    self.fault = Some(("C20:rendezvous:browse-handed-a-node-that-does-not-match-its-filter".into(), format!("requester {} (discriminator {:#x}) was handed instance {:#x}", k, filter(k as u8).discriminator.unwrap(), id)));
                }
            }
            self.browse_done[k] = Some(r);
        }
        true
    }

    fn poll_r(&mut self) -> bool {
        let Some(f) = self.resolve.as_mut() else { return false };
        if let Poll::Ready(r) = poll(f) {
            self.resolve = None;
            self.resolve_done = Some(r.map_err(|e| format!("{:?}", e.code())));
        }
        true
    }

    fn apply(&mut self, a: Act) -> bool {
        self.hist.push(a);
        let m = self.matter();
        match a {
            Act::StartB(k) => {
                let k = k as usize;
                if self.browse[k].is_some() || self.browse_done[k].is_some() {
                    return false;
                }
                let f: BrowseFut = Box::pin(async move {
                    let flt = filter(k as u8);
                    m.transport().browse_commissionable(&flt, &[], 5_000).await
                });
                self.browse[k] = Some(f);
                self.poll_b(k)
            }
            Act::PollB(k) => self.poll_b(k as usize),
            Act::DropB(k) => self.browse[k as usize].take().is_some(),
            Act::TakeB => {
                let mut f = Box::pin(m.transport().wait_mdns_browse_request());
                matches!(poll(&mut f), Poll::Ready(_))
            }
            Act::DepB(k) => {
                let (name, d) = if k == 0 { ("00000000000000A1._matterc._udp.local", "2650") } else { ("00000000000000B1._matterc._udp.local", "291") };
                let answer = MdnsRemoteService { instance_name: DottedName(name), port: Some(5540), addrs: [IpAddr::V4(Ipv4Addr::new(10, 0, 0, 7 + k))].into_iter(), txt: [("D", d), ("CM", "1")].into_iter(), scope_id: 0 };
                let before = m.transport().mdns_browse_in_flight();
                m.transport().try_deposit_mdns_browse(&answer);
                before
            }
            Act::StartR => {
                if self.resolve.is_some() || self.resolve_done.is_some() {
                    return false;
                }
                let f: ResolveFut = Box::pin(async move {
                    let c = nodes::crypto(SeededRng::new(9));
                    Exchange::initiate(m, &c, NonZeroU8::new(1).unwrap(), PEER_NODE).await.map(|_| ())
                });
                self.resolve = Some(f);
                self.poll_r()
            }
            Act::PollR => self.poll_r(),
            Act::DropR => self.resolve.take().is_some(),
            Act::TakeR => {
                let mut f = Box::pin(m.transport().wait_mdns_resolve_request());
                matches!(poll(&mut f), Poll::Ready(_))
            }
            Act::DepR(right) => {
                let cfid = m.with_state(|s| s.fabrics.fabric(NonZeroU8::new(1).unwrap()).map(|f| f.compressed_fabric_id()).unwrap_or(0));
                let name = format!("{:016X}-{:016X}._matter._tcp.local", cfid, if right { PEER_NODE } else { PEER_NODE + 1 });
                let answer = MdnsRemoteService { instance_name: DottedName(&name), port: Some(5540), addrs: [IpAddr::V4(Ipv4Addr::new(10, 0, 0, 9))].into_iter(), txt: [("SII", "500")].into_iter(), scope_id: 0 };
                let before = m.transport().mdns_resolve_in_flight();
                m.transport().try_deposit_mdns_resolve(&answer, &[]);
                before
            }
            Act::Tick => {
                if self.ticks >= 2 {
                    return false;
                }
                self.ticks += 1;
                vclock::advance_by_ms(6_000);
                // timers fire: every live waiter is polled
                self.poll_b(0);
                self.poll_b(1);
                self.poll_r();
                true
            }
        }
    }

    /// Every slot must be usable again: a new browse and a new resolve are picked up and served.
    fn probe(&mut self, how: &str) -> Option<(String, String)> {
        let m = self.matter();
        // ---- browse
        let mut f: BrowseFut = Box::pin(async move {
            let flt = filter(0);
            m.transport().browse_commissionable(&flt, &[], 5_000).await
        });
        if let Poll::Ready(r) = poll(&mut f) {
            return Some((format!("C20:rendezvous:new-browse-ends-at-once:{}", how), format!("{:?}", r.map(|x| x.1).map_err(|e| e.code()))));
        }
        let mut take = Box::pin(m.transport().wait_mdns_browse_request());
        match poll(&mut take) {
            Poll::Ready(flt) if flt == filter(0) => {}
            Poll::Ready(flt) => return Some((format!("C20:rendezvous:responder-handed-a-stale-browse-request:{}", how), format!("{:?}", flt))),
            Poll::Pending => return Some((format!("C20:rendezvous:browse-slot-not-released:{}", how), "a new browse request is not handed to the responder: the slot is still occupied".into())),
        }
        drop(take);
        let answer = MdnsRemoteService { instance_name: DottedName("00000000000000A2._matterc._udp.local"), port: Some(5540), addrs: [IpAddr::V4(Ipv4Addr::new(10, 0, 0, 7))].into_iter(), txt: [("D", "2650"), ("CM", "1")].into_iter(), scope_id: 0 };
        m.transport().try_deposit_mdns_browse(&answer);
        match poll(&mut f) {
            Poll::Ready(Ok((_, 0xA2))) => {}
            Poll::Ready(r) => return Some((format!("C20:rendezvous:new-browse-not-served-correctly:{}", how), format!("{:?}", r.map(|x| x.1).map_err(|e| e.code())))),
            Poll::Pending => return Some((format!("C20:rendezvous:new-browse-not-served:{}", how), "the matching answer was deposited, the requester is still waiting".into())),
        }
        // ---- resolve
        let mut r: ResolveFut = Box::pin(async move {
            let c = nodes::crypto(SeededRng::new(10));
            Exchange::initiate(m, &c, NonZeroU8::new(1).unwrap(), PEER_NODE + 2).await.map(|_| ())
        });
        if let Poll::Ready(x) = poll(&mut r) {
            return Some((format!("C20:rendezvous:new-resolve-ends-at-once:{}", how), format!("{:?}", x.map_err(|e| e.code()))));
        }
        let mut take = Box::pin(m.transport().wait_mdns_resolve_request());
        match poll(&mut take) {
            Poll::Ready(_) => {}
            Poll::Pending => return Some((format!("C20:rendezvous:resolve-slot-not-released:{}", how), "a new resolve request is not handed to the responder: the slot is still occupied".into())),
        }
        drop(take);
        if !m.transport().mdns_resolve_in_flight() {
            return Some((format!("C20:rendezvous:resolve-not-in-flight-after-pickup:{}", how), String::new()));
        }
        drop(r);
        if m.transport().mdns_resolve_in_flight() {
            return Some((format!("C20:rendezvous:resolve-slot-not-released-by-cancellation:{}", how), "the requester was dropped, the responder still sees a resolve in flight".into()));
        }
        None
    }

    fn obs(&self) -> Obs {
        let t = self.matter().transport();
        (t.mdns_browse_in_flight(), t.mdns_resolve_in_flight(), [self.browse[0].is_some() as u8, self.browse[1].is_some() as u8], self.resolve.is_some() as u8, self.ticks, self.browse_done.to_vec(), self.resolve_done.clone())
    }

    /// The slots' states are not observable from outside (idle / requested / answered look alike):
    /// two histories are merged only if they agree on what is observable now *and* after every
    /// single further operation (applied to fresh copies).
    fn key(&self) -> (Obs, Vec<(bool, Obs)>) {
        let mut ahead = Vec::new();
        let hist = self.hist.clone();
        let saved = vclock::now();
        for a in ACTS.iter().copied().chain([Act::DepR(false)]) {
            let mut c = build(&hist);
            let ch = c.apply(a);
            ahead.push((ch, c.obs()));
        }
        // (the copies moved the thread's virtual clock: put it back where this state is)
        vclock::reset(START_US);
        vclock::advance_to(saved);
        (self.obs(), ahead)
    }
}

type Obs = (bool, bool, [u8; 2], u8, u8, Vec<Option<Result<u64, String>>>, Option<Result<(), String>>);

fn build(h: &[Act]) -> Sys {
    let mut s = Sys::new();
    for a in h {
        s.apply(*a);
    }
    s
}

pub struct Stats {
    pub states: u64,
    pub transitions: u64,
    pub probes: u64,
    pub served: u64,
    pub timed_out: u64,
}

fn act_from(s: &str) -> Option<Act> {
    ACTS.iter().copied().chain([Act::DepR(false)]).find(|a| format!("{:?}", a) == s)
}

pub fn replay(r: &Value, report: &mut Report) -> Result<(), String> {
    let hist: Vec<Act> = r["rendezvous"].as_array().ok_or("bad replay")?.iter().filter_map(|a| a.as_str().and_then(act_from)).collect();
    let mut s = Sys::new();
    for a in &hist {
        let ch = s.apply(*a);
        println!("{:?} -> changed={} browse-in-flight={} resolve-in-flight={} done={:?}/{:?}", a, ch, s.matter().transport().mdns_browse_in_flight(), s.matter().transport().mdns_resolve_in_flight(), s.browse_done, s.resolve_done);
    }
    if let Some((sig, what)) = s.fault.clone() {
        report.violation(sig, what, r.clone());
    }
    for how in ["cancelled", "timed-out"] {
        let mut c = build(&hist);
        quiesce(&mut c, how == "cancelled");
        if let Some((sig, what)) = c.probe(how) {
            println!("  {} {}", sig, what);
            report.violation(sig, what, r.clone());
        }
    }
    Ok(())
}

fn quiesce(c: &mut Sys, cancel: bool) {
    if cancel {
        c.browse = [None, None];
        c.resolve = None;
    } else {
        // the waiters are left alone until their time-outs have passed
        c.ticks = 0;
        c.apply(Act::Tick);
        c.ticks = 0;
        c.apply(Act::Tick);
        // (a resolve requester that was served went on to a handshake nobody answers: it is dropped now)
        c.resolve = None;
        c.browse = [None, None];
    }
}

pub fn explore(tier: Tier, report: &mut Report) -> Stats {
    let depth = if tier == Tier::Quick { 6 } else { 8 };
    let probes = std::cell::Cell::new(0u64);
    let served = std::cell::Cell::new(0u64);
    let timed_out = std::cell::Cell::new(0u64);
    let rep = std::cell::RefCell::new(report);
    let mut acts: Vec<Act> = ACTS.to_vec();
    acts.push(Act::DepR(false));
    let st = e2::bfs(
        vec![vec![]],
        depth,
        |h: &[Act]| build(h),
        |_| acts.clone(),
        |s, a, hist| {
            let changed = s.apply(*a);
            let mut h: Vec<String> = hist.iter().map(|x| format!("{:?}", x)).collect();
            h.push(format!("{:?}", a));
            if let Some((sig, what)) = s.fault.clone() {
                rep.borrow_mut().violation(sig, format!("history {:?}: {}", h, what), json!({"rendezvous": h}));
                return false;
            }
            if !changed {
                return false;
            }
            served.set(served.get() + s.browse_done.iter().filter(|d| matches!(d, Some(Ok(_)))).count() as u64);
            timed_out.set(timed_out.get() + s.browse_done.iter().filter(|d| matches!(d, Some(Err(_)))).count() as u64);
            let mut h2 = hist.to_vec();
            h2.push(*a);
            for how in ["cancelled", "timed-out"] {
                let mut c = build(&h2);
                quiesce(&mut c, how == "cancelled");
                probes.set(probes.get() + 1);
                if let Some((sig, what)) = c.probe(how) {
                    rep.borrow_mut().violation(sig, format!("history {:?}: {}", h, what), json!({"rendezvous": h}));
                    return false;
                }
            }
            true
        },
        |s| s.key(),
    );
    Stats { states: st.states, transitions: st.transitions, probes: probes.get(), served: served.get(), timed_out: timed_out.get() }
}
