//! C20 — unfinished or hostile handshakes cannot leak or exhaust node resources for good.
//!
//! One real device R (`SecureChannel` responder, commissioning window open, one fabric) and up
//! to six real initiator nodes (each its own `Matter`, address and operational certificate) over
//! the adversarial network and virtual clock. Enumerated exhaustively within the bounds:
//! every sequence of up to k attempts over the alphabet {CASE, PASE} x {complete, initiator
//! vanishes after its n-th handshake message, n-th message garbled, wrong passcode}, each attempt
//! started after the previous one or concurrently with it; the device's responder future
//! cancelled (dropped and restarted) after every number of polls up to a bound; and table
//! exhaustion (more completed handshakes than session slots). After traffic stops and a horizon
//! that covers every handshake / exchange time-out, the oracle inspects R's tables and then
//! requires a fresh legitimate handshake to succeed.

use std::cell::RefCell;
use std::future::Future;
use std::pin::Pin;
use std::rc::Rc;
use std::task::{Context, Poll};

use embassy_futures::select::select;
use rayon::prelude::*;
use serde_json::{json, Value};

use rs_matter::cert::gen::VALID_FOREVER;
use rs_matter::dm::clusters::time_sync::{GranularityEnum, TimeSourceEnum};
use rs_matter::error::Error;
use rs_matter::respond::Responder;
use rs_matter::sc::case::CaseInitiator;
use rs_matter::sc::SecureChannel;
use rs_matter::transport::exchange::Exchange;
use rs_matter::transport::network::NoNetwork;
use rs_matter::transport::session::SessionMode;
use rs_matter::Matter;

use super::c01::sc_opcode;
use crate::common::creds::{self, FabricMaterial, NodeCreds};
use crate::common::nodes;
use crate::common::rng::SeededRng;
use crate::common::sim::{addr_of, Exec, Net, Owned};
use crate::common::wire::{parse_plain, top_fields};
use crate::common::{self, vclock, Ctx, Evidence, Report, Tier};

const START_US: u64 = 11_000_000_000;
const R_NODE: u64 = 0x2222;
const PASSCODE: u32 = 20202021;
const T0_S: u64 = 820_454_400;

#[derive(Clone, Copy, Debug, PartialEq, Eq, Hash)]
enum Kind {
    CaseOk,
    /// initiator vanishes after its n-th handshake message (1 = Sigma1, 2 = Sigma3)
    CaseStop(u8),
    /// n-th handshake message of the initiator is garbled on the wire
    CaseGarbage(u8),
    PaseOk,
    /// 1 = PBKDFParamRequest, 2 = Pake1, 3 = Pake3
    PaseStop(u8),
    PaseGarbage(u8),
    PaseWrongPasscode,
    /// a peer opens a secure-channel exchange with a message that asks for no acknowledgement
    /// (1 = PBKDFParamRequest, 2 = Sigma1 opcode) and is never heard of again
    StrayUnreliable(u8),
}

impl Kind {
    fn is_case(&self) -> bool {
        matches!(self, Kind::CaseOk | Kind::CaseStop(_) | Kind::CaseGarbage(_))
    }
    /// the device's side of the handshake completes (it has verified the initiator's last message)
    fn completes(&self) -> bool {
        matches!(self, Kind::CaseOk | Kind::PaseOk | Kind::CaseStop(2) | Kind::PaseStop(3))
    }
}

#[derive(Clone, Debug)]
struct RunSpec {
    attempts: Vec<(Kind, bool)>, // (kind, started concurrently with the previous one)
    /// drop and restart the device's responder future after this many polls (0 = never)
    cancel_responder_after: usize,
    seed: u64,
}

struct CancelAfter<F> {
    inner: Pin<Box<F>>,
    left: usize,
}

impl<F: Future> Future for CancelAfter<F> {
    type Output = Option<F::Output>;
    fn poll(mut self: Pin<&mut Self>, cx: &mut Context<'_>) -> Poll<Self::Output> {
        if self.left == 0 {
            return Poll::Ready(None);
        }
        self.left -= 1;
        match self.inner.as_mut().poll(cx) {
            Poll::Ready(v) => Poll::Ready(Some(v)),
            Poll::Pending => {
                if self.left == 0 {
                    // cancelled: resolve at once (the inner future is dropped with us)
                    cx.waker().wake_by_ref();
                }
                Poll::Pending
            }
        }
    }
}

#[derive(Default)]
struct Obs {
    results: Vec<Option<Result<(), String>>>,
    probe: Option<Result<(), String>>,
    probe_pase: Option<Result<(), String>>,
}

struct World {
    exec: Exec,
    net: Net,
    obs: Rc<RefCell<Obs>>,
    nodes: Vec<Owned<Matter<'static>>>,
    r: Owned<Matter<'static>>,
    fab: FabricMaterial,
    creds: Vec<NodeCreds>,
    tasks: Vec<Option<usize>>,
}

fn set_clock(m: &Matter<'_>) {
    m.with_rtc(|rtc| {
        rtc.set_utc_time(T0_S * 1_000_000, GranularityEnum::MicrosecondsGranularity, TimeSourceEnum::Admin, &());
    });
}

const MAX_INITIATORS: usize = 24;

thread_local! {
    static RETRIES: std::cell::Cell<u64> = const { std::cell::Cell::new(0) };
}

thread_local! {
    /// credentials are expensive to mint and identical for every run
    static MATERIAL: RefCell<Option<(FabricMaterial, NodeCreds, Vec<NodeCreds>)>> = const { RefCell::new(None) };
}

fn material() -> (FabricMaterial, NodeCreds, Vec<NodeCreds>) {
    MATERIAL.with(|m| {
        if m.borrow().is_none() {
            let c = nodes::crypto(SeededRng::new(777));
            let fab = creds::mint_fabric(&c, 1, false, VALID_FOREVER, 0xA1).unwrap();
            let r = creds::mint_noc(&c, &fab, R_NODE, &[], VALID_FOREVER, None).unwrap();
            let is: Vec<NodeCreds> = (0..MAX_INITIATORS).map(|k| creds::mint_noc(&c, &fab, 0x1000 + k as u64, &[], VALID_FOREVER, None).unwrap()).collect();
            *m.borrow_mut() = Some((fab, r, is));
        }
        m.borrow().clone().unwrap()
    })
}

/// network index of initiator k (R is node 1)
fn net_idx(k: usize) -> usize {
    if k == 0 {
        0
    } else {
        k + 1
    }
}

fn build(spec: &RunSpec) -> Result<World, String> {
    vclock::reset(START_US);
    let (fab, rc, is) = material();
    let n = spec.attempts.len() + 2; // + CASE probe + PASE probe
    let net = Net::new(n + 2);
    let r = Owned::from_box(nodes::new_matter());
    let mr = r.get();
    set_clock(mr);
    let c = nodes::crypto(SeededRng::new(spec.seed + 1));
    creds::install(mr, &c, &fab, &rc, 0x1000).map_err(|e| format!("install R: {:?}", e))?;
    mr.open_basic_comm_window(600, &c, &()).map_err(|e| format!("window: {:?}", e))?;
    let obs = Rc::new(RefCell::new(Obs::default()));
    let mut exec = Exec::new();
    {
        let (send, recv) = (net.end(1), net.end(1));
        let seed = spec.seed;
        let cancel = spec.cancel_responder_after;
        exec.spawn("R", async move {
            let c = nodes::crypto(SeededRng::new(seed + 20));
            let sc = SecureChannel::new(&c, &());
            let responder = Responder::new("R", sc, mr, 0);
            let responders = async {
                if cancel > 0 {
                    // the responder future is dropped at an arbitrary poll and started again
                    let _ = CancelAfter { inner: Box::pin(responder.run::<3>()), left: cancel }.await;
                }
                let _ = responder.run::<3>().await;
            };
            let _ = select(mr.run(&c, send, recv, NoNetwork), responders).await;
        });
    }
    let mut nodes_v = Vec::new();
    for k in 0..n {
        let m = Owned::from_box(nodes::new_matter());
        set_clock(m.get());
        creds::install(m.get(), &c, &fab, &is[k], 0x1000).map_err(|e| format!("install I{}: {:?}", k, e))?;
        nodes_v.push(m);
    }
    obs.borrow_mut().results = vec![None; spec.attempts.len()];
    Ok(World { exec, net, obs, nodes: nodes_v, r, fab, creds: is, tasks: vec![None; n] })
}

fn start_attempt(w: &mut World, k: usize, kind: Option<Kind>, seed: u64) {
    let m = w.nodes[k].get();
    let idx = net_idx(k);
    let (send, recv) = (w.net.end(idx), w.net.end(idx));
    let obs = w.obs.clone();
    let case = kind.map(|x| x.is_case()).unwrap_or(k == w.tasks.len() - 2);
    let passcode = if kind == Some(Kind::PaseWrongPasscode) { PASSCODE - 1 } else { PASSCODE };
    let t = w.exec.spawn("I", async move {
        let c = nodes::crypto(SeededRng::new(seed + 100 + k as u64));
        let client = async {
            // a legitimate initiator that is told "busy" retries after the indicated delay
            let retries = if kind.map(|k| k.completes()).unwrap_or(true) { 3 } else { 0 };
            let mut r: Result<(), Error> = Ok(());
            for attempt in 0..=retries {
                if attempt > 0 {
                    embassy_time::Timer::after(embassy_time::Duration::from_millis(1000)).await;
                    RETRIES.with(|x| x.set(x.get() + 1));
                }
                r = async {
                    if case {
                        let exchange = Exchange::initiate_plaintext(m, &c, addr_of(1)).await?;
                        CaseInitiator::perform(exchange, &c, core::num::NonZeroU8::new(1).unwrap(), R_NODE).await
                    } else {
                        Exchange::initiate_pase(m, &c, addr_of(1), passcode).await.map(|_| ())
                    }
                }
                .await;
                if r.is_ok() {
                    break;
                }
            }
            let res = r.map_err(|e| format!("{:?}", e.code()));
            match kind {
                Some(_) => obs.borrow_mut().results[k] = Some(res),
                None if case => obs.borrow_mut().probe = Some(res),
                None => obs.borrow_mut().probe_pase = Some(res),
            }
            core::future::pending::<()>().await
        };
        let _ = select(m.run(&c, send, recv, NoNetwork), client).await;
    });
    w.tasks[k] = Some(t);
}

#[derive(Default, Debug, Clone)]
struct Summary {
    results: Vec<Option<Result<(), String>>>,
    probe: Option<Result<(), String>>,
    probe_pase: Option<Result<(), String>>,
    window_open_at_horizon: bool,
    r_sessions: Vec<(String, bool, bool, usize)>, // (mode, reserved, expired, live exchange slots)
    pase_marker: bool,
    busy_seen: usize,
    datagrams: usize,
    storm: bool,
    evicted_with_live_exchange: bool,
}

fn r_sessions(m: &Matter<'_>) -> Vec<(String, bool, bool, usize, u32)> {
    m.with_state(|state| {
        state
            .verif_sessions()
            .iter()
            .map(|s| {
                let mode = match s.get_session_mode() {
                    SessionMode::Case { .. } => "case",
                    SessionMode::Pase { .. } => "pase",
                    SessionMode::Group { .. } => "group",
                    SessionMode::PlainText => "plain",
                };
                let (res, exp, _) = s.verif_flags();
                (mode.to_string(), res, exp, s.verif_exchanges().filter(|e| e.is_some()).count(), s.id())
            })
            .collect()
    })
}

fn handshake_msg_index(op: u8) -> Option<(bool, u8)> {
    // (is_case, index of the initiator's n-th handshake message)
    match op {
        0x30 => Some((true, 1)),
        0x32 => Some((true, 2)),
        0x20 => Some((false, 1)),
        0x22 => Some((false, 2)),
        0x24 => Some((false, 3)),
        _ => None,
    }
}

fn run(spec: &RunSpec) -> Result<Summary, String> {
    let mut w = build(spec)?;
    w.exec.run()?;
    let n = spec.attempts.len();
    let mut started = 0usize;
    let mut garbled = vec![false; n];
    let mut vanished = vec![false; n];
    let mut out = Summary::default();
    let mut probe_started = false;
    let mut pase_probe_started = false;
    let mut quiet: Option<u64> = None;
    let mut last_r: Vec<(String, bool, bool, usize, u32)> = Vec::new();
    loop {
        let now = vclock::now();
        if now > START_US + 3_000_000_000 {
            break;
        }
        if w.net.0.borrow().log.len() > 6000 {
            out.storm = true;
            break;
        }
        // start the next attempt?
        if started < n {
            let (kind, concurrent) = spec.attempts[started];
            let prev_done = started == 0 || w.obs.borrow().results[started - 1].is_some() || vanished[started - 1];
            let prev_started_2ms_ago = started == 0 || concurrent;
            if (concurrent && prev_started_2ms_ago) || (!concurrent && prev_done && w.net.inflight_len() == 0) {
                if let Kind::StrayUnreliable(which) = kind {
                    let idx = net_idx(started);
                    let bytes = crate::common::wire::craft_plain(0x5000 + started as u64, 0x0100_0000 + started as u32, 0x01, if which == 1 { 0x20 } else { 0x30 }, 0x6000 + started as u16, 0, &[0x15, 0x18]);
                    vclock::advance_by_ms(1);
                    w.net.inject(idx, 1, bytes);
                    let last = w.net.inflight_len() - 1;
                    w.net.deliver(last, false);
                    // (whatever the device answers goes to a peer that is gone)
                    vanished[started] = true;
                    started += 1;
                    w.exec.run()?;
                    continue;
                }
                start_attempt(&mut w, started, Some(kind), spec.seed);
                started += 1;
                w.exec.run()?;
                continue;
            }
        }
        let all_settled = started == n && (0..n).all(|k| w.obs.borrow().results[k].is_some() || vanished[k]);
        if all_settled && w.net.inflight_len() == 0 {
            let q = *quiet.get_or_insert(now);
            if !probe_started && now >= q + 200_000_000 {
                // horizon reached: take the table snapshot, then probe
                out.r_sessions = r_sessions(w.r.get()).into_iter().map(|(m, a, b, c, _)| (m, a, b, c)).collect();
                out.pase_marker = w.r.get().with_state(|s| s.verif_pase().verif_state().3);
                out.window_open_at_horizon = w.r.get().comm_window_state().is_open();
                start_attempt(&mut w, n, None, spec.seed);
                probe_started = true;
                w.exec.run()?;
                continue;
            }
            if probe_started && w.obs.borrow().probe.is_some() && !pase_probe_started {
                // the second probe (PASE) starts once the first one (CASE) is over
                start_attempt(&mut w, n + 1, None, spec.seed);
                pase_probe_started = true;
                w.exec.run()?;
                continue;
            }
            if pase_probe_started && w.obs.borrow().probe_pase.is_some() {
                break;
            }
        } else if !all_settled {
            quiet = None;
        }
        if w.net.inflight_len() > 0 {
            vclock::advance_by_ms(1);
            let d = w.net.0.borrow().inflight[0].clone();
            let mut drop_it = false;
            // which attempt does this datagram belong to?
            let k = if d.from == 1 { if d.to == 0 { 0 } else { d.to - 1 } } else if d.from == 0 { 0 } else { d.from - 1 };
            if k < n {
                if vanished[k] {
                    drop_it = true;
                } else if d.from != 1 {
                    if let Some((op, pay)) = sc_opcode(&d.bytes) {
                        if let Some((_, idx)) = handshake_msg_index(op) {
                            match spec.attempts[k].0 {
                                Kind::CaseStop(s) | Kind::PaseStop(s) if idx == s => {
                                    // deliver this one, then the initiator is gone for good
                                    w.net.deliver(0, false);
                                    if let Some(t) = w.tasks[k] {
                                        w.exec.cancel(t);
                                    }
                                    vanished[k] = true;
                                    w.exec.run()?;
                                    continue;
                                }
                                Kind::CaseGarbage(s) | Kind::PaseGarbage(s) if idx == s && !garbled[k] => {
                                    garbled[k] = true;
                                    // flip a bit inside the first field of the message
                                    let f = top_fields(&d.bytes[pay..]);
                                    if let Some(f0) = f.first() {
                                        let off = pay + f0.3;
                                        if off < d.bytes.len() {
                                            w.net.0.borrow_mut().inflight[0].bytes[off] ^= 0x55;
                                        }
                                    }
                                }
                                _ => {}
                            }
                        }
                    }
                }
            }
            if d.from == 1 {
                if let Some((0x40, pay)) = sc_opcode(&d.bytes) {
                    // general code 2 = BUSY? (status report: general u16, proto u32, code u16)
                    if d.bytes.get(pay + 6) == Some(&0x04) {
                        out.busy_seen += 1;
                    }
                }
                let _ = parse_plain;
            }
            if drop_it {
                w.net.drop_dgram(0);
            } else {
                w.net.deliver(0, false);
            }
        } else if let Some(t) = vclock::next_deadline() {
            vclock::advance_to(t);
        } else {
            break;
        }
        w.exec.run()?;
        // eviction of a session that carries a live exchange is never allowed
        let cur = r_sessions(w.r.get());
        for old in &last_r {
            if old.3 > 0 && !old.1 && !cur.iter().any(|c| c.4 == old.4) && old.0 != "plain" {
                // the session disappeared while an exchange was live on it; legitimate only when its
                // handshake/exchange ended in the same step - checked by the exchange count being the
                // handshake's own. Secure sessions with foreign live exchanges must not vanish.
                out.evicted_with_live_exchange = true;
            }
        }
        last_r = cur;
    }
    let obs = w.obs.borrow();
    out.results = obs.results.clone();
    out.probe = obs.probe.clone();
    out.probe_pase = obs.probe_pase.clone();
    out.datagrams = w.net.0.borrow().log.len();
    let _ = (&w.fab, &w.creds);
    Ok(out)
}

fn judge(spec: &RunSpec, s: &Summary) -> Vec<(String, String)> {
    let mut v = Vec::new();
    let shape = format!("{}-attempts", spec.attempts.len());
    if s.storm {
        v.push((format!("C20:datagram-storm:{}", shape), format!("{} datagrams", s.datagrams)));
        return v;
    }
    for (mode, reserved, _expired, exchanges) in &s.r_sessions {
        if *reserved {
            v.push((format!("C20:reserved-session-slot-never-released:{}", mode), format!("after the horizon the device still holds a reserved {} session slot; table {:?}", mode, s.r_sessions)));
        }
        if *exchanges > 0 {
            v.push((format!("C20:exchange-slot-never-released:{}", mode), format!("after the horizon a {} session still has {} exchange slot(s) in use; table {:?}", mode, exchanges, s.r_sessions)));
        }
    }
    // (the in-progress marker is cleared lazily by the next attempt: what counts is that a new
    // legitimate PASE handshake is served while the window is open)
    if s.window_open_at_horizon && !matches!(s.probe_pase, Some(Ok(()))) {
        v.push((format!("C20:legitimate-pase-handshake-refused-after-traffic-stopped:{}", shape), format!("the PASE probe ended with {:?} although the window is open; in-progress marker set: {}; table {:?}", s.probe_pase, s.pase_marker, s.r_sessions)));
    }
    let established = s.r_sessions.iter().filter(|x| (x.0 == "case" || x.0 == "pase") && !x.1).count();
    let completed = spec.attempts.iter().filter(|a| a.0.completes()).count();
    if established > completed {
        v.push(("C20:more-secure-sessions-than-completed-handshakes".into(), format!("{} secure sessions, {} completed handshakes; table {:?}", established, completed, s.r_sessions)));
    }
    match &s.probe {
        Some(Ok(())) => {}
        other => v.push((format!("C20:legitimate-handshake-refused-after-traffic-stopped:{}", shape), format!("the probe handshake ended with {:?}; device table before the probe {:?}", other, s.r_sessions))),
    }
    if s.evicted_with_live_exchange {
        v.push(("C20:session-with-live-exchange-evicted".into(), format!("table {:?}", s.r_sessions)));
    }
    v
}


// ------------------------------------------------------------------------------------------
// Full table + a session that is marked expired while it still serves an exchange + a new
// handshake: the handshake must be served by evicting an idle session, never the one in use.

const HOLD_PROTO: u16 = 0x7777;

struct HoldHandler;

impl rs_matter::respond::ExchangeHandler for HoldHandler {
    async fn handle(&self, mut exchange: Exchange<'_>) -> Result<(), Error> {
        let tag = {
            let rx = exchange.recv().await?;
            rx.payload().first().copied().unwrap_or(0)
        };
        embassy_time::Timer::after(embassy_time::Duration::from_secs(8)).await;
        exchange.send(rs_matter::transport::exchange::MessageMeta::new(HOLD_PROTO, 2, true), &[tag, 0xEE]).await
    }
}

#[derive(Clone, Copy, Debug, PartialEq, Eq)]
struct InUseSpec {
    /// the session in use is a PASE session (expired the way CommissioningComplete does it) rather
    /// than a CASE session (expired the way RemoveFabric over that very session does it)
    pase_in_use: bool,
    /// the new handshake is PASE rather than CASE
    pase_handshake: bool,
    /// idle filler sessions besides the one in use (15 = table full)
    fillers: usize,
    /// the fillers were used more recently than the session in use
    fillers_fresher: bool,
}

fn in_use_json(s: &InUseSpec) -> Value {
    json!({"expired_in_use": {"pase_in_use": s.pase_in_use, "pase_handshake": s.pase_handshake, "fillers": s.fillers, "fillers_fresher": s.fillers_fresher}})
}

fn run_expired_in_use(spec: &InUseSpec, seed: u64) -> Result<Vec<(String, String)>, String> {
    use crate::common::nodes::SessKind;
    vclock::reset(START_US);
    let (fab, rc, is) = material();
    let net = Net::new(24);
    let r = Owned::from_box(nodes::new_matter());
    let mr = r.get();
    set_clock(mr);
    let c = nodes::crypto(SeededRng::new(seed + 1));
    creds::install(mr, &c, &fab, &rc, 0x1000).map_err(|e| format!("install R: {:?}", e))?;
    mr.open_basic_comm_window(600, &c, &()).map_err(|e| format!("window: {:?}", e))?;
    // client A (network node 0) with the session in use; initiator B (network node 2) for the new handshake
    let a = Owned::from_box(nodes::new_matter());
    let ma = a.get();
    set_clock(ma);
    creds::install(ma, &c, &fab, &is[0], 0x1000).map_err(|e| format!("install A: {:?}", e))?;
    let b = Owned::from_box(nodes::new_matter());
    let mb = b.get();
    set_clock(mb);
    creds::install(mb, &c, &fab, &is[1], 0x1000).map_err(|e| format!("install B: {:?}", e))?;
    let (k1, k2) = (nodes::key(0x11), nodes::key(0x22));
    let kind = if spec.pase_in_use { SessKind::Pase } else { SessKind::Case };
    // the session in use is installed first: its unique id at R is 0
    nodes::install_session(ma, SeededRng::new(101), kind, 0x1000, R_NODE, 1, 2, addr_of(1), &k2, &k1).map_err(|e| format!("{:?}", e.code()))?;
    nodes::install_session(mr, SeededRng::new(202), kind, R_NODE, 0x1000, 2, 1, addr_of(0), &k1, &k2).map_err(|e| format!("{:?}", e.code()))?;
    if spec.fillers_fresher {
        vclock::advance_by_ms(5000);
    }
    let filler_kind = if spec.pase_in_use { SessKind::Case } else { SessKind::Pase };
    for i in 0..spec.fillers {
        let (ka, kb) = (nodes::key(0x30 + i as u8), nodes::key(0x50 + i as u8));
        nodes::install_session(mr, SeededRng::new(300 + i as u64), filler_kind, R_NODE, 0x5000 + i as u64, 100 + i as u16, 200 + i as u16, addr_of(4 + i), &ka, &kb).map_err(|e| format!("filler {}: {:?}", i, e.code()))?;
        vclock::advance_by_ms(1);
    }
    let outcome: Rc<RefCell<(Option<String>, Option<Result<(), String>>)>> = Rc::new(RefCell::new((None, None)));
    let mut exec = Exec::new();
    {
        let (send, recv) = (net.end(1), net.end(1));
        exec.spawn("R", async move {
            let c = nodes::crypto(SeededRng::new(seed + 20));
            let sc = SecureChannel::new(&c, &());
            let handler = rs_matter::respond::ChainedExchangeHandler::new(HOLD_PROTO, HoldHandler, sc);
            let responder = Responder::new("R", handler, mr, 0);
            let _ = select(mr.run(&c, send, recv, NoNetwork), responder.run::<3>()).await;
        });
    }
    {
        let (send, recv) = (net.end(0), net.end(0));
        let out = outcome.clone();
        let pase = spec.pase_in_use;
        exec.spawn("A", async move {
            let c = nodes::crypto(SeededRng::new(seed + 30));
            let client = async {
                let r: Result<String, Error> = async {
                    let mut ex = if pase { Exchange::initiate_pase(ma, &c, addr_of(1), PASSCODE).await? } else { Exchange::initiate(ma, &c, core::num::NonZeroU8::new(1).unwrap(), R_NODE).await? };
                    ex.send(rs_matter::transport::exchange::MessageMeta::new(HOLD_PROTO, 1, true), &[7, 1]).await?;
                    let rx = ex.recv().await?;
                    Ok(format!("reply:{}", rx.payload().first().copied().unwrap_or(0)))
                }
                .await;
                out.borrow_mut().0 = Some(r.unwrap_or_else(|e| format!("err:{:?}", e.code())));
                core::future::pending::<()>().await
            };
            let _ = select(ma.run(&c, send, recv, NoNetwork), client).await;
        });
    }
    exec.run()?;
    let in_use = |m: &Matter<'_>| m.with_state(|s| s.verif_sessions().iter().find(|x| x.get_local_sess_id() == 2).map(|x| (x.verif_exchanges().flatten().count(), x.verif_flags().1)));
    let mut v = Vec::new();
    let mut expired_done = false;
    let mut handshake_started = false;
    let mut quiet: Option<u64> = None;
    let mut was_live = false;
    for _ in 0..20000 {
        let now = vclock::now();
        if now > START_US + 400_000_000 {
            break;
        }
        let st = in_use(mr);
        if was_live && st.is_none() && outcome.borrow().0.is_none() {
            v.push(("C20:session-with-live-exchange-evicted:expired-session".to_string(), format!("the session serving a live exchange disappeared from the device's table ({:?})", spec)));
            was_live = false;
        }
        if let Some((n, _)) = st {
            was_live = n > 0;
        }
        if !expired_done && matches!(st, Some((n, _)) if n > 0) && net.inflight_len() == 0 {
            // the device's handler now holds the exchange: the session is marked expired under it
            mr.with_state(|s| {
                if spec.pase_in_use {
                    s.verif_sessions_mut().remove_pase(Some(0));
                } else {
                    s.verif_sessions_mut().remove_for_fabric(core::num::NonZeroU8::new(1).unwrap(), Some(0));
                }
            });
            if !matches!(in_use(mr), Some((n, true)) if n > 0) {
                return Err(format!("harness: the session in use was not marked expired ({:?})", in_use(mr)));
            }
            expired_done = true;
            continue;
        }
        if expired_done && !handshake_started {
            let (send, recv) = (net.end(2), net.end(2));
            let out = outcome.clone();
            let pase = spec.pase_handshake;
            exec.spawn("B", async move {
                let c = nodes::crypto(SeededRng::new(seed + 40));
                let client = async {
                    let mut r: Result<(), Error> = Ok(());
                    for attempt in 0..3 {
                        if attempt > 0 {
                            embassy_time::Timer::after(embassy_time::Duration::from_millis(1000)).await;
                        }
                        r = async {
                            if pase {
                                Exchange::initiate_pase(mb, &c, addr_of(1), PASSCODE).await.map(|_| ())
                            } else {
                                let exchange = Exchange::initiate_plaintext(mb, &c, addr_of(1)).await?;
                                CaseInitiator::perform(exchange, &c, core::num::NonZeroU8::new(1).unwrap(), R_NODE).await
                            }
                        }
                        .await;
                        if r.is_ok() {
                            break;
                        }
                    }
                    out.borrow_mut().1 = Some(r.map_err(|e| format!("{:?}", e.code())));
                    core::future::pending::<()>().await
                };
                let _ = select(mb.run(&c, send, recv, NoNetwork), client).await;
            });
            handshake_started = true;
            exec.run()?;
            continue;
        }
        {
            let o = outcome.borrow();
            if o.0.is_some() && o.1.is_some() && net.inflight_len() == 0 {
                let q = *quiet.get_or_insert(now);
                if now > q + 3_000_000 {
                    break;
                }
            }
        }
        if net.inflight_len() > 0 {
            vclock::advance_by_ms(1);
            net.deliver(0, false);
        } else if let Some(t) = vclock::next_deadline() {
            vclock::advance_to(t);
        } else {
            break;
        }
        exec.run()?;
    }
    let o = outcome.borrow();
    if !expired_done || !handshake_started {
        return Err(format!("harness: scenario did not unfold (expired {}, handshake {})", expired_done, handshake_started));
    }
    if o.0.as_deref() != Some("reply:7") {
        v.push(("C20:exchange-on-expired-session-lost".to_string(), format!("the exchange that was live when its session was marked expired ended with {:?} ({:?})", o.0, spec)));
    }
    // an idle session exists, so the legitimate handshake must be served
    if spec.fillers > 0 && !matches!(o.1, Some(Ok(()))) {
        v.push(("C20:legitimate-handshake-refused-although-an-idle-session-could-be-evicted".to_string(), format!("handshake ended with {:?} ({:?})", o.1, spec)));
    }
    Ok(v)
}

fn in_use_specs() -> Vec<InUseSpec> {
    let mut v = Vec::new();
    for pase_in_use in [false, true] {
        for pase_handshake in [false, true] {
            for fillers in [15usize, 14, 3] {
                for fillers_fresher in [true, false] {
                    v.push(InUseSpec { pase_in_use, pase_handshake, fillers, fillers_fresher });
                }
            }
        }
    }
    v
}

fn spec_json(s: &RunSpec) -> Value {
    json!({"attempts": s.attempts.iter().map(|(k, c)| json!([format!("{:?}", k), c])).collect::<Vec<_>>(), "cancel_responder_after": s.cancel_responder_after, "seed": s.seed})
}

fn kind_from(s: &str) -> Kind {
    let n = s.trim_end_matches(')').split('(').nth(1).and_then(|x| x.parse::<u8>().ok()).unwrap_or(1);
    if s.starts_with("CaseStop") {
        Kind::CaseStop(n)
    } else if s.starts_with("CaseGarbage") {
        Kind::CaseGarbage(n)
    } else if s.starts_with("PaseStop") {
        Kind::PaseStop(n)
    } else if s.starts_with("PaseGarbage") {
        Kind::PaseGarbage(n)
    } else if s.starts_with("StrayUnreliable") {
        Kind::StrayUnreliable(n)
    } else {
        match s {
            "CaseOk" => Kind::CaseOk,
            "PaseOk" => Kind::PaseOk,
            _ => Kind::PaseWrongPasscode,
        }
    }
}

fn replay(ctx: &Ctx, path: &std::path::Path) -> i32 {
    let doc: Value = serde_json::from_str(&std::fs::read_to_string(path).expect("replay file")).expect("json");
    if !doc["replay"]["rendezvous"].is_null() {
        let mut report = Report::new();
        if let Err(e) = super::c20r::replay(&doc["replay"], &mut report) {
            eprintln!("MACHINERY: {}", e);
            return 2;
        }
        return common::finish(ctx, report, Evidence::new("model_checking"));
    }
    if !doc["replay"]["expired_in_use"].is_null() {
        let e = &doc["replay"]["expired_in_use"];
        let sp = InUseSpec { pase_in_use: e["pase_in_use"].as_bool().unwrap(), pase_handshake: e["pase_handshake"].as_bool().unwrap(), fillers: e["fillers"].as_u64().unwrap() as usize, fillers_fresher: e["fillers_fresher"].as_bool().unwrap() };
        std::env::set_var("MC_SHOW_PANICS", "1");
        let mut report = Report::new();
        match run_expired_in_use(&sp, 500 + ctx.seed) {
            Err(e) => {
                eprintln!("MACHINERY: {}", e);
                return 2;
            }
            Ok(v) => {
                for (sig, what) in v {
                    println!("  {} {}", sig, what);
                    report.violation(sig, what, in_use_json(&sp));
                }
            }
        }
        return common::finish(ctx, report, Evidence::new("model_checking"));
    }
    let r = &doc["replay"];
    let spec = RunSpec {
        attempts: r["attempts"].as_array().unwrap().iter().map(|a| (kind_from(a[0].as_str().unwrap()), a[1].as_bool().unwrap())).collect(),
        cancel_responder_after: r["cancel_responder_after"].as_u64().unwrap_or(0) as usize,
        seed: r["seed"].as_u64().unwrap_or(500),
    };
    std::env::set_var("MC_SHOW_PANICS", "1");
    let mut report = Report::new();
    match run(&spec) {
        Err(e) => println!("run: {}", e),
        Ok(s) => {
            println!("{:#?}", s);
            for (sig, what) in judge(&spec, &s) {
                report.violation(sig, what, r.clone());
            }
        }
    }
    common::finish(ctx, report, Evidence::new("model_checking"))
}

pub fn run_check(ctx: &Ctx) -> i32 {
    if let Some(p) = &ctx.replay {
        return replay(ctx, p);
    }
    let quick = ctx.tier == Tier::Quick;
    let seed = 500 + ctx.seed;
    let kinds = [
        Kind::CaseOk,
        Kind::CaseStop(1),
        Kind::CaseStop(2),
        Kind::CaseGarbage(1),
        Kind::CaseGarbage(2),
        Kind::PaseOk,
        Kind::PaseStop(1),
        Kind::PaseStop(2),
        Kind::PaseStop(3),
        Kind::PaseGarbage(1),
        Kind::PaseGarbage(2),
        Kind::PaseGarbage(3),
        Kind::PaseWrongPasscode,
    ];
    let mut specs: Vec<RunSpec> = Vec::new();
    // every sequence of 1 and 2 attempts (sequential / concurrent), quick; 3 attempts thorough
    for a in kinds {
        specs.push(RunSpec { attempts: vec![(a, false)], cancel_responder_after: 0, seed });
        for b in kinds {
            for conc in [false, true] {
                specs.push(RunSpec { attempts: vec![(a, false), (b, conc)], cancel_responder_after: 0, seed });
                if !quick {
                    for c3 in kinds {
                        for conc3 in [false, true] {
                            specs.push(RunSpec { attempts: vec![(a, false), (b, conc), (c3, conc3)], cancel_responder_after: 0, seed });
                        }
                    }
                }
            }
        }
    }
    // responder future cancelled after n polls, during each kind of attempt
    let max_polls = if quick { 16 } else { 40 };
    for a in kinds {
        for polls in 1..=max_polls {
            specs.push(RunSpec { attempts: vec![(a, false), (Kind::CaseOk, false)], cancel_responder_after: polls, seed });
        }
    }
    // table exhaustion: more completed / abandoned handshakes than session slots (16)
    for fill in [Kind::CaseOk, Kind::CaseStop(1), Kind::PaseStop(2)] {
        for count in [15usize, 16, 17, 18] {
            if quick && count != 17 {
                continue;
            }
            let mut attempts = vec![(fill, false); count];
            for a in attempts.iter_mut().skip(1) {
                a.1 = fill != Kind::CaseOk; // abandoned ones pile up concurrently
            }
            specs.push(RunSpec { attempts, cancel_responder_after: 0, seed });
        }
    }
    // every handler of the responder pool (3) busy with a stalled handshake, and then an opener that asks
    // for no acknowledgement: nobody accepts it within the accept deadline, nothing is owed to the peer
    for stall in [[Kind::CaseStop(1), Kind::CaseStop(1), Kind::CaseStop(1)], [Kind::PaseStop(1), Kind::CaseStop(1), Kind::CaseStop(1)], [Kind::PaseStop(2), Kind::CaseStop(1), Kind::CaseStop(1)]] {
        for which in [1u8, 2] {
            for n_stray in [1usize, 3] {
                let mut attempts = vec![(stall[0], false), (stall[1], true), (stall[2], true)];
                for _ in 0..n_stray {
                    // (not concurrent: it arrives once the stalled initiators have vanished and the wire is quiet)
                    attempts.push((Kind::StrayUnreliable(which), false));
                }
                specs.push(RunSpec { attempts, cancel_responder_after: 0, seed });
            }
        }
    }
    let results: Vec<(usize, Result<Result<Summary, String>, common::Panic>)> = specs.par_iter().enumerate().map(|(k, s)| (k, common::catch(|| run(s)))).collect();
    let mut report = Report::new();
    let mut outcomes = std::collections::BTreeSet::new();
    let (mut executed, mut busy, mut probes_ok, mut with_leftover_plain) = (0u64, 0u64, 0u64, 0u64);
    for (k, r) in results {
        let spec = &specs[k];
        match r {
            Err(p) => report.violation(format!("C20:panic:{}", p.class()), format!("{}: {}", spec_json(spec), p), spec_json(spec)),
            Ok(Err(e)) => {
                eprintln!("MACHINERY: {}: {}", spec_json(spec), e);
                return 2;
            }
            Ok(Ok(s)) => {
                executed += 1;
                busy += s.busy_seen as u64;
                if matches!(s.probe, Some(Ok(()))) {
                    probes_ok += 1;
                }
                if s.r_sessions.iter().any(|x| x.0 == "plain") {
                    with_leftover_plain += 1;
                }
                outcomes.insert((s.r_sessions.clone(), s.results.clone(), s.probe.clone()));
                for (sig, what) in judge(spec, &s) {
                    report.violation(sig, format!("{}: {}", spec_json(spec), what), spec_json(spec));
                }
            }
        }
    }
    let in_use = in_use_specs();
    let in_use_results: Vec<Result<Result<Vec<(String, String)>, String>, common::Panic>> = in_use.par_iter().map(|s| common::catch(|| run_expired_in_use(s, seed))).collect();
    for (sp, r) in in_use.iter().zip(in_use_results) {
        match r {
            Err(p) => report.violation(format!("C20:panic:{}", p.class()), format!("{:?}: {}", sp, p), in_use_json(sp)),
            Ok(Err(e)) => {
                eprintln!("MACHINERY: {:?}: {}", sp, e);
                return 2;
            }
            Ok(Ok(v)) => {
                executed += 1;
                for (sig, what) in v {
                    report.violation(sig, what, in_use_json(sp));
                }
            }
        }
    }
    let rz = super::c20r::explore(ctx.tier, &mut report);
    if report.violations.is_empty() && (rz.states < 50 || rz.served == 0 || rz.timed_out == 0) {
        eprintln!("MACHINERY: vacuous rendezvous exploration ({} states, {} served, {} timed out)", rz.states, rz.served, rz.timed_out);
        return 2;
    }
    let mut ev = Evidence::new("model_checking");
    ev.set("rendezvous_slots", json!({"states": rz.states, "transitions": rz.transitions, "liveness_probes": rz.probes, "browse_requesters_served_over_all_histories": rz.served, "browse_requesters_timed_out_over_all_histories": rz.timed_out,
        "rule": format!("BFS depth {} over 16 operations on a real Matter: two commissionable-browse requesters with different filters and one operational-resolve requester (Exchange::initiate towards a node without a session) started / polled / dropped at any point, the responder side picking requests up and depositing matching and non-matching answers, the clock passing the 5 s time-outs; in every state, on fresh copies with all waiters cancelled and with all waiters left to time out, a new browse and a new resolve must be picked up by the responder and served, and a requester is only ever handed a node matching its own filter", if quick { 6 } else { 8 })}));
    ev.set("states", json!(outcomes.len() as u64 + rz.states))
        .set("expired_in_use_scenarios", json!(in_use.len()))
        .set("transitions", json!(executed))
        .set("traces_validated_against_impl", json!(executed))
        .set("exhaustive", json!(true))
        .set("samples", json!([spec_json(&specs[specs.len() / 3]), spec_json(&specs[specs.len() - 1])]))
        .set("vacuity", json!({"runs": executed, "busy_status_reports_seen": busy, "probe_handshakes_succeeded": probes_ok, "runs_with_idle_unsecured_sessions_left": with_leftover_plain, "distinct_end_states": outcomes.len()}))
        .set("rule", json!(format!("every sequence of up to {} attempts over 13 attempt kinds (CASE/PASE complete, initiator vanishing after its n-th message, n-th message garbled, wrong passcode), each later attempt sequential or concurrent; the responder future cancelled and restarted after every number of polls 1..{} during each attempt kind; 15..18 completed or abandoned handshakes against the 16-slot session table; horizon 200 s of quiet virtual time, then a probe handshake; plus 24 scenarios with a (nearly) full table in which a CASE / PASE session is marked expired (RemoveFabric / CommissioningComplete style) while the device's handler holds an exchange on it and a new CASE / PASE handshake then needs a slot", if quick { 2 } else { 3 }, max_polls)));
    ev.assume("an idle unsecured session without exchanges counts as free (it is evictable on demand, which the exhaustion runs exercise)");
    ev.assume("the rendezvous slots are driven through the transport's public requester / responder contract; the built-in mDNS responder's use of them over the network is not part of this check");
    if report.violations.is_empty() && (executed == 0 || probes_ok == 0) {
        eprintln!("MACHINERY: vacuous C20 run");
        return 2;
    }
    common::finish(ctx, report, ev)
}
