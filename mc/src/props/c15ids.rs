//! C15, second clause: locally chosen session identifiers are unique among live sessions and
//! locally chosen exchange identifiers among live exchanges.
//!
//! Bounded exhaustive sweep on the real `Sessions` table of a real `Matter`: for every set of live
//! identifiers of a catalog (single ids, runs, ids on both sides of the 16-bit wrap, a full
//! table) and every position of the allocator's counter around each live id and around the wrap
//! (the counter is moved there by calling the real allocator), identifiers are allocated through
//! the real paths (`Sessions::get_next_sess_id` as the handshakes call it, `Exchange::initiate`),
//! made live, and allocated again until the table is full: never 0, never the id of a live
//! session / of a live locally initiated exchange.

use core::future::Future;
use core::num::NonZeroU8;
use core::pin::pin;
use core::task::{Context, Poll, Waker};

use serde_json::{json, Value};

use rs_matter::transport::exchange::Exchange;
use rs_matter::Matter;

use crate::common::nodes::{self, SessKind, NODE_A};
use crate::common::rng::SeededRng;
use crate::common::sim::{addr_of, Owned};
use crate::common::{vclock, Report};

fn poll_once<F: Future>(f: F) -> Option<F::Output> {
    let mut f = pin!(f);
    let mut cx = Context::from_waker(Waker::noop());
    match f.as_mut().poll(&mut cx) {
        Poll::Ready(v) => Some(v),
        Poll::Pending => None,
    }
}

fn succ(x: u16) -> u16 {
    if x == 0xFFFF {
        1
    } else {
        x + 1
    }
}

fn live_session_ids(m: &Matter<'_>) -> Vec<u16> {
    m.with_state(|s| s.verif_sessions().iter().map(|x| x.get_local_sess_id()).collect())
}

/// ids of live exchanges this node initiated (any session)
fn live_initiated_exchange_ids(m: &Matter<'_>) -> Vec<u16> {
    m.with_state(|s| s.verif_sessions().iter().flat_map(|x| x.verif_exchanges().flatten().filter(|e| e.1).map(|e| e.0).collect::<Vec<_>>()).collect())
}

fn install(m: &Matter<'_>, local: u16, k: usize) -> Result<(), String> {
    nodes::install_session(m, SeededRng::new(500 + k as u64), SessKind::Case, NODE_A, 0x5000 + k as u64, local, 0x100 + k as u16, addr_of(1), &nodes::key(0x50), &nodes::key(0x51)).map_err(|e| format!("harness: cannot install a session with local id {}: {:?}", local, e.code()))
}

fn pred(x: u16) -> u16 {
    if x <= 1 {
        0xFFFF
    } else {
        x - 1
    }
}

/// The allocator's counter can only be left right behind an identifier it handed out: if the
/// identifiers before `want` are live, aim at the first of that run (the allocator will have to
/// skip the run to reach `want`).
fn reachable(want: u16, live: &[u16]) -> u16 {
    let mut t = want;
    for _ in 0..live.len() + 1 {
        if live.contains(&pred(t)) {
            t = pred(t);
        }
    }
    t
}

/// Move the session-id allocator so that its next candidate is `want`.
fn position_sess(m: &Matter<'_>, want: u16) -> Result<(), String> {
    let want = reachable(want, &live_session_ids(m));
    for _ in 0..140_000 {
        let r = m.with_state(|s| s.verif_sessions_mut().get_next_sess_id());
        if succ(r) == want {
            return Ok(());
        }
    }
    Err(format!("harness: the session id allocator cannot be positioned at {}", want))
}

fn position_exch(m: &Matter<'_>, want: u16) -> Result<(), String> {
    let want = reachable(want, &live_initiated_exchange_ids(m));
    let c = nodes::crypto(SeededRng::new(77));
    for _ in 0..140_000 {
        let r = m.with_state(|s| s.verif_sessions_mut().get_next_exch_id(&c)).map_err(|e| format!("{:?}", e.code()))?;
        if succ(r) == want {
            return Ok(());
        }
    }
    Err(format!("harness: the exchange id allocator cannot be positioned at {}", want))
}

fn id_sets() -> Vec<Vec<u16>> {
    vec![
        vec![],
        vec![1],
        vec![0xFFFF],
        vec![1, 2, 3],
        vec![0xFFFE, 0xFFFF, 1, 2],
        vec![0xFFFF, 1],
        vec![0x7FFF, 0x8000, 0x8001],
        vec![100, 102, 104, 106],
        (1..=12).collect(),
        (0xFFF8..=0xFFFF).chain(1..=4).collect(),
    ]
}

fn starts(live: &[u16]) -> Vec<u16> {
    let mut v = vec![1u16, 2, 0xFFFE, 0xFFFF];
    for &l in live {
        v.push(if l == 1 { 0xFFFF } else { l - 1 });
        v.push(l);
        v.push(succ(l));
    }
    v.sort();
    v.dedup();
    v
}

pub struct Stats {
    pub session_allocations: u64,
    pub exchange_allocations: u64,
    pub skips_observed: u64,
    pub wraps_observed: u64,
}

pub fn run(report: &mut Report) -> Result<Stats, String> {
    let mut st = Stats { session_allocations: 0, exchange_allocations: 0, skips_observed: 0, wraps_observed: 0 };
    // ---- session identifiers
    for live in id_sets() {
        for start in starts(&live) {
            vclock::reset(77_000_000_000);
            let mo = Owned::from_box(nodes::new_matter());
            let m = mo.get();
            nodes::add_fabric(m);
            for (k, l) in live.iter().enumerate() {
                install(m, *l, k)?;
            }
            position_sess(m, start)?;
            let mut prev = None;
            // allocate and make live until the table is full
            for round in 0..(16 - live.len()) {
                let before = live_session_ids(m);
                let r = m.with_state(|s| s.verif_sessions_mut().get_next_sess_id());
                st.session_allocations += 1;
                let replay: Value = json!({"ids": "session", "live": live, "start": start, "round": round});
                if r == 0 {
                    report.violation("C15:ids:session-id-zero-allocated".to_string(), format!("live {:?}, allocator positioned at {}, round {}: id 0 (the unsecured session id) was handed out", live, start, round), replay.clone());
                }
                if before.contains(&r) {
                    report.violation("C15:ids:session-id-of-a-live-session-allocated".to_string(), format!("live session ids {:?}, allocator positioned at {}, round {}: {} was handed out", before, start, round, r), replay);
                    break;
                }
                if round == 0 && r != start {
                    st.skips_observed += 1;
                }
                if let Some(p) = prev {
                    if r < p {
                        st.wraps_observed += 1;
                    }
                }
                prev = Some(r);
                install(m, r, 20 + round)?;
            }
        }
    }
    // ---- exchange identifiers
    let c = nodes::crypto(SeededRng::new(78));
    for live in id_sets() {
        if live.len() > 10 {
            continue;
        }
        for start in starts(&live) {
            vclock::reset(77_000_000_000);
            let mo = Owned::from_box(nodes::new_matter());
            let m = mo.get();
            nodes::add_fabric(m);
            // three sessions to three peers: the live exchanges are spread over them
            for k in 0..3usize {
                install(m, 0x10 + k as u16, k)?;
            }
            let mut held: Vec<Exchange<'_>> = Vec::new();
            let mut last: Option<u16> = None;
            for (k, l) in live.iter().enumerate() {
                // (consecutive identifiers follow from the counter itself; the catalog never asks for an
                // identifier right behind a live one that is not its predecessor in the list)
                if last.map(succ) != Some(*l) {
                    position_exch(m, *l)?;
                }
                last = Some(*l);
                let ex = poll_once(Exchange::initiate(m, &c, NonZeroU8::new(1).unwrap(), 0x5000 + (k % 3) as u64)).ok_or("harness: initiate is pending")?.map_err(|e| format!("harness: initiate: {:?}", e.code()))?;
                held.push(ex);
            }
            let have = live_initiated_exchange_ids(m);
            if have.len() != live.len() || live.iter().any(|l| !have.contains(l)) {
                return Err(format!("harness: wanted live exchange ids {:?}, the table has {:?}", live, have));
            }
            position_exch(m, start)?;
            let mut prev = None;
            for round in 0..6 {
                let before = live_initiated_exchange_ids(m);
                let ex = poll_once(Exchange::initiate(m, &c, NonZeroU8::new(1).unwrap(), 0x5000 + (round % 3) as u64)).ok_or("harness: initiate is pending")?;
                let ex = match ex {
                    Ok(e) => e,
                    Err(_) => break, // no free exchange slot on that session
                };
                st.exchange_allocations += 1;
                let after = live_initiated_exchange_ids(m);
                let new: Vec<u16> = after.iter().filter(|x| after.iter().filter(|y| y == x).count() > before.iter().filter(|y| y == x).count()).copied().collect();
                let replay: Value = json!({"ids": "exchange", "live": live, "start": start, "round": round});
                let Some(&r) = new.first() else {
                    return Err(format!("harness: no new exchange in the table after initiate (before {:?} after {:?})", before, after));
                };
                if r == 0 {
                    // (0 is not forbidden for exchange ids by the property; the allocator never uses it)
                }
                if before.contains(&r) {
                    report.violation("C15:ids:exchange-id-of-a-live-exchange-allocated".to_string(), format!("live locally initiated exchange ids {:?}, allocator positioned at {}, round {}: {} was handed out", before, start, round, r), replay);
                    break;
                }
                if round == 0 && r != start {
                    st.skips_observed += 1;
                }
                if let Some(p) = prev {
                    if r < p {
                        st.wraps_observed += 1;
                    }
                }
                prev = Some(r);
                held.push(ex);
            }
            drop(held);
        }
    }
    Ok(st)
}
