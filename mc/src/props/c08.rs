//! C08 — commissioning under the fail-safe is all-or-nothing.
//!
//! E2 (explicit-state BFS over operation histories, states rebuilt by re-execution): a real
//! device running the real root-endpoint data model over a recording key-value store, and an
//! administrator that issues raw Interaction Model commands over a PASE session and over CASE
//! sessions of the fabrics that exist. Alphabet: ArmFailSafe (60 s / 0 s) over PASE and over
//! CASE, CSRRequest (for AddNOC / for UpdateNOC), AddTrustedRootCertificate, AddNOC, UpdateNOC,
//! an access-control write and a fabric-label update under the fail-safe, CommissioningComplete
//! (right and wrong session), RevokeCommissioning, fail-safe expiry by the clock, a restart, and
//! "the next store operation fails". Explored from a factory-fresh node and from a node that
//! already has one commissioned fabric. Oracle: a reference state machine for what each
//! credential command may be answered, and all-or-nothing: whenever the fail-safe is not armed
//! the node's fabrics / ACLs / labels / group keys and the persisted fabric and network blobs
//! equal the last committed configuration, and a restart always comes up with exactly that.

use core::num::NonZeroU8;
use std::cell::RefCell;
use std::collections::BTreeMap;
use std::rc::Rc;

use embassy_futures::select::select;
use serde_json::{json, Value};

use rs_matter::transport::exchange::Exchange;
use rs_matter::transport::network::NoNetwork;
use rs_matter::transport::session::SessionMode;
use rs_matter::Matter;

use crate::common::certw::{self, KeyPair};
use crate::common::commdrv::{self, Device};
use crate::common::imdrv::{self, Answer, Item};
use crate::common::kv::RecKv;
use crate::common::nodes::{self, SessKind};
use crate::common::rng::SeededRng;
use crate::common::sim::{addr_of, Exec, Net, Owned};
use crate::common::{self, digest, vclock, Ctx, Evidence, Report, Tier};

pub static C11_OPS_WITH_STORES: std::sync::atomic::AtomicU64 = std::sync::atomic::AtomicU64::new(0);
pub static C11_INTERMEDIATE_POINTS: std::sync::atomic::AtomicU64 = std::sync::atomic::AtomicU64::new(0);
const NODE_ADMIN: u64 = 0xAD01;
const NODE_DEV: u64 = 0xDE01;
const PASSCODE: u32 = 20202021;
const START_US: u64 = 31_000_000_000;
const NOW_S: u64 = 1_000_000_000;

#[derive(Clone, Copy, Debug, PartialEq, Eq, Hash, PartialOrd, Ord)]
pub enum Op {
    /// ArmFailSafe(60) over the PASE session / over the CASE session of fabric n
    ArmP,
    ArmC(u8),
    /// ArmFailSafe(0): forced expiry
    Arm0P,
    Arm0C(u8),
    CsrP,
    /// CSRRequest(isForUpdateNOC) over CASE of fabric n
    CsrUpdC(u8),
    RootP,
    AddNocP,
    UpdNocC(u8),
    /// replace the ACL of fabric n (over its CASE session) by admin + one more entry
    AclC(u8),
    LabelC(u8),
    /// SetVIDVerificationStatement (vendor id) on fabric n over its CASE session
    VidStmtC(u8),
    CompleteC(u8),
    CompleteP,
    /// open a basic commissioning window over CASE of fabric n (the harness then sets up a PASE session)
    OpenWindowC(u8),
    RevokeC(u8),
    /// 61 s pass
    Tick,
    Restart,
    /// the next store / remove operation of the key-value store fails
    FailNextStore,
    /// the store / remove operation after the next one fails
    FailSecondStore,
    /// RemoveFabric(g) over the CASE session of fabric f
    RemoveFabricC(u8, u8),
    /// write a group key set on fabric n
    GroupKeyC(u8),
    /// the credential commands for a *new* fabric over the CASE session of fabric n (an administrator adding a second fabric)
    CsrC(u8),
    RootC(u8),
    AddNocC(u8),
    /// the *settings alphabet*: write GroupKeyMap (group 0x101 -> key set 0x42) on fabric n
    GroupMapC(u8),
    /// Groups::AddGroup(0x101) on endpoint 0 by fabric n
    AddGroupC(u8),
    /// write the Binding list of endpoint 0 (fabric n's entries)
    BindingC(u8),
    /// write BasicInformation::NodeLabel
    NodeLabelC(u8),
    /// write UserLabel::LabelList of endpoint 0
    UserLabelC(u8),
    /// GroupKeyManagement::KeySetRemove(0x42) / Groups::RemoveAllGroups on fabric n
    KeySetRemoveC(u8),
    RemoveAllGroupsC(u8),
}

/// Node-level settings next to the fabric table: bindings (fabric-scoped entries of one registry),
/// user labels, the node label.
#[derive(Clone, Debug, PartialEq, Eq, Hash, Default)]
pub struct Settings {
    /// (fabric index, node, endpoint, cluster)
    pub bindings: Vec<(u8, u64, u16, u32)>,
    pub user_labels: Vec<(u16, String, String)>,
    pub node_label: String,
}

fn settings_of(dev: &Device) -> Settings {
    let mut bindings: Vec<(u8, u64, u16, u32)> = dev.bindings.get().verif_entries().iter().map(|b| (b.fab_idx.get(), b.node.unwrap_or(0), b.endpoint.unwrap_or(0xffff), b.cluster.unwrap_or(0xffff_ffff))).collect();
    bindings.sort();
    let mut user_labels = Vec::new();
    dev.user_labels.get().verif_entries(|ep, l, v| user_labels.push((ep, l.to_string(), v.to_string())));
    let node_label = dev.matter.get().with_state(|s| s.verif_basic_info().node_label.to_string());
    Settings { bindings, user_labels, node_label }
}

#[derive(Clone, Debug, PartialEq, Eq, Hash)]
struct FabSummary {
    idx: u8,
    node_id: u64,
    fabric_id: u64,
    label: String,
    /// vendor id / digest of the VID verification statement
    vid: (u16, u64),
    root: u64,
    noc: u64,
    acl: Vec<String>,
    groups: String,
}

#[derive(Clone, Debug, PartialEq, Eq, Hash, Default)]
struct Config {
    fabrics: Vec<FabSummary>,
    /// persisted fabric / basic-info / network blobs
    kv: BTreeMap<u16, u64>,
}

fn memory_config(m: &Matter<'_>) -> Vec<FabSummary> {
    m.with_state(|s| {
        let mut v: Vec<FabSummary> = s
            .fabrics
            .iter()
            .map(|f| FabSummary {
                idx: f.fab_idx().get(),
                node_id: f.node_id(),
                fabric_id: f.fabric_id(),
                label: f.label().to_string(),
                vid: (f.vendor_id(), digest(&f.vid_verification_statement().to_vec())),
                root: digest(&f.root_ca().to_vec()),
                noc: digest(&f.noc().to_vec()),
                acl: f.acl_iter().map(|e| format!("{:?}/{}", e.auth_mode(), tlv_hex(e))).collect(),
                groups: format!("{:?}/{:?}", f.groups().key_set_iter().map(|k| (k.group_key_set_id, digest(&tlv_hex(k)) % 100_000)).collect::<Vec<_>>(), f.groups().key_map_iter().map(|k| (k.group_id, k.group_key_set_id)).collect::<Vec<_>>()) + &{
                    let t: Vec<_> = f.groups().iter().map(|g| (g.group_id, g.endpoints.to_vec(), g.group_name.to_string())).collect();
                    if t.is_empty() { String::new() } else { format!("/{:?}", t) }
                },
            })
            .collect();
        v.sort_by_key(|f| f.idx);
        v
    })
}

/// the TLV form of a value (its `Debug` form may hide content behind `MaybeUninit`)
fn tlv_hex<T: rs_matter::tlv::ToTLV>(t: &T) -> String {
    let mut buf = vec![0u8; 1024];
    let mut wb = rs_matter::utils::storage::WriteBuf::new(&mut buf);
    match t.to_tlv(&rs_matter::tlv::TLVTag::Anonymous, &mut wb) {
        Ok(()) => common::hex(wb.as_slice()),
        Err(e) => format!("unencodable:{:?}", e.code()),
    }
}

fn persisted_config(kv: &RecKv) -> BTreeMap<u16, u64> {
    kv.map().iter().filter(|(k, _)| **k <= 256 || **k == rs_matter::persist::NETWORKS_KEY).map(|(k, v)| (*k, digest(v))).collect()
}

/// the harness's model of the protocol state
#[derive(Clone, Debug, Default, PartialEq, Eq, Hash)]
struct Model {
    /// who armed: Some(0) = PASE, Some(n) = CASE of fabric n
    armed_by: Option<u8>,
    root: bool,
    csr_add: bool,
    csr_upd: bool,
    add_noc: bool,
    upd_noc: bool,
    /// the fabric a NOC was added / updated for under this fail-safe
    noc_fabric: Option<u8>,
    /// virtual time the fail-safe expires
    expires_at: u64,
    window_open: bool,
}

struct World {
    exec: Exec,
    net: Net,
    kv: RecKv,
    dev: Option<Device>,
    admin: Owned<Matter<'static>>,
    admin_task: Option<usize>,
    answer: Rc<RefCell<Option<Answer>>>,
    roots: Vec<(KeyPair, certw::CertSpec, Vec<u8>)>,
    next_root: usize,
    last_csr_key: Option<Vec<u8>>,
    model: Model,
    committed: Config,
    boots: u64,
    violations: Vec<(String, String)>,
    case_sessions: Vec<u8>,
    memory_dirty: bool,
    /// the fabrics whose memory image is ahead of the store (0 = unknown / node-wide)
    dirty_fabs: std::collections::BTreeSet<u8>,
    /// the arming fabric changed something of its own under its fail-safe (no NOC added / updated yet)
    arming_fabric_changed: Option<u8>,
    /// ... and then added another fabric over its CASE session: what it had changed is in limbo
    /// (known finding: neither committed nor undone with the rest); cleared by a restart
    limbo: Option<u8>,
    pase_gen: u16,
    pase_dev_id: u16,
    /// C07: for every operational session the harness set up: device-side session id -> (fabric index, root, fabric id)
    pub incarnation: BTreeMap<u16, (u8, u64, u64)>,
    /// C07 reference: fabrics (index, root, fabric id) that are gone by the rules of the protocol - rolled
    /// back (NOC added under a fail-safe that ended without CommissioningComplete) or removed
    pub must_be_gone: std::collections::BTreeSet<(u8, u64, u64)>,
    /// C07: resumption id -> (fabric index, root, fabric id) of the records the harness planted
    resumption_of: BTreeMap<Vec<u8>, (u8, u64, u64)>,
    /// C07: fabric index -> (root, fabric id) of the fabric the administrator's subscription was made on
    subscribed: BTreeMap<u8, (u64, u64)>,
    /// set by the answer judge: CommissioningComplete / RemoveFabric(g) succeeded in this step
    completed_now: bool,
    removed_now: Option<u8>,
    /// the request of this step was answered with success
    last_ok: bool,
    pub c07: bool,
    pub c11: bool,
    pub c11_crash_points_checked: u64,
    /// 0 = the classic alphabet, 1 = the settings alphabet (group / binding / label writes)
    pub alphabet: u8,
    /// C07: node id carried by a binding -> the fabric (index, root, fabric id) whose administrator wrote it
    binding_of: BTreeMap<u64, (u8, u64, u64)>,
    /// C07: fabrics (index, root, fabric id) whose administrator wrote group settings / an ACL
    groups_written: std::collections::BTreeSet<(u8, u64, u64)>,
    acl_written: std::collections::BTreeSet<(u8, u64, u64)>,
    /// a settings write hit a failing store: the memory image of the node-level settings may be ahead of the store
    settings_dirty: bool,
    bindings_written: u64,
}

fn set_clock(m: &Matter<'_>) {
    use rs_matter::dm::clusters::decl::time_synchronization::{GranularityEnum, TimeSourceEnum};
    m.with_rtc(|rtc| {
        rtc.set_utc_time(NOW_S * 1_000_000, GranularityEnum::MicrosecondsGranularity, TimeSourceEnum::Admin, &());
    });
}

impl World {
    fn new() -> Result<World, String> {
        vclock::reset(START_US);
        let net = Net::new(2);
        let kv = RecKv::new();
        let mut exec = Exec::new();
        let admin = Owned::from_box(nodes::new_matter());
        for _ in 0..4 {
            nodes::add_fabric(admin.get());
        }
        let c = nodes::crypto(SeededRng::new(4321));
        let mut roots = Vec::new();
        for i in 0..3u64 {
            let kp = certw::keypair(&c).map_err(|e| format!("{:?}", e.code()))?;
            let spec = certw::rcac_spec(&kp, 100 + i, Some(0xFAB0 + i));
            let cert = certw::sign(&c, &spec, &kp.secret).map_err(|e| format!("{:?}", e.code()))?;
            roots.push((kp, spec, cert));
        }
        let dev = commdrv::boot(&mut exec, &net, 1, &kv, 1000, true);
        let mut w = World { exec, net, kv, dev: Some(dev), admin, admin_task: None, answer: Rc::new(RefCell::new(None)), roots, next_root: 0, last_csr_key: None, model: Model::default(), committed: Config::default(), boots: 1, violations: Vec::new(), case_sessions: Vec::new(), memory_dirty: false, dirty_fabs: Default::default(), arming_fabric_changed: None, limbo: None, pase_gen: 0, pase_dev_id: 0, incarnation: BTreeMap::new(), must_be_gone: Default::default(), resumption_of: BTreeMap::new(), subscribed: BTreeMap::new(), completed_now: false, removed_now: None, last_ok: false, c07: false, c11: false, c11_crash_points_checked: 0, alphabet: 0, binding_of: BTreeMap::new(), groups_written: Default::default(), acl_written: Default::default(), settings_dirty: false, bindings_written: 0 };
        w.exec.run()?;
        w.after_boot()?;
        w.committed = w.config();
        Ok(w)
    }

    fn md(&self) -> &'static Matter<'static> {
        self.dev.as_ref().unwrap().matter.get()
    }

    fn config(&self) -> Config {
        Config { fabrics: memory_config(self.md()), kv: persisted_config(&self.kv) }
    }

    fn after_boot(&mut self) -> Result<(), String> {
        if let Some(e) = self.dev.as_ref().unwrap().boot_error.borrow().clone() {
            self.violations.push(("C08:device-does-not-start".into(), e));
            return Ok(());
        }
        set_clock(self.md());
        self.model = Model::default();
        self.model.window_open = self.md().comm_window_state().is_open();
        self.admin.get().reset_transport().map_err(|e| format!("{:?}", e.code()))?;
        self.case_sessions.clear();
        self.incarnation.clear();
        // (the planted resumption records were never flushed unless the device changed the cache itself; what
        // survives a restart is judged against what was planted before it)
        if self.model.window_open {
            self.install_pase()?;
        }
        let fabs: Vec<u8> = memory_config(self.md()).iter().map(|f| f.idx).collect();
        for f in fabs {
            self.install_case(f)?;
        }
        Ok(())
    }

    fn install_pase(&mut self) -> Result<(), String> {
        // the administrator's half of an earlier PASE session is gone with that session
        self.admin.get().with_state(|s| s.verif_sessions_mut().remove_pase(None));
        let (k1, k2) = (nodes::key(0x71), nodes::key(0x72));
        // fresh session ids every time: an expired predecessor may still sit in the device's table
        self.pase_gen += 1;
        let (la, ld) = (1000 + self.pase_gen * 2, 1001 + self.pase_gen * 2);
        self.pase_dev_id = ld;
        nodes::install_session(self.admin.get(), SeededRng::new(11), SessKind::Pase, NODE_ADMIN, NODE_DEV, la, ld, addr_of(1), &k2, &k1).map_err(|e| format!("{:?}", e.code()))?;
        nodes::install_session(self.md(), SeededRng::new(12), SessKind::Pase, NODE_DEV, NODE_ADMIN, ld, la, addr_of(0), &k1, &k2).map_err(|e| format!("{:?}", e.code()))?;
        Ok(())
    }

    fn install_case(&mut self, fab: u8) -> Result<(), String> {
        if self.case_sessions.contains(&fab) {
            return Ok(());
        }
        let (k1, k2) = (nodes::key(0x80 + fab), nodes::key(0x90 + fab));
        let (la, ld) = (10 + fab as u16 * 2, 11 + fab as u16 * 2);
        nodes::install_session_fab(self.admin.get(), SeededRng::new(20 + fab as u64), fab, NODE_ADMIN, NODE_DEV + fab as u64, la, ld, addr_of(1), &k2, &k1).map_err(|e| format!("{:?}", e.code()))?;
        nodes::install_session_fab(self.md(), SeededRng::new(40 + fab as u64), fab, NODE_DEV + fab as u64, NODE_ADMIN, ld, la, addr_of(0), &k1, &k2).map_err(|e| format!("{:?}", e.code()))?;
        self.case_sessions.push(fab);
        // two more controllers of the same fabric hold sessions with the device (device side only)
        let mut lds = vec![ld];
        for extra in 1..=2u16 {
            let (ka, kb) = (nodes::key(0xA0 + fab + extra as u8 * 8), nodes::key(0xB0 + fab + extra as u8 * 8));
            let l = ld + 100 * extra;
            nodes::install_session_fab(self.md(), SeededRng::new(60 + fab as u64 * 4 + extra as u64), fab, NODE_DEV + fab as u64, 0xC100 + extra as u64, l, l + 1000, addr_of(2 + extra as usize), &ka, &kb).map_err(|e| format!("{:?}", e.code()))?;
            lds.push(l);
        }
        let ident = memory_config(self.md()).iter().find(|x| x.idx == fab).map(|f| (f.root, f.fabric_id));
        if let Some((root, fabric_id)) = ident {
            for l in lds {
                self.incarnation.insert(l, (fab, root, fabric_id));
            }
        }
        if self.c07 {
            if let Some((root, fabric_id)) = ident {
                // what else a controller leaves at the device: a session-resumption record (as a completed
                // CASE handshake does) and a subscription (a real SubscribeRequest over the new session)
                let rid: [u8; 16] = {
                    let d = digest(&(root, fabric_id, self.next_root as u64, self.boots));
                    let mut b = [0u8; 16];
                    b[..8].copy_from_slice(&d.to_le_bytes());
                    b[8] = fab;
                    b
                };
                let rec = resumption_record(fab, NODE_ADMIN, &rid)?;
                self.md().with_state(|s| s.resumption.insert_or_update(rec));
                self.resumption_of.insert(rid.to_vec(), (fab, root, fabric_id));
                let req = imdrv::subscribe_request_ev(0, 3000, &[imdrv::Path::new(Some(0), Some(0x28), Some(0))], &[], None, false);
                let ans = self.request_kind(fab, 2, false, req)?;
                if ans.error.is_none() && ans.status_response.is_none() {
                    self.subscribed.insert(fab, (root, fabric_id));
                }
            }
        }
        Ok(())
    }

    fn pase_alive(&self) -> bool {
        self.md().with_state(|s| s.verif_sessions().iter().any(|x| x.get_local_sess_id() == self.pase_dev_id && matches!(x.get_session_mode(), SessionMode::Pase { .. }) && !x.verif_flags().1))
    }

    fn case_alive(&self, fab: u8) -> bool {
        let ld = 11 + fab as u16 * 2;
        self.md().with_state(|s| s.verif_sessions().iter().any(|x| x.get_local_sess_id() == ld && !x.verif_flags().1))
    }

    fn fabric_exists(&self, fab: u8) -> bool {
        memory_config(self.md()).iter().any(|f| f.idx == fab)
    }

    /// send one request over the given session (0 = PASE, n = CASE of fabric n) and wait for the answer
    fn request(&mut self, via: u8, write: bool, timed: bool, req: Vec<u8>) -> Result<Answer, String> {
        self.request_kind(via, if write { 1 } else { 0 }, timed, req)
    }

    /// kind: 0 invoke, 1 write, 2 subscribe
    fn request_kind(&mut self, via: u8, kind: u8, timed: bool, req: Vec<u8>) -> Result<Answer, String> {
        let write = kind == 1;
        *self.answer.borrow_mut() = None;
        if let Some(t) = self.admin_task.take() {
            self.exec.cancel(t);
        }
        let ma = self.admin.get();
        let (send, recv) = (self.net.end(0), self.net.end(0));
        let ans = self.answer.clone();
        let seed = 5000 + self.net.0.borrow().log.len() as u64;
        let t = self.exec.spawn("admin", async move {
            let c = nodes::crypto(SeededRng::new(seed));
            let client = async {
                let ex = if via == 0 { Exchange::initiate_pase(ma, &c, addr_of(1), PASSCODE).await } else { Exchange::initiate(ma, &c, NonZeroU8::new(via).unwrap(), NODE_DEV + via as u64).await };
                let r = match ex {
                    Err(e) => Answer { error: Some(format!("initiate: {:?}", e.code())), ..Default::default() },
                    Ok(mut ex) => {
                        if kind == 2 {
                            imdrv::do_subscribe(&mut ex, &req).await
                        } else if write {
                            commdrv::write(&mut ex, &req).await
                        } else {
                            commdrv::invoke(&mut ex, &req, timed).await
                        }
                    }
                };
                *ans.borrow_mut() = Some(r);
                core::future::pending::<()>().await
            };
            let _ = select(ma.run(&c, send, recv, NoNetwork), client).await;
        });
        self.admin_task = Some(t);
        self.exec.run()?;
        let deadline = vclock::now() + 20_000_000;
        for _ in 0..3000 {
            if self.answer.borrow().is_some() && self.net.inflight_len() == 0 {
                break;
            }
            if self.net.inflight_len() > 0 {
                vclock::advance_by_ms(1);
                self.net.deliver(0, false);
            } else if let Some(t) = vclock::next_deadline() {
                if t > deadline {
                    break;
                }
                vclock::advance_to(t);
            } else {
                break;
            }
            self.exec.run()?;
        }
        let a = self.answer.borrow().clone();
        Ok(a.unwrap_or_else(|| Answer { error: Some("no answer within 20 s".into()), ..Default::default() }))
    }

    fn restart(&mut self) -> Result<(), String> {
        if let Some(t) = self.admin_task.take() {
            self.exec.cancel(t);
        }
        if let Some(d) = self.dev.take() {
            self.exec.cancel(d.task);
            drop(d);
        }
        // datagrams in flight die with the power cycle
        while self.net.inflight_len() > 0 {
            self.net.drop_dgram(0);
        }
        self.kv.0.borrow_mut().fail_attempt = None;
        self.boots += 1;
        let dev = commdrv::boot(&mut self.exec, &self.net, 1, &self.kv, 1000 + self.boots, true);
        self.dev = Some(dev);
        self.exec.run()?;
        self.after_boot()
    }
}

/// 0 = success; else (kind, code): kind 's' IM status, 'c' cluster-level error code, 'e' harness error
fn outcome(a: &Answer) -> (char, u16) {
    if a.error.is_some() {
        return ('e', 0);
    }
    if let Some(s) = a.status_response {
        return ('s', s);
    }
    match a.items.first() {
        Some(Item::Status { status, .. }) => ('s', *status),
        // CSRResponse (command 5 of Operational Credentials) carries no status code: it is the success
        Some(Item::CmdData { cl: 0x3E, cmd: 5, .. }) => ('c', 0),
        Some(Item::CmdData { value, .. }) => ('c', field_u8(value, 0).unwrap_or(0xff) as u16),
        _ => ('e', 1),
    }
}

fn field_u8(raw: &[u8], tag: u8) -> Option<u8> {
    let mut buf = vec![0x15u8];
    buf.extend_from_slice(raw);
    buf.push(0x18);
    let e = rs_matter::tlv::TLVElement::new(&buf);
    let s = e.structure().ok()?;
    let f = s.find_ctx(tag).ok()?;
    if f.is_empty() {
        return None;
    }
    f.u8().ok()
}

fn succeeded(o: (char, u16)) -> bool {
    o == ('s', 0) || o == ('c', 0)
}

impl World {
    fn enabled(&self) -> Vec<Op> {
        let mut v = Vec::new();
        if self.dev.as_ref().map(|d| d.boot_error.borrow().is_some()).unwrap_or(true) {
            return v;
        }
        let fabs: Vec<u8> = memory_config(self.md()).iter().map(|f| f.idx).filter(|f| self.case_alive(*f)).collect();
        if self.alphabet == 1 {
            // the settings alphabet: what an administrator configures on a fabric, the ways a fail-safe
            // begins and ends, fabric removal, and the commissioning of a further fabric over PASE
            if self.pase_alive() {
                v.extend([Op::ArmP, Op::Arm0P, Op::CsrP, Op::RootP, Op::AddNocP]);
            }
            let all: Vec<u8> = memory_config(self.md()).iter().map(|f| f.idx).collect();
            for f in fabs {
                v.extend([Op::ArmC(f), Op::Arm0C(f), Op::CompleteC(f), Op::AclC(f), Op::GroupKeyC(f), Op::GroupMapC(f), Op::AddGroupC(f), Op::KeySetRemoveC(f), Op::RemoveAllGroupsC(f)]);
                if self.c07 || self.c11 {
                    v.push(Op::BindingC(f));
                }
                if self.c11 {
                    v.extend([Op::NodeLabelC(f), Op::UserLabelC(f)]);
                }
                for g in &all {
                    v.push(Op::RemoveFabricC(f, *g));
                }
            }
            v.extend([Op::Tick, Op::Restart, Op::FailNextStore, Op::FailSecondStore]);
            return v;
        }
        if self.pase_alive() {
            v.extend([Op::ArmP, Op::Arm0P, Op::CsrP, Op::RootP, Op::AddNocP, Op::CompleteP]);
        }
        for f in fabs {
            v.extend([Op::ArmC(f), Op::Arm0C(f), Op::CsrUpdC(f), Op::UpdNocC(f), Op::AclC(f), Op::LabelC(f), Op::VidStmtC(f), Op::CompleteC(f), Op::OpenWindowC(f), Op::RevokeC(f), Op::CsrC(f), Op::RootC(f), Op::AddNocC(f)]);
        }
        let all: Vec<u8> = memory_config(self.md()).iter().map(|f| f.idx).collect();
        for f in all.iter().filter(|f| self.case_alive(**f)) {
            v.push(Op::GroupKeyC(*f));
            for g in &all {
                v.push(Op::RemoveFabricC(*f, *g));
            }
        }
        v.extend([Op::Tick, Op::Restart, Op::FailNextStore, Op::FailSecondStore]);
        v
    }

    fn expire_model_if_due(&mut self) {
        if self.model.armed_by.is_some() && vclock::now() >= self.model.expires_at {
            self.model = Model { window_open: self.model.window_open, ..Model::default() };
        }
    }

    fn apply(&mut self, op: Op) -> Result<(), String> {
        let log_before = self.kv.log_len();
        let dirty_before = self.settings_dirty || self.memory_dirty;
        let pre = self.model.clone();
        let pre_fabrics = if self.dev.as_ref().map(|d| d.boot_error.borrow().is_none()).unwrap_or(false) { memory_config(self.md()) } else { vec![] };
        self.completed_now = false;
        self.removed_now = None;
        self.last_ok = false;
        let r = self.apply_inner(op);
        if self.c07 && r.is_ok() {
            // the reference's view of which fabrics are gone now
            let ident = |f: u8| pre_fabrics.iter().find(|x| x.idx == f).map(|x| (x.idx, x.root, x.fabric_id));
            if pre.add_noc && pre.armed_by.is_some() && self.model.armed_by.is_none() && !self.completed_now {
                if let Some(id) = pre.noc_fabric.and_then(ident) {
                    self.must_be_gone.insert(id);
                }
            }
            if let Some(id) = self.removed_now.and_then(ident) {
                self.must_be_gone.insert(id);
            }
            self.c07_oracle(op);
        }
        if self.c11 && r.is_ok() {
            // a fabric removal that was confirmed to the administrator is committed, fail-safe or not:
            // a restart from the store as it is now must come up without that fabric
            if let Some(g) = self.removed_now {
                let gone_id = pre_fabrics.iter().find(|x| x.idx == g).map(|x| (x.root, x.fabric_id));
                match boot_config(&self.kv.map()) {
                    Ok(c) => {
                        if let Some(f) = c.iter().find(|f| f.idx == g && Some((f.root, f.fabric_id)) == gone_id) {
                            self.violations.push((format!("C11:confirmed-fabric-removal-not-in-the-store:after-{}", op_class(op)), format!("{:?} was answered with success; a restart from the store as it is right afterwards comes up with fabric index {} (fabric id {:#x}) again", op, g, f.fabric_id)));
                        }
                    }
                    Err(e) => self.violations.push((format!("C11:node-does-not-start-from-its-own-store:after-{}", op_class(op)), e)),
                }
            }
        }
        if self.c11 && r.is_ok() && !matches!(op, Op::Restart) {
            let log_after = self.kv.log_len();
            self.c11_crash_points(op, log_before, log_after, dirty_before);
        }
        r
    }

    fn apply_inner(&mut self, op: Op) -> Result<(), String> {
        let c = nodes::crypto(SeededRng::new(777));
        let store_failures_before = self.kv.0.borrow().failures;
        let log_len_before = self.kv.log_len();
        let was_armed = self.model.armed_by;
        match op {
            Op::Tick => {
                let target = vclock::now() + 61_000_000;
                while let Some(t) = vclock::next_deadline() {
                    if t > target {
                        break;
                    }
                    vclock::advance_to(t);
                    self.exec.run()?;
                    while self.net.inflight_len() > 0 {
                        self.net.drop_dgram(0);
                    }
                }
                if vclock::now() < target {
                    vclock::advance_to(target);
                    self.exec.run()?;
                }
            }
            Op::Restart => self.restart()?,
            Op::FailNextStore => self.kv.fail_next(),
            Op::FailSecondStore => self.kv.fail_nth(2),
            _ => {
                let (via, write, timed, req) = match op {
                    Op::ArmP => (0, false, false, commdrv::arm_fail_safe(60, 1)),
                    Op::ArmC(f) => (f, false, false, commdrv::arm_fail_safe(60, 2)),
                    Op::Arm0P => (0, false, false, commdrv::arm_fail_safe(0, 0)),
                    Op::Arm0C(f) => (f, false, false, commdrv::arm_fail_safe(0, 0)),
                    Op::CsrP => (0, false, false, commdrv::csr_request(false)),
                    Op::CsrC(f) => (f, false, false, commdrv::csr_request(false)),
                    Op::RootC(f) => (f, false, false, commdrv::add_trusted_root(&self.roots[self.next_root % 3].2)),
                    Op::CsrUpdC(f) => (f, false, false, commdrv::csr_request(true)),
                    Op::RootP => (0, false, false, commdrv::add_trusted_root(&self.roots[self.next_root % 3].2)),
                    Op::AddNocP | Op::AddNocC(_) => {
                        let via = if let Op::AddNocC(f) = op { f } else { 0 };
                        let Some(pk) = self.last_csr_key.clone() else {
                            // no key was ever requested: a NOC for a key of the harness's own
                            let kp = certw::keypair(&c).map_err(|e| format!("{:?}", e.code()))?;
                            self.last_csr_key = Some(kp.public.clone());
                            return self.apply_inner(op);
                        };
                        let (rkp, rspec, _) = &self.roots[self.next_root % 3];
                        let leaf = KeyPair { secret: rkp.secret.clone(), public: pk.clone(), key_id: certw::key_id(&c, &pk).map_err(|e| format!("{:?}", e.code()))? };
                        let fabric_id = 0xFAB0 + (self.next_root % 3) as u64;
                        let spec = certw::noc_spec(&leaf, rspec, rkp, NODE_DEV + 50, fabric_id, &[]);
                        let noc = certw::sign(&c, &spec, &rkp.secret).map_err(|e| format!("{:?}", e.code()))?;
                        (via, false, false, commdrv::add_noc(&noc, None, &[0xA1; 16], NODE_ADMIN))
                    }
                    Op::UpdNocC(f) => {
                        let pk = self.last_csr_key.clone().unwrap_or_else(|| vec![4u8; 65]);
                        // the root of fabric f is the one its commissioning used: find it by digest
                        let root_digest = memory_config(self.md()).iter().find(|x| x.idx == f).map(|x| x.root);
                        let ri = self.roots.iter().position(|r| Some(digest(&r.2)) == root_digest).unwrap_or(0);
                        let (rkp, rspec, _) = &self.roots[ri];
                        let leaf = KeyPair { secret: rkp.secret.clone(), public: pk.clone(), key_id: certw::key_id(&c, &pk).unwrap_or_default() };
                        let spec = certw::noc_spec(&leaf, rspec, rkp, NODE_DEV + 60, 0xFAB0 + ri as u64, &[]);
                        let noc = certw::sign(&c, &spec, &rkp.secret).map_err(|e| format!("{:?}", e.code()))?;
                        (f, false, false, commdrv::update_noc(&noc, None))
                    }
                    Op::AclC(f) => (f, true, false, commdrv::write_acl(&[(5, vec![NODE_ADMIN]), (3, vec![0x7777, 0xFFFF_FFFD_0001_0001])])),
                    Op::LabelC(f) => (f, false, false, commdrv::update_fabric_label("kitchen-\u{fc}-0123456789-ABCDEFGHI")),
                    Op::VidStmtC(f) => (f, false, false, commdrv::set_vid_verification_statement(0x1234)),
                    Op::CompleteC(f) => (f, false, false, commdrv::commissioning_complete()),
                    Op::CompleteP => (0, false, false, commdrv::commissioning_complete()),
                    Op::OpenWindowC(f) => (f, false, true, commdrv::open_basic_window(300)),
                    Op::RevokeC(f) => (f, false, true, commdrv::revoke_commissioning()),
                    Op::RemoveFabricC(f, g) => (f, false, false, commdrv::remove_fabric(g)),
                    Op::GroupKeyC(f) => (f, false, false, commdrv::key_set_write(0x42)),
                    Op::GroupMapC(f) => (f, true, false, commdrv::write_group_key_map(&[(0x0101, 0x42)])),
                    Op::KeySetRemoveC(f) => (f, false, false, commdrv::key_set_remove(0x42)),
                    Op::RemoveAllGroupsC(f) => (f, false, false, commdrv::remove_all_groups()),
                    Op::AddGroupC(f) => (f, false, false, commdrv::add_group(0x0101, "grp-\u{e9}")),
                    Op::BindingC(f) => {
                        // a target node id that names the incarnation of the fabric it is written for
                        self.bindings_written += 1;
                        let node = 0xB000_0000u64 + ((self.next_root as u64) << 12) + f as u64;
                        let ident = memory_config(self.md()).iter().find(|x| x.idx == f).map(|x| (x.idx, x.root, x.fabric_id));
                        if let Some(id) = ident {
                            self.binding_of.insert(node, id);
                        }
                        // (a second write replaces the list by one of the same length with other targets)
                        let has_first = self.dev.as_ref().map(settings_of).unwrap_or_default().bindings.iter().any(|b| b.0 == f && b.2 == 1);
                        if has_first {
                            (f, true, false, commdrv::write_binding(&[(node, 3, 6), (node, 4, 8)]))
                        } else {
                            (f, true, false, commdrv::write_binding(&[(node, 1, 6), (node, 2, 8)]))
                        }
                    }
                    Op::NodeLabelC(f) => (f, true, false, commdrv::write_node_label(if self.md().with_state(|s| s.verif_basic_info().node_label.is_empty()) { "node-\u{fc}-label-0123456789-abcdefg" } else { "second" })),
                    Op::UserLabelC(f) => {
                        let has_first = self.dev.as_ref().map(settings_of).unwrap_or_default().user_labels.iter().any(|l| l.2 == "kitchen");
                        if has_first {
                            (f, true, false, commdrv::write_user_labels(&[("room", "cellar"), ("floor", "-1")]))
                        } else {
                            (f, true, false, commdrv::write_user_labels(&[("room", "kitchen"), ("floor", "\u{fc}ber-1")]))
                        }
                    }
                    _ => unreachable!(),
                };
                let ans = self.request(via, write, timed, req)?;
                let o = outcome(&ans);
                self.last_ok = succeeded(o);
                self.expire_model_if_due();
                let failed_now = self.kv.0.borrow().failures > store_failures_before;
                self.judge_answer(op, via, o, &ans, failed_now);
                // harness bookkeeping that follows the device's answers
                match op {
                    Op::CsrP | Op::CsrC(_) | Op::CsrUpdC(_) if succeeded(o) => {
                        if let Some(Item::CmdData { value, .. }) = ans.items.first() {
                            self.last_csr_key = commdrv::csr_pubkey(value);
                            if std::env::var_os("MC_SHOW_PANICS").is_some() {
                                eprintln!("CSR response fields: {}\n extracted key {:?}", common::hex(value), self.last_csr_key.as_ref().map(|k| common::hex(k)));
                            }
                        }
                    }
                    Op::AddNocP | Op::AddNocC(_) if succeeded(o) => {
                        if let Some(Item::CmdData { value, .. }) = ans.items.first() {
                            if let Some(idx) = field_u8(value, 1) {
                                self.install_case(idx)?;
                            }
                        }
                        self.next_root += 1;
                    }
                    Op::GroupKeyC(f) | Op::GroupMapC(f) | Op::AddGroupC(f) | Op::AclC(f) => {
                        // (also when refused: a refused write that hit a failing store may stay in memory)
                        if let Some(id) = memory_config(self.md()).iter().find(|x| x.idx == f).map(|x| (x.idx, x.root, x.fabric_id)) {
                            if matches!(op, Op::AclC(_)) {
                                self.acl_written.insert(id);
                            } else {
                                self.groups_written.insert(id);
                            }
                        }
                    }
                    Op::OpenWindowC(_) if succeeded(o) => {
                        self.model.window_open = true;
                        if !self.pase_alive() {
                            self.install_pase()?;
                        }
                    }
                    _ => {}
                }
            }
        }
        self.expire_model_if_due();
        // ---- all-or-nothing
        if self.dev.as_ref().map(|d| d.boot_error.borrow().is_some()).unwrap_or(true) {
            return Ok(());
        }
        let store_failed = self.kv.0.borrow().failures > store_failures_before;
        if matches!(op, Op::Restart) {
            self.settings_dirty = false;
        } else if store_failed && matches!(op, Op::BindingC(_) | Op::NodeLabelC(_) | Op::UserLabelC(_) | Op::RemoveFabricC(..) | Op::Tick | Op::Arm0P | Op::Arm0C(_) | Op::RevokeC(_)) {
            self.settings_dirty = true;
        }
        if store_failed {
            // a command that hit a failing store was answered with a failure, but may have been taken
            // into account all the same: the order rules are judged from what the device recorded
            if let Some((fab, flags, _, _)) = self.md().with_state(|s| s.verif_failsafe().verif_state().0) {
                if self.model.armed_by.is_some() {
                    self.model.csr_add = flags & 0x01 != 0;
                    self.model.csr_upd = flags & 0x02 != 0;
                    self.model.root = flags & 0x04 != 0;
                    self.model.add_noc = flags & 0x08 != 0;
                    self.model.upd_noc = flags & 0x10 != 0;
                    if (self.model.add_noc || self.model.upd_noc) && fab != 0 {
                        self.model.noc_fabric = Some(fab);
                        self.install_case(fab)?;
                    }
                }
            }
        }
        let armed_device = self.md().with_state(|s| s.verif_failsafe().verif_state().0.is_some());
        if armed_device != self.model.armed_by.is_some() {
            self.violations.push((format!("C08:fail-safe-state-unexpected:after-{}", op_class(op)), format!("after {:?} the device's fail-safe is {}armed, the reference says {:?}", op, if armed_device { "" } else { "not " }, self.model.armed_by)));
            // follow the device so that later steps are judged against what it does
            if !armed_device {
                self.model = Model { window_open: self.model.window_open, ..Model::default() };
            }
        }
        let cfg = self.config();
        // a change made by the administrator of a fabric that the pending commissioning does not
        // concern is an ordinary committed change of that fabric, armed fail-safe or not
        let touched = match op {
            Op::AclC(f) | Op::LabelC(f) | Op::VidStmtC(f) | Op::GroupKeyC(f) | Op::GroupMapC(f) | Op::AddGroupC(f) | Op::KeySetRemoveC(f) | Op::RemoveAllGroupsC(f) => Some(f),
            Op::RemoveFabricC(_, g) => Some(g),
            _ => None,
        };
        if let (Some(f), Some(by)) = (touched, was_armed) {
            if f == by && by != 0 && self.model.noc_fabric.is_none() && !matches!(op, Op::RemoveFabricC(..) | Op::VidStmtC(_)) {
                self.arming_fabric_changed = Some(f);
            }
        }
        if let Op::AddNocC(f) = op {
            if self.model.add_noc && self.arming_fabric_changed == Some(f) {
                self.limbo = Some(f);
            }
        }
        if was_armed.is_none() {
            self.arming_fabric_changed = None;
        }
        let limbo_before = self.limbo;
        if matches!(op, Op::Restart) {
            // (a restart ends the limbo: the memory image is the stored one again)
            self.limbo = None;
            self.arming_fabric_changed = None;
        }
        let mut independent = touched.is_some() && was_armed.is_none();
        if let (Some(f), Some(by)) = (touched, was_armed) {
            // (a VID verification statement is part of the pending commissioning only if a NOC was added /
            // updated for that fabric under this fail-safe; otherwise it is an immediate, permanent change)
            let pending_fabric = if matches!(op, Op::VidStmtC(_)) { self.model.noc_fabric } else { self.model.noc_fabric.or(if by != 0 { Some(by) } else { None }) };
            // (a fabric removal is immediate and permanent whatever the fail-safe says)
            independent = pending_fabric != Some(f) || matches!(op, Op::RemoveFabricC(..));
            // (a fabric whose memory image is ahead of the store - a refused change - is only reconciled by an
            // operation that really writes it: one that is answered without a store call changes nothing durable)
            let reconciles = !self.dirty_fabs.contains(&f) || self.kv.log_len() > log_len_before;
            if independent && !store_failed && reconciles {
                match cfg.fabrics.iter().find(|x| x.idx == f) {
                    Some(new) => {
                        if let Some(old) = self.committed.fabrics.iter_mut().find(|x| x.idx == f) {
                            *old = new.clone();
                        }
                    }
                    // the fabric was removed
                    None => self.committed.fabrics.retain(|x| x.idx != f),
                }
                match cfg.kv.get(&(f as u16)) {
                    // (a removed fabric has no blob, whatever the device left in the store)
                    Some(v) if cfg.fabrics.iter().any(|x| x.idx == f) => {
                        self.committed.kv.insert(f as u16, *v);
                    }
                    _ => {
                        self.committed.kv.remove(&(f as u16));
                    }
                }
            }
        }
        if store_failed && (was_armed.is_none() || independent) {
            // a change outside a fail-safe whose store failed was refused to the administrator: the
            // memory image may keep it until the next restart, the persisted image decides
            self.dirty_fabs.insert(touched.unwrap_or(0));
        }
        if matches!(op, Op::Restart) {
            self.dirty_fabs.clear();
        } else if independent && !store_failed && self.last_ok && self.kv.log_len() > log_len_before {
            // (a fabric is persisted as a whole: a store that succeeds brings the two images of *that* fabric together again)
            if let Some(f) = touched {
                self.dirty_fabs.remove(&f);
            }
        }
        self.memory_dirty = !self.dirty_fabs.is_empty();
        if !armed_device {
            if matches!(op, Op::CompleteC(_)) && was_armed.is_some() && !store_failed {
                // a completed commissioning commits whatever was changed under the fail-safe; a fabric whose
                // memory image is ahead of the store (a refused change outside that commissioning) stays as it is
                let mut newc = cfg.clone();
                // (the fabric of the commissioning itself is persisted by the completion)
                if let Op::CompleteC(f) = op {
                    self.dirty_fabs.remove(&f);
                    self.memory_dirty = !self.dirty_fabs.is_empty();
                }
                for d in &self.dirty_fabs {
                    newc.fabrics.retain(|x| x.idx != *d);
                    if let Some(old) = self.committed.fabrics.iter().find(|x| x.idx == *d) {
                        newc.fabrics.push(old.clone());
                    }
                    match self.committed.kv.get(&(*d as u16)) {
                        Some(v) => {
                            newc.kv.insert(*d as u16, *v);
                        }
                        None => {
                            newc.kv.remove(&(*d as u16));
                        }
                    }
                }
                newc.fabrics.sort_by_key(|x| x.idx);
                self.committed = newc;
            } else if was_armed.is_none() && !matches!(op, Op::Restart | Op::Tick | Op::FailNextStore | Op::FailSecondStore) && !store_failed && !self.memory_dirty {
                // changes outside a fail-safe are committed one by one (label / ACL writes, fabric removal)
                self.committed = cfg.clone();
            } else if was_armed.is_none() && !store_failed && self.memory_dirty {
                // ... fabric by fabric while another fabric's memory image is ahead of the store
                if let Some(f) = touched.filter(|f| !self.dirty_fabs.contains(f)) {
                    self.committed.fabrics.retain(|x| x.idx != f);
                    if let Some(new) = cfg.fabrics.iter().find(|x| x.idx == f) {
                        self.committed.fabrics.push(new.clone());
                        self.committed.fabrics.sort_by_key(|x| x.idx);
                    }
                    match cfg.kv.get(&(f as u16)) {
                        Some(v) if cfg.fabrics.iter().any(|x| x.idx == f) => {
                            self.committed.kv.insert(f as u16, *v);
                        }
                        _ => {
                            self.committed.kv.remove(&(f as u16));
                        }
                    }
                }
            }
            let cfg_cmp = if self.memory_dirty { Config { fabrics: self.committed.fabrics.clone(), kv: cfg.kv.clone() } } else { cfg.clone() };
            if cfg_cmp != self.committed {
                let what = describe_diff(&self.committed, &cfg);
                // which fabrics differ in memory? (the limbo case is a finding of its own)
                let differing: Vec<u8> = cfg_cmp.fabrics.iter().filter(|f| !self.committed.fabrics.contains(f)).map(|f| f.idx).chain(self.committed.fabrics.iter().filter(|f| !cfg_cmp.fabrics.contains(f)).map(|f| f.idx)).collect();
                let limbo = limbo_before.filter(|l| !differing.is_empty() && differing.iter().all(|d| d == l) && cfg_cmp.kv == self.committed.kv).is_some();
                let sig = if limbo { "C08:not-all-or-nothing:change-of-the-arming-fabric-before-it-added-another-fabric-over-case".to_string() } else { format!("C08:not-all-or-nothing:after-{}{}", op_class(op), if store_failed { ":store-failure" } else { "" }) };
                self.violations.push((sig, format!("after {:?} (fail-safe not armed) the node differs from the last committed configuration: {}", op, what)));
                self.committed = cfg;
            }
        } else {
            // while armed, nothing of the pending commissioning may be in the persisted blobs
            if cfg.kv != self.committed.kv {
                self.violations.push((format!("C08:uncommitted-change-persisted:after-{}", op_class(op)), format!("after {:?} (fail-safe armed) the persisted blobs changed: {}", op, describe_diff(&self.committed, &Config { fabrics: self.committed.fabrics.clone(), kv: cfg.kv.clone() }))));
                self.committed.kv = cfg.kv;
            }
        }
        Ok(())
    }

    fn judge_answer(&mut self, op: Op, via: u8, o: (char, u16), ans: &Answer, store_failed: bool) {
        if o.0 == 'e' {
            self.violations.push((format!("C08:no-usable-answer:{}", op_class(op)), format!("{:?}: {:?} / items {:?}", op, ans.error, ans.items)));
            return;
        }
        let m = self.model.clone();
        // the fail-safe context belongs to whoever armed it; once a NOC was added it is associated with
        // the new fabric (over PASE the commissioner's session stays in the context as well)
        let ctx_ok = if m.add_noc && m.armed_by != Some(0) { m.noc_fabric == Some(via) } else { m.armed_by == Some(via) || (via != 0 && m.armed_by == Some(0) && m.noc_fabric == Some(via)) };
        let ok = succeeded(o);
        match op {
            Op::ArmP | Op::ArmC(_) => {
                let may = m.armed_by.is_none() || ctx_ok;
                if ok && !may {
                    self.violations.push(("C08:fail-safe-re-armed-by-another-context".into(), format!("{:?} succeeded although the fail-safe is held by {:?}", op, m.armed_by)));
                }
                if ok {
                    if m.armed_by.is_none() {
                        self.model = Model { armed_by: Some(via), window_open: m.window_open, ..Model::default() };
                    }
                    self.model.expires_at = vclock::now() + 60_000_000;
                } else if may && !(via != 0 && m.window_open) {
                    self.violations.push(("C08:arm-refused".into(), format!("{:?} was refused with {:?} although the fail-safe is {:?}", op, o, m.armed_by)));
                }
            }
            Op::Arm0P | Op::Arm0C(_) => {
                if ok && m.armed_by.is_some() && !ctx_ok {
                    self.violations.push(("C08:fail-safe-disarmed-by-another-context".into(), format!("{:?} succeeded although the fail-safe is held by {:?}", op, m.armed_by)));
                }
                if ok && (m.armed_by.is_none() || ctx_ok) {
                    self.model = Model { window_open: m.window_open, ..Model::default() };
                }
            }
            Op::CsrP | Op::CsrC(_) | Op::CsrUpdC(_) => {
                let upd = matches!(op, Op::CsrUpdC(_));
                // (a root added earlier does not forbid asking for an update CSR; it is UpdateNOC that is refused then)
                let may = m.armed_by.is_some() && ctx_ok && !m.csr_add && !m.csr_upd && !m.add_noc && !m.upd_noc;
                let _ = upd;
                if ok && !may {
                    self.violations.push((format!("C08:credential-command-accepted-out-of-order:{}", op_class(op)), format!("{:?} succeeded in state {:?}", op, m)));
                }
                if !ok && may {
                    self.violations.push((format!("C08:credential-command-refused-in-order:{}", op_class(op)), format!("{:?} -> {:?} in state {:?}", op, o, m)));
                }
                if ok {
                    if upd {
                        self.model.csr_upd = true;
                    } else {
                        self.model.csr_add = true;
                    }
                }
            }
            Op::RootP | Op::RootC(_) => {
                let may = m.armed_by.is_some() && ctx_ok && !m.root && !m.add_noc && !m.upd_noc;
                if ok && !may {
                    self.violations.push(("C08:credential-command-accepted-out-of-order:root".into(), format!("{:?} succeeded in state {:?}", op, m)));
                }
                if !ok && may {
                    self.violations.push(("C08:credential-command-refused-in-order:root".into(), format!("{:?} -> {:?} in state {:?}", op, o, m)));
                }
                if ok {
                    self.model.root = true;
                }
            }
            Op::AddNocP | Op::AddNocC(_) => {
                let may = m.armed_by.is_some() && ctx_ok && m.root && m.csr_add && !m.add_noc && !m.upd_noc && !m.csr_upd;
                if ok && !may {
                    self.violations.push(("C08:credential-command-accepted-out-of-order:add-noc".into(), format!("{:?} succeeded in state {:?}", op, m)));
                }
                if !ok && may && !store_failed {
                    self.violations.push(("C08:credential-command-refused-in-order:add-noc".into(), format!("{:?} -> {:?} in state {:?}", op, o, m)));
                }
                if ok {
                    self.model.add_noc = true;
                    if let Some(Item::CmdData { value, .. }) = ans.items.first() {
                        self.model.noc_fabric = field_u8(value, 1);
                    }
                }
            }
            Op::UpdNocC(f) => {
                let may = m.armed_by == Some(f) && m.csr_upd && !m.root && !m.add_noc && !m.upd_noc && !m.csr_add;
                if ok && !may {
                    self.violations.push(("C08:credential-command-accepted-out-of-order:update-noc".into(), format!("{:?} succeeded in state {:?}", op, m)));
                }
                if !ok && may && !store_failed {
                    self.violations.push(("C08:credential-command-refused-in-order:update-noc".into(), format!("{:?} -> {:?} in state {:?}", op, o, m)));
                }
                if ok {
                    self.model.upd_noc = true;
                    self.model.noc_fabric = Some(f);
                }
            }
            Op::CompleteC(f) => {
                // from the fabric the fail-safe is associated with: the one whose NOC was added / updated, else the arming one
                let may = m.armed_by.is_some() && (m.noc_fabric == Some(f) || (m.noc_fabric.is_none() && m.armed_by == Some(f)));
                if ok && !may {
                    self.violations.push(("C08:commissioning-completed-from-the-wrong-context".into(), format!("{:?} succeeded in state {:?}", op, m)));
                }
                if !ok && may {
                    // (a failing store may make it fail: judged by the all-or-nothing oracle)
                    if !store_failed {
                        self.violations.push(("C08:commissioning-complete-refused".into(), format!("{:?} -> {:?} in state {:?}", op, o, m)));
                    }
                }
                if ok {
                    self.completed_now = true;
                    self.model = Model { window_open: false, ..Model::default() };
                }
            }
            Op::CompleteP => {
                let may = m.armed_by == Some(0) && m.noc_fabric.is_none();
                if ok && !may {
                    self.violations.push(("C08:commissioning-completed-from-the-wrong-context".into(), format!("{:?} (over PASE) succeeded in state {:?}", op, m)));
                }
                if ok {
                    self.completed_now = true;
                    self.model = Model { window_open: false, ..Model::default() };
                }
            }
            Op::RevokeC(_) => {
                if ok {
                    self.model = Model::default();
                }
            }
            Op::RemoveFabricC(_, g) => {
                if ok {
                    self.removed_now = Some(g);
                }
            }
            _ => {}
        }
    }
}

impl World {
    /// C07: nothing bound to a fabric outlives that fabric.
    fn c07_oracle(&mut self, op: Op) {
        if self.dev.as_ref().map(|d| d.boot_error.borrow().is_some()).unwrap_or(true) {
            return;
        }
        let fabrics = memory_config(self.md());
        let sessions: Vec<(u16, String, u8, bool)> = self.md().with_state(|s| {
            s.verif_sessions()
                .iter()
                .map(|x| {
                    let (kind, fab) = match x.get_session_mode() {
                        SessionMode::Case { fab_idx, .. } => ("case", fab_idx.get()),
                        SessionMode::Pase { fab_idx } => ("pase", *fab_idx),
                        _ => ("other", 0),
                    };
                    (x.get_local_sess_id(), kind.to_string(), fab, x.verif_flags().1)
                })
                .collect()
        });
        for (ld, kind, fab, expired) in sessions {
            if fab == 0 || expired || kind == "other" {
                continue;
            }
            let current = fabrics.iter().find(|f| f.idx == fab);
            if let Some(f) = current {
                if self.must_be_gone.contains(&(f.idx, f.root, f.fabric_id)) {
                    self.violations.push((format!("C07:{}-session-of-a-fabric-that-was-rolled-back-or-removed-still-usable:after-{}", kind, op_class(op)), format!("after {:?} the device holds a usable {} session (local id {}) of fabric index {} (fabric id {:#x}); by the rules of the protocol that fabric is gone (rolled back or removed), the device still has it", op, kind, ld, fab, f.fabric_id)));
                    continue;
                }
            }
            match (current, self.incarnation.get(&ld)) {
                (None, _) => self.violations.push((format!("C07:{}-session-outlives-its-fabric:after-{}", kind, op_class(op)), format!("after {:?} the device still holds a usable {} session (local id {}) bound to fabric index {}, which no longer exists", op, kind, ld, fab))),
                (Some(f), Some((_, root, fabric_id))) if f.root != *root || f.fabric_id != *fabric_id => {
                    self.violations.push((format!("C07:{}-session-of-a-removed-fabric-reaches-its-successor:after-{}", kind, op_class(op)), format!("after {:?} the session with local id {} established for fabric (id {:#x}) is bound to index {}, which now holds another fabric (id {:#x})", op, ld, fabric_id, fab, f.fabric_id)))
                }
                _ => {}
            }
        }
        // session-resumption records and subscriptions: bound to an existing fabric, the one they were made for
        let records: Vec<(u8, u64, Vec<u8>)> = self.md().with_state(|s| s.resumption.iter().map(|r| (r.fab_idx.get(), r.peer_nodeid, resumption_id_of(r))).collect());
        for (fab, peer, rid) in records {
            let current = fabrics.iter().find(|f| f.idx == fab);
            let made_for = self.resumption_of.get(&rid);
            let bad = match (current, made_for) {
                (None, _) => Some("outlives-its-fabric"),
                (Some(f), _) if self.must_be_gone.contains(&(f.idx, f.root, f.fabric_id)) => Some("of-a-fabric-that-was-rolled-back-or-removed-still-usable"),
                (Some(f), Some((_, root, fid))) if f.root != *root || f.fabric_id != *fid => Some("of-a-removed-fabric-reaches-its-successor"),
                _ => None,
            };
            if let Some(b) = bad {
                self.violations.push((format!("C07:resumption-record-{}:after-{}", b, op_class(op)), format!("after {:?} the device holds a session-resumption record for peer {:#x} on fabric index {} (planted for {:?}); fabrics now {:?}", op, peer, fab, made_for, fabrics.iter().map(|f| (f.idx, f.fabric_id)).collect::<Vec<_>>())));
            }
        }
        let subs: Vec<(u32, u8, u64)> = self.dev.as_ref().map(|d| d.im_state.get().verif_subscriptions().verif_ids().iter().cloned().collect()).unwrap_or_default();
        for (id, fab, peer) in subs {
            let current = fabrics.iter().find(|f| f.idx == fab);
            let made_for = self.subscribed.get(&fab);
            let bad = match (current, made_for) {
                (None, _) => Some("outlives-its-fabric"),
                (Some(f), _) if self.must_be_gone.contains(&(f.idx, f.root, f.fabric_id)) => Some("of-a-fabric-that-was-rolled-back-or-removed-still-alive"),
                (Some(f), Some((root, fid))) if f.root != *root || f.fabric_id != *fid => Some("of-a-removed-fabric-reaches-its-successor"),
                _ => None,
            };
            if let Some(b) = bad {
                self.violations.push((format!("C07:subscription-{}:after-{}", b, op_class(op)), format!("after {:?} the device holds subscription {} of peer {:#x} on fabric index {} (made on {:?}); fabrics now {:?}", op, id, peer, fab, made_for, fabrics.iter().map(|f| (f.idx, f.fabric_id)).collect::<Vec<_>>())));
            }
        }
        // bindings: every entry belongs to an existing fabric, the one whose administrator wrote it
        let settings = self.dev.as_ref().map(settings_of).unwrap_or_default();
        for (fab, node, _, _) in &settings.bindings {
            let current = fabrics.iter().find(|f| f.idx == *fab);
            let made_for = self.binding_of.get(node);
            let bad = match (current, made_for) {
                (None, _) => Some("outlives-its-fabric"),
                (Some(f), _) if self.must_be_gone.contains(&(f.idx, f.root, f.fabric_id)) => Some("of-a-fabric-that-was-rolled-back-or-removed-still-there"),
                (Some(f), Some((_, root, fid))) if f.root != *root || f.fabric_id != *fid => Some("of-a-removed-fabric-reaches-its-successor"),
                _ => None,
            };
            if let Some(b) = bad {
                self.violations.push((format!("C07:binding-{}:after-{}", b, op_class(op)), format!("after {:?} the device holds a binding to node {:#x} under fabric index {} (written for {:?}); fabrics now {:?}", op, node, fab, made_for, fabrics.iter().map(|f| (f.idx, f.fabric_id)).collect::<Vec<_>>())));
            }
        }
        // group settings and access-control entries: a fabric has none that its own administrator did not write
        for f in &fabrics {
            let id = (f.idx, f.root, f.fabric_id);
            if !f.groups.starts_with("[]/[]") && !self.groups_written.contains(&id) {
                self.violations.push((format!("C07:group-settings-of-another-fabric-reach-this-one:after-{}", op_class(op)), format!("after {:?} fabric index {} (fabric id {:#x}) has group settings {} although its administrator never wrote any", op, f.idx, f.fabric_id, f.groups)));
            }
            if f.acl.len() > 1 && !self.acl_written.contains(&id) {
                self.violations.push((format!("C07:access-control-entries-of-another-fabric-reach-this-one:after-{}", op_class(op)), format!("after {:?} fabric index {} (fabric id {:#x}) has {} access-control entries although its administrator wrote none beyond the one AddNOC creates: {:?}", op, f.idx, f.fabric_id, f.acl.len(), f.acl)));
            }
        }
        // sessions of other fabrics are unaffected by a removal
        if let Op::RemoveFabricC(f, g) = op {
            if f != g && self.case_sessions.contains(&f) && fabrics.iter().any(|x| x.idx == f) && !self.case_alive(f) {
                self.violations.push(("C07:removal-took-down-another-fabric's-session".into(), format!("after {:?} the session of fabric {} is gone", op, f)));
            }
        }
    }
}


/// Boot a throw-away device from this key-value content: its fabrics, or why it did not start.
fn boot_config(map: &BTreeMap<u16, Vec<u8>>) -> Result<Vec<FabSummary>, String> {
    boot_config_full(map).map(|x| x.0)
}

/// ... and its node-level settings (bindings, user labels, node label)
fn boot_config_full(map: &BTreeMap<u16, Vec<u8>>) -> Result<(Vec<FabSummary>, Settings), String> {
    let saved = (vclock::now(),);
    let mut exec = Exec::new();
    let net = Net::new(2);
    let kv = RecKv::from_map(map.clone());
    let dev = commdrv::boot(&mut exec, &net, 1, &kv, 999, false);
    exec.run()?;
    let r = match dev.boot_error.borrow().clone() {
        Some(e) => Err(e),
        None => Ok((memory_config(dev.matter.get()), settings_of(&dev))),
    };
    exec.cancel(dev.task);
    drop(exec);
    drop(dev);
    let _ = saved;
    r
}

impl World {
    /// C11: a crash between the store operations of `op` (the log grew from `before` to `after`).
    fn c11_crash_points(&mut self, op: Op, before: usize, after: usize, dirty_before: bool) {
        if after <= before {
            return;
        }
        let log: Vec<crate::common::kv::KvOp> = self.kv.0.borrow().log.clone();
        let empty = BTreeMap::new();
        let cfg_before = boot_config_full(&RecKv::map_at(&empty, &log, before));
        let cfg_after = boot_config_full(&RecKv::map_at(&empty, &log, after));
        for (n, c) in [(before, &cfg_before), (after, &cfg_after)] {
            if let Err(e) = c {
                self.violations.push((format!("C11:node-does-not-start-from-its-own-store:after-{}", op_class(op)), format!("restarting from the store as it was {} {:?} ({} store operations): {}", if n == before { "before" } else { "after" }, op, n, e)));
            }
        }
        for n in before + 1..after {
            match boot_config_full(&RecKv::map_at(&empty, &log, n)) {
                Err(e) => self.violations.push((format!("C11:crash-point-prevents-start-up:during-{}", op_class(op)), format!("a crash after {} of the {} store operations of {:?} leaves a store the node cannot start from: {}", n - before, after - before, op, e))),
                Ok(c) => {
                    // (when a refused write is still in memory - its store failed - the operation's own store calls
                    // flush it too: the parts of the configuration are then judged one by one)
                    let part_ok = |pick: &dyn Fn(&(Vec<FabSummary>, Settings)) -> String| -> bool {
                        let x = pick(&c);
                        cfg_before.as_ref().map(|b| pick(b) == x).unwrap_or(false) || cfg_after.as_ref().map(|a| pick(a) == x).unwrap_or(false)
                    };
                    let by_parts = dirty_before
                        && part_ok(&|v| format!("{:?}", v.0))
                        && part_ok(&|v| format!("{:?}", v.1.user_labels))
                        && part_ok(&|v| v.1.node_label.clone())
                        && (1..=4u8).all(|i| part_ok(&|v| format!("{:?}", v.1.bindings.iter().filter(|b| b.0 == i && c.0.iter().any(|f| f.idx == i)).collect::<Vec<_>>())));
                    if Ok(&c) != cfg_before.as_ref() && Ok(&c) != cfg_after.as_ref() && !by_parts {
                        self.violations.push((format!("C11:crash-point-leaves-a-torn-configuration:during-{}", op_class(op)), format!("a crash after {} of the {} store operations of {:?} comes up with {:?} / {:?}, which is neither the configuration before ({:?}) nor after ({:?})", n - before, after - before, op, c.0.iter().map(|f| (f.idx, f.fabric_id, &f.label, f.acl.len(), &f.groups)).collect::<Vec<_>>(), c.1, cfg_before.as_ref().map(|v| (v.0.iter().map(|f| (f.idx, f.fabric_id)).collect::<Vec<_>>(), &v.1)), cfg_after.as_ref().map(|v| (v.0.iter().map(|f| (f.idx, f.fabric_id)).collect::<Vec<_>>(), &v.1)))));
                    }
                }
            }
        }
        self.c11_crash_points_checked += (after - before) as u64;
        C11_OPS_WITH_STORES.fetch_add(1, std::sync::atomic::Ordering::Relaxed);
        C11_INTERMEDIATE_POINTS.fetch_add((after - before - 1) as u64, std::sync::atomic::Ordering::Relaxed);
    }

    /// C11 checks at the end of a history
    fn c11_final(&mut self) {
        if self.dev.as_ref().map(|d| d.boot_error.borrow().is_some()).unwrap_or(true) {
            return;
        }
        let map = self.kv.map();
        let armed = self.md().with_state(|s| s.verif_failsafe().verif_state().0.is_some());
        // what was written reads back equal
        if !self.memory_dirty && !self.settings_dirty {
            // the node-level settings are written through at once, fail-safe or not
            match boot_config_full(&map) {
                Err(e) => self.violations.push(("C11:node-does-not-start-from-its-own-store".into(), e)),
                Ok((fabs, st)) => {
                    let mut now = self.dev.as_ref().map(settings_of).unwrap_or_default();
                    // (a binding of a fabric that is only pending in memory goes with that fabric: nothing of an
                    // uncommitted change comes back)
                    now.bindings.retain(|b| fabs.iter().any(|f| f.idx == b.0));
                    if st != now {
                        self.violations.push(("C11:persisted-settings-do-not-read-back-equal".into(), format!("in memory {:?}, after a restart {:?}", now, st)));
                    }
                }
            }
        }
        if !armed && !self.memory_dirty {
            match boot_config(&map) {
                Err(e) => self.violations.push(("C11:node-does-not-start-from-its-own-store".into(), e)),
                Ok(c) => {
                    let now = memory_config(self.md());
                    if c != now {
                        let differing: Vec<u8> = now.iter().filter(|f| !c.contains(f)).map(|f| f.idx).chain(c.iter().filter(|f| !now.contains(f)).map(|f| f.idx)).collect();
                        let limbo = self.limbo.filter(|l| differing.iter().all(|d| d == l)).is_some();
                        self.violations.push((format!("C11:persisted-state-does-not-read-back-equal{}", if limbo { ":change-of-the-arming-fabric-before-it-added-another-fabric-over-case" } else { "" }), format!("in memory {:?}, after a restart {:?}", now.iter().map(|f| (f.idx, f.fabric_id, f.node_id, &f.label, &f.acl, &f.groups)).collect::<Vec<_>>(), c.iter().map(|f| (f.idx, f.fabric_id, f.node_id, &f.label, &f.acl, &f.groups)).collect::<Vec<_>>())));
                    }
                }
            }
        }
        // a damaged optional cache never prevents start-up
        let expect = boot_config(&map);
        for (i, blob) in [vec![], vec![0u8], vec![0x15], vec![0x15, 0x18], vec![0x16, 0x18], vec![0x15, 0x36, 0x01], vec![0xff; 64], vec![0x15, 0x36, 0x01, 0x15, 0x24, 0x01, 0x01, 0x18, 0x18, 0x18], vec![0x30, 0xff, 0xff, 0xff, 0xff]].into_iter().enumerate() {
            let mut m = map.clone();
            m.insert(rs_matter::persist::CASE_RESUMPTION_KEY, blob.clone());
            let r = boot_config(&m);
            if r != expect {
                self.violations.push(("C11:damaged-resumption-cache-affects-start-up".into(), format!("resumption blob #{} ({} bytes): start-up gives {:?} instead of {:?}", i, blob.len(), r.as_ref().map(|v| v.len()), expect.as_ref().map(|v| v.len()))));
            }
        }
        // a factory reset leaves nothing behind
        match commdrv::factory_reset(&map) {
            Err(e) => self.violations.push(("C11:factory-reset-failed".into(), e)),
            Ok(left) => {
                if !left.is_empty() {
                    self.violations.push(("C11:factory-reset-leaves-data-behind".into(), format!("keys still stored after the reset: {:?} (the store held {:?})", left.keys().collect::<Vec<_>>(), map.keys().collect::<Vec<_>>())));
                }
            }
        }
    }
}

/// A session-resumption record as a completed CASE handshake leaves it (built through its TLV form:
/// the identifier types are private to the crate).
fn resumption_record(fab: u8, peer: u64, rid: &[u8; 16]) -> Result<rs_matter::sc::case::ResumableSession, String> {
    use rs_matter::tlv::{FromTLV, TLVElement, TLVTag, TLVWrite};
    let mut buf = vec![0u8; 128];
    let mut tw = rs_matter::utils::storage::WriteBuf::new(&mut buf);
    let r: Result<(), rs_matter::error::Error> = (|| {
        tw.start_struct(&TLVTag::Anonymous)?;
        tw.u8(&TLVTag::Context(0), fab)?;
        tw.u64(&TLVTag::Context(1), peer)?;
        tw.start_array(&TLVTag::Context(2))?;
        for _ in 0..3 {
            tw.u32(&TLVTag::Anonymous, 0)?;
        }
        tw.end_container()?;
        tw.str(&TLVTag::Context(3), rid)?;
        tw.str(&TLVTag::Context(4), &[0x5e; 32])?;
        tw.end_container()
    })();
    r.map_err(|e| format!("harness: resumption record TLV: {:?}", e.code()))?;
    rs_matter::sc::case::ResumableSession::from_tlv(&TLVElement::new(tw.as_slice())).map_err(|e| format!("harness: resumption record does not decode: {:?}", e.code()))
}

fn resumption_id_of(r: &rs_matter::sc::case::ResumableSession) -> Vec<u8> {
    (0..=255u8).map(|_| 0).take(0).collect::<Vec<u8>>().into_iter().chain(r.resumption_id.reference().access().iter().copied()).collect()
}

fn op_class(op: Op) -> String {
    let s = format!("{:?}", op);
    s.split('(').next().unwrap_or("").to_string()
}

fn describe_diff(a: &Config, b: &Config) -> String {
    let mut v = Vec::new();
    if a.fabrics != b.fabrics {
        v.push(format!("fabrics in memory: committed {:?} now {:?}", a.fabrics.iter().map(|f| (f.idx, f.fabric_id, f.node_id, &f.label, f.acl.len(), &f.groups, f.noc % 1000)).collect::<Vec<_>>(), b.fabrics.iter().map(|f| (f.idx, f.fabric_id, f.node_id, &f.label, f.acl.len(), &f.groups, f.noc % 1000)).collect::<Vec<_>>()));
    }
    if a.kv != b.kv {
        let keys: Vec<u16> = a.kv.keys().chain(b.kv.keys()).filter(|k| a.kv.get(k) != b.kv.get(k)).copied().collect::<std::collections::BTreeSet<_>>().into_iter().collect();
        v.push(format!("persisted keys that differ: {:?}", keys));
    }
    v.join("; ")
}

/// (state key, violations, enabled ops) after executing a history from a fresh world
fn execute(history: &[Op]) -> Result<(u64, Vec<(String, String)>, Vec<Op>), String> {
    execute_mode(history, 8)
}

/// `c07`: judge C07 (and report only its violations) instead of C08
pub fn execute_mode(history: &[Op], mode: u8) -> Result<(u64, Vec<(String, String)>, Vec<Op>), String> {
    // bit 7 of the mode selects the settings alphabet for the operations that follow this history
    let alphabet = mode >> 7;
    let mode = mode & 0x7f;
    let c07 = mode == 7;
    let mut w = World::new()?;
    w.c07 = c07;
    w.c11 = mode == 11;
    for op in history {
        // (a history may mix the two alphabets: a root reached with the classic one, explored with the other)
        let mut ok = false;
        for a in [0u8, 1] {
            w.alphabet = a;
            ok = ok || w.enabled().contains(op);
        }
        if !ok {
            return Err(format!("history step {:?} is not enabled", op));
        }
        w.apply(*op)?;
    }
    w.alphabet = alphabet;
    if w.dev.as_ref().map(|d| d.boot_error.borrow().is_some()).unwrap_or(true) {
        let prefix = match mode {
            7 => "C07:",
            11 => "C11:",
            _ => "C08:",
        };
        return Ok((digest(&("dead", history.len())), w.violations.into_iter().filter(|(s, _)| s.starts_with(prefix) || s.contains("device-does-not-start")).collect(), vec![]));
    }
    let fs = w.md().with_state(|s| s.verif_failsafe().verif_state());
    let sessions: Vec<(u16, String, bool)> = w.md().with_state(|s| {
        let mut v: Vec<_> = s.verif_sessions().iter().map(|x| (x.get_local_sess_id(), format!("{:?}", x.get_session_mode()), x.verif_flags().1)).collect();
        v.sort();
        v
    });
    let key = digest(&(w.config(), w.committed.clone(), w.model.clone(), fs.0.map(|x| (x.0, x.1)), fs.2, sessions, w.last_csr_key.is_some(), w.next_root, w.kv.0.borrow().fail_attempt.is_some(), w.md().comm_window_state().is_open(), w.memory_dirty, ((w.must_be_gone.clone(), w.limbo, w.arming_fabric_changed, w.dirty_fabs.clone()), (w.dev.as_ref().map(settings_of), w.settings_dirty, w.kv.map().get(&rs_matter::persist::BINDINGS_KEY).map(|v| digest(v)), w.kv.map().get(&rs_matter::persist::USER_LABELS_KEY).map(|v| digest(v)), w.groups_written.clone(), w.acl_written.clone()))));
    let en = w.enabled();
    if std::env::var_os("MC_SHOW_PANICS").is_some() {
        eprintln!("final configuration: {:?}\n settings: {:?}\n last request ok: {}", w.config().fabrics.iter().map(|f| (f.idx, f.fabric_id, &f.label, &f.acl, &f.groups)).collect::<Vec<_>>(), w.dev.as_ref().map(settings_of), w.last_ok);
    }
    if w.c11 {
        w.c11_final();
    }
    let prefix = match mode {
        7 => "C07:",
        11 => "C11:",
        _ => "C08:",
    };
    let v = w.violations.into_iter().filter(|(s, _)| s.starts_with(prefix)).collect();
    Ok((key, v, en))
}

pub struct Bfs {
    pub states: usize,
    pub transitions: u64,
    pub violations: Vec<(Vec<Op>, String, String)>,
    pub capped: bool,
}

/// level-synchronous BFS over histories; every history is executed from scratch on real objects
pub fn bfs(prefix: Vec<Op>, depth: usize, cap: usize, mode: u8) -> Result<Bfs, String> {
    use rayon::prelude::*;
    let run = |h: &Vec<Op>| match common::catch(|| execute_mode(h, mode)) {
        Ok(r) => r,
        Err(p) => Ok((digest(&("panic", h.clone())), vec![(format!("C{:02}:panic:{}", mode & 0x7f, p.class()), p.to_string())], vec![])),
    };
    let (k0, v0, en0) = run(&prefix)?;
    let mut out = Bfs { states: 1, transitions: 0, violations: v0.into_iter().map(|(s, w)| (prefix.clone(), s, w)).collect(), capped: false };
    let mut seen = std::collections::HashSet::new();
    seen.insert(k0);
    let mut frontier: Vec<(Vec<Op>, Vec<Op>)> = vec![(prefix, en0)];
    for _ in 0..depth {
        let children: Vec<Vec<Op>> = frontier
            .iter()
            .flat_map(|(h, en)| {
                en.iter().map(move |op| {
                    let mut c = h.clone();
                    c.push(*op);
                    c
                })
            })
            .collect();
        let results: Vec<Result<(u64, Vec<(String, String)>, Vec<Op>), String>> = children.par_iter().map(run).collect();
        let mut next = Vec::new();
        for (h, r) in children.into_iter().zip(results) {
            let (k, v, en) = r?;
            out.transitions += 1;
            for (s, w) in v {
                out.violations.push((h.clone(), s, w));
            }
            if seen.insert(k) {
                out.states += 1;
                if out.states >= cap {
                    out.capped = true;
                } else {
                    next.push((h, en));
                }
            }
        }
        frontier = next;
        if frontier.is_empty() || out.capped {
            break;
        }
    }
    Ok(out)
}

/// Roots of the exploration with the settings alphabet: (name, history, depth class 0 = full / 1 = reduced)
pub fn settings_roots(with_bindings: bool) -> Vec<(&'static str, Vec<Op>, u8)> {
    let mut v = Vec::new();
    v.push(("settings:one-fabric-commissioned", honest_prefix(), 0));
    let mut keyed = honest_prefix();
    keyed.extend([Op::GroupKeyC(1), Op::GroupMapC(1)]);
    v.push(("settings:key-set-and-group-key-map-written", keyed.clone(), 0));
    let mut full = keyed.clone();
    full.push(Op::AddGroupC(1));
    if with_bindings {
        full.push(Op::BindingC(1));
    }
    full.extend([Op::AclC(1), Op::OpenWindowC(1), Op::ArmP, Op::CsrP, Op::RootP]);
    v.push(("settings:all-written-and-the-next-commissioning-prepared", full, 1));
    v.push(("settings:first-fabric-pending-under-the-fail-safe", vec![Op::ArmP, Op::CsrP, Op::RootP, Op::AddNocP], 1));
    if with_bindings {
        let mut two = honest_prefix();
        two.extend([Op::OpenWindowC(1), Op::ArmP, Op::CsrP, Op::RootP, Op::AddNocP, Op::CompleteC(2), Op::BindingC(1), Op::BindingC(2)]);
        v.push(("settings:two-fabrics-with-bindings", two, 1));
    }
    v
}

pub fn honest_prefix() -> Vec<Op> {
    vec![Op::ArmP, Op::CsrP, Op::RootP, Op::AddNocP, Op::CompleteC(1)]
}

pub fn parse_op(s: &str) -> Option<Op> {
    let all = [Op::ArmP, Op::Arm0P, Op::CsrP, Op::RootP, Op::AddNocP, Op::CompleteP, Op::Tick, Op::Restart, Op::FailNextStore, Op::FailSecondStore];
    for o in all {
        if format!("{:?}", o) == s {
            return Some(o);
        }
    }
    for f in 1..=4u8 {
        for g in 1..=4u8 {
            if format!("{:?}", Op::RemoveFabricC(f, g)) == s {
                return Some(Op::RemoveFabricC(f, g));
            }
        }
        for o in [Op::ArmC(f), Op::Arm0C(f), Op::CsrUpdC(f), Op::UpdNocC(f), Op::AclC(f), Op::LabelC(f), Op::VidStmtC(f), Op::CompleteC(f), Op::OpenWindowC(f), Op::RevokeC(f), Op::GroupKeyC(f), Op::CsrC(f), Op::RootC(f), Op::AddNocC(f), Op::GroupMapC(f), Op::AddGroupC(f), Op::BindingC(f), Op::NodeLabelC(f), Op::UserLabelC(f), Op::KeySetRemoveC(f), Op::RemoveAllGroupsC(f)] {
            if format!("{:?}", o) == s {
                return Some(o);
            }
        }
    }
    None
}

pub fn run_check(ctx: &Ctx) -> i32 {
    if let Some(p) = &ctx.replay {
        let doc: Value = serde_json::from_str(&std::fs::read_to_string(p).expect("replay file")).expect("json");
        std::env::set_var("MC_SHOW_PANICS", "1");
        let hist: Vec<Op> = doc["replay"]["history"].as_array().unwrap().iter().filter_map(|s| parse_op(s.as_str().unwrap_or(""))).collect();
        let mut report = Report::new();
        match execute(&hist) {
            Err(e) => {
                eprintln!("MACHINERY: {}", e);
                return 2;
            }
            Ok((_, v, _)) => {
                for (sig, what) in v {
                    println!("  {} {}", sig, what);
                    report.violation(sig, what, doc["replay"].clone());
                }
            }
        }
        return common::finish(ctx, report, Evidence::new("model_checking"));
    }
    let depth = if ctx.tier == Tier::Quick { 5 } else { 8 };
    let mut report = Report::new();
    let mut total_states = 0usize;
    let mut total_transitions = 0u64;
    let mut per_root = Vec::new();
    // also from the middle of a commissioning: a NOC added / updated under the fail-safe, nothing committed yet
    let pending_first = vec![Op::ArmP, Op::CsrP, Op::RootP, Op::AddNocP];
    let mut pending_update = honest_prefix();
    pending_update.extend([Op::ArmC(1), Op::CsrUpdC(1), Op::UpdNocC(1)]);
    let d2 = depth - 2;
    for (name, prefix, d) in [("factory-fresh", vec![], depth), ("one-fabric-commissioned", honest_prefix(), depth), ("first-fabric-pending-under-the-fail-safe", pending_first, d2), ("noc-update-pending-under-the-fail-safe", pending_update, d2)] {
        let r = match bfs(prefix.clone(), d, if ctx.tier == Tier::Quick { 6_000 } else { 400_000 }, 8) {
            Ok(r) => r,
            Err(e) => {
                eprintln!("MACHINERY: {}", e);
                return 2;
            }
        };
        for (h, sig, what) in r.violations {
            report.violation(sig, format!("history {:?}: {}", h, what), json!({"history": h.iter().map(|o| format!("{:?}", o)).collect::<Vec<_>>()}));
        }
        total_states += r.states;
        total_transitions += r.transitions;
        per_root.push(json!({"root": name, "states": r.states, "transitions": r.transitions, "depth": d, "capped": r.capped}));
    }
    let (sd0, sd1) = if ctx.tier == Tier::Quick { (5, 4) } else { (7, 6) };
    for (name, prefix, class) in settings_roots(false) {
        let d = if class == 0 { sd0 } else { sd1 };
        let r = match bfs(prefix.clone(), d, if ctx.tier == Tier::Quick { 6_000 } else { 400_000 }, 8 | 0x80) {
            Ok(r) => r,
            Err(e) => {
                eprintln!("MACHINERY: {}", e);
                return 2;
            }
        };
        for (h, sig, what) in r.violations {
            report.violation(sig, format!("history {:?}: {}", h, what), json!({"history": h.iter().map(|o| format!("{:?}", o)).collect::<Vec<_>>()}));
        }
        total_states += r.states;
        total_transitions += r.transitions;
        per_root.push(json!({"root": name, "states": r.states, "transitions": r.transitions, "depth": d, "capped": r.capped}));
    }
    let mut ev = Evidence::new("model_checking");
    ev.set("states", json!(total_states))
        .set("transitions", json!(total_transitions))
        .set("traces_validated_against_impl", json!(total_transitions))
        .set("exhaustive", json!(true))
        .set("depth", json!(depth))
        .set("roots", Value::Array(per_root))
        .set("samples", json!([{"history": honest_prefix().iter().map(|o| format!("{:?}", o)).collect::<Vec<_>>()}]))
        .set("rule", json!(format!("every history of at most {} operations over the alphabet (ArmFailSafe 60 s / 0 s over PASE / CASE, CSRRequest add / update, AddTrustedRootCertificate, AddNOC, UpdateNOC, ACL write, UpdateFabricLabel, CommissioningComplete right / wrong context, OpenBasicCommissioningWindow, RevokeCommissioning, 61 s pass, restart, next store operation fails), from a factory-fresh node and from a node with one commissioned fabric, and two operations fewer from the middle of a commissioning (NOC added / NOC updated, not completed); the alphabet also has SetVIDVerificationStatement, RemoveFabric and a group key set write; a second exploration with the settings alphabet (ArmFailSafe 60 s / 0 s, CommissioningComplete, ACL write, KeySetWrite, GroupKeyMap write, Groups::AddGroup, RemoveFabric, the credential commands over PASE, 61 s pass, restart, store failures) from a commissioned fabric, from one with a key set and key map, from one with all settings written and a further commissioning prepared, and from a first fabric pending under the fail-safe (the group settings of a fabric are part of what commits / rolls back with it); states deduplicated on (configuration in memory, persisted blobs, committed configuration, fail-safe state, sessions, harness bookkeeping)", depth)));
    ev.assume("operational sessions are set up by the harness (pre-established keys) right after AddNOC and after a restart; CASE itself is C01's subject");
    ev.assume("network credentials: the Ethernet build has none to add; the persisted networks blob is part of the compared configuration");
    if report.violations.is_empty() && (total_states < 20) {
        eprintln!("MACHINERY: vacuous C08 run ({} states)", total_states);
        return 2;
    }
    common::finish(ctx, report, ev)
}
