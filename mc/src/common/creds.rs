//! Fabric credential minting with the repo's public generators (RCAC / ICAC / NOC), over a
//! deterministic crypto backend, plus installation into a `Matter` fabric table.

use core::num::NonZeroU8;

use rs_matter::cert::gen::Validity;
use rs_matter::cert::MAX_CERT_TLV_AND_ASN1_LEN;
use rs_matter::crypto::{CanonAeadKey, CanonPkcSecretKey, Crypto, SecretKey, SigningSecretKey};
use rs_matter::error::Error;
use rs_matter::onboard::cac::{IcacGenerator, RcacGenerator};
use rs_matter::onboard::noc::NocGenerator;
use rs_matter::Matter;

#[derive(Clone)]
pub struct FabricMaterial {
    pub fabric_id: u64,
    pub rcac: Vec<u8>,
    pub rcac_key: CanonPkcSecretKey,
    pub icac: Vec<u8>,
    pub icac_key: Option<CanonPkcSecretKey>,
    pub ipk: CanonAeadKey,
}

#[derive(Clone)]
pub struct NodeCreds {
    pub node_id: u64,
    pub noc: Vec<u8>,
    pub secret: CanonPkcSecretKey,
    pub cats: Vec<u32>,
}

pub fn mint_fabric<C: Crypto>(crypto: &C, fabric_id: u64, with_icac: bool, validity: Validity, ipk_byte: u8) -> Result<FabricMaterial, Error> {
    let mut rcac_buf = vec![0u8; MAX_CERT_TLV_AND_ASN1_LEN];
    let (rcac_key, rcac) = {
        let mut g = RcacGenerator::new(&mut rcac_buf);
        let (k, c) = g.generate(crypto, fabric_id, validity)?;
        (k, c.to_vec())
    };
    let (icac, icac_key) = if with_icac {
        let mut buf = vec![0u8; MAX_CERT_TLV_AND_ASN1_LEN];
        let mut g = IcacGenerator::new(&mut buf);
        let (k, c) = g.generate(crypto, rcac_key.reference(), &rcac, validity)?;
        (c.to_vec(), Some(k))
    } else {
        (Vec::new(), None)
    };
    let mut ipk = CanonAeadKey::new();
    ipk.load_from_array(&[ipk_byte; 16]);
    Ok(FabricMaterial { fabric_id, rcac, rcac_key, icac, icac_key, ipk })
}

/// Mint an operational certificate for `node_id`. `signer` overrides the CA key that signs it
/// (a look-alike authority) while the issuer names stay those of the fabric's real CA.
pub fn mint_noc<C: Crypto>(
    crypto: &C,
    fab: &FabricMaterial,
    node_id: u64,
    cats: &[u32],
    validity: Validity,
    signer: Option<&CanonPkcSecretKey>,
) -> Result<NodeCreds, Error> {
    let secret_key = crypto.generate_secret_key()?;
    let mut csr_buf = [0u8; 256];
    let csr = secret_key.csr(&mut csr_buf)?;
    let mut secret = CanonPkcSecretKey::new();
    secret_key.write_canon(&mut secret)?;
    let ca_key = match signer {
        Some(k) => k,
        None => fab.icac_key.as_ref().unwrap_or(&fab.rcac_key),
    };
    let mut buf = vec![0u8; MAX_CERT_TLV_AND_ASN1_LEN];
    let mut g = NocGenerator::create(ca_key.reference(), &fab.rcac, &fab.icac, &mut buf)?;
    let noc = g.generate(crypto, csr, node_id, cats, validity)?.to_vec();
    Ok(NodeCreds { node_id, noc, secret, cats: cats.to_vec() })
}

/// Install the fabric with these credentials; returns the local fabric index.
pub fn install<C: Crypto>(matter: &Matter<'_>, crypto: &C, fab: &FabricMaterial, me: &NodeCreds, admin_subject: u64) -> Result<NonZeroU8, Error> {
    matter.with_state(|state| {
        Ok(state
            .fabrics
            .add(crypto, me.secret.reference(), &fab.rcac, &me.noc, &fab.icac, Some(fab.ipk.reference()), 0xFFF1, admin_subject)?
            .fab_idx())
    })
}
