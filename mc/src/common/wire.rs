//! Harness-side view of Matter datagrams on the wire (independent of the code under test):
//! plain header, unsecured protocol header, and a minimal TLV walker used to locate fields for
//! single-field mutations.

#[derive(Clone, Debug)]
pub struct Plain {
    pub flags: u8,
    pub sess_id: u16,
    pub sec_flags: u8,
    pub ctr: u32,
    pub src: Option<u64>,
    /// offset of the first byte after the plain header
    pub end: usize,
}

pub fn parse_plain(d: &[u8]) -> Option<Plain> {
    if d.len() < 8 {
        return None;
    }
    let flags = d[0];
    let sess_id = u16::from_le_bytes([d[1], d[2]]);
    let sec_flags = d[3];
    let ctr = u32::from_le_bytes([d[4], d[5], d[6], d[7]]);
    let mut off = 8;
    let mut src = None;
    if flags & 0x04 != 0 {
        src = Some(u64::from_le_bytes(d.get(off..off + 8)?.try_into().ok()?));
        off += 8;
    }
    match flags & 0x03 {
        1 => off += 8,
        2 => off += 2,
        _ => {}
    }
    if off > d.len() {
        return None;
    }
    Some(Plain { flags, sess_id, sec_flags, ctr, src, end: off })
}

#[derive(Clone, Debug)]
pub struct Proto {
    pub exch_flags: u8,
    pub opcode: u8,
    pub exch_id: u16,
    pub proto_id: u16,
    pub ack: Option<u32>,
    /// offset (in the datagram) of the application payload
    pub payload: usize,
}

/// Parse the (unencrypted) protocol header of an unsecured-session datagram.
pub fn parse_proto(d: &[u8], plain: &Plain) -> Option<Proto> {
    let mut off = plain.end;
    let exch_flags = *d.get(off)?;
    let opcode = *d.get(off + 1)?;
    let exch_id = u16::from_le_bytes([*d.get(off + 2)?, *d.get(off + 3)?]);
    let proto_id = u16::from_le_bytes([*d.get(off + 4)?, *d.get(off + 5)?]);
    off += 6;
    if exch_flags & 0x10 != 0 {
        off += 2;
    }
    let mut ack = None;
    if exch_flags & 0x02 != 0 {
        ack = Some(u32::from_le_bytes(d.get(off..off + 4)?.try_into().ok()?));
        off += 4;
    }
    if off > d.len() {
        return None;
    }
    Some(Proto { exch_flags, opcode, exch_id, proto_id, ack, payload: off })
}

/// Total encoded length of the TLV element starting at `b[0]` (including nested content and the
/// end-of-container byte), or None if malformed / truncated.
pub fn tlv_len(b: &[u8]) -> Option<usize> {
    let control = *b.first()?;
    let tag_len = match control >> 5 {
        0 => 0,
        1 => 1,
        2 | 4 => 2,
        3 | 5 => 4,
        6 => 6,
        _ => 8,
    };
    let vt = control & 0x1f;
    let hdr = 1 + tag_len;
    let total = match vt {
        0 | 4 => hdr + 1,
        1 | 5 => hdr + 2,
        2 | 6 | 0x0a => hdr + 4,
        3 | 7 | 0x0b => hdr + 8,
        8 | 9 | 0x14 => hdr,
        0x0c..=0x13 => {
            let w = 1usize << ((vt - 0x0c) % 4);
            let lb = b.get(hdr..hdr + w)?;
            let mut l = 0u64;
            for (i, x) in lb.iter().enumerate() {
                l |= (*x as u64) << (8 * i);
            }
            hdr.checked_add(w)?.checked_add(usize::try_from(l).ok()?)?
        }
        0x15..=0x17 => {
            let mut off = hdr;
            loop {
                if *b.get(off)? == 0x18 {
                    off += 1;
                    break;
                }
                off += tlv_len(&b[off..])?;
            }
            off
        }
        _ => return None,
    };
    if total > b.len() {
        return None;
    }
    Some(total)
}

/// The elements directly inside the anonymous top-level structure at `b`: (context tag, start, end,
/// value start) offsets relative to `b`.
pub fn top_fields(b: &[u8]) -> Vec<(u8, usize, usize, usize)> {
    let mut out = Vec::new();
    if b.first() != Some(&0x15) {
        return out;
    }
    let mut off = 1;
    while off < b.len() && b[off] != 0x18 {
        let Some(l) = tlv_len(&b[off..]) else { break };
        let control = b[off];
        let tag = if control >> 5 == 1 { b[off + 1] } else { 0xff };
        let tag_len = match control >> 5 {
            0 => 0,
            1 => 1,
            2 | 4 => 2,
            3 | 5 => 4,
            6 => 6,
            _ => 8,
        };
        let vt = control & 0x1f;
        let lenw = if (0x0c..=0x13).contains(&vt) { 1usize << ((vt - 0x0c) % 4) } else { 0 };
        out.push((tag, off, off + l, off + 1 + tag_len + lenw));
        off += l;
    }
    out
}

/// Build an encrypted unicast datagram the way a peer owning `key` would (harness-side header
/// layout, the repo's AEAD only for the final sealing step).
#[allow(clippy::too_many_arguments)]
pub fn craft_secure(
    key: &rs_matter::crypto::CanonAeadKey,
    sess_id: u16,
    ctr: u32,
    nonce_node: u64,
    exch_flags: u8,
    opcode: u8,
    exch_id: u16,
    proto_id: u16,
    ack: Option<u32>,
    payload: &[u8],
) -> Vec<u8> {
    craft_secure_src(key, sess_id, ctr, nonce_node, None, exch_flags, opcode, exch_id, proto_id, ack, payload)
}

/// As `craft_secure`, optionally with a Source Node ID field in the unencrypted header.
#[allow(clippy::too_many_arguments)]
pub fn craft_secure_src(
    key: &rs_matter::crypto::CanonAeadKey,
    sess_id: u16,
    ctr: u32,
    nonce_node: u64,
    header_src: Option<u64>,
    exch_flags: u8,
    opcode: u8,
    exch_id: u16,
    proto_id: u16,
    ack: Option<u32>,
    payload: &[u8],
) -> Vec<u8> {
    use rs_matter::utils::storage::WriteBuf;
    let mut plain = vec![if header_src.is_some() { 0x04u8 } else { 0 }];
    plain.extend_from_slice(&sess_id.to_le_bytes());
    plain.push(0);
    plain.extend_from_slice(&ctr.to_le_bytes());
    if let Some(src) = header_src {
        plain.extend_from_slice(&src.to_le_bytes());
    }
    let mut body = vec![exch_flags | if ack.is_some() { 0x02 } else { 0 }, opcode];
    body.extend_from_slice(&exch_id.to_le_bytes());
    body.extend_from_slice(&proto_id.to_le_bytes());
    if let Some(a) = ack {
        body.extend_from_slice(&a.to_le_bytes());
    }
    body.extend_from_slice(payload);
    let mut buf = vec![0u8; body.len() + 32];
    let mut wb = WriteBuf::new(&mut buf);
    wb.append(&body).unwrap();
    let c = super::nodes::crypto(super::rng::SeededRng::new(1));
    rs_matter::transport::proto_hdr::encrypt_in_place(&c, key.reference(), 0, ctr, nonce_node, &plain, &mut wb).unwrap();
    let mut out = plain;
    out.extend_from_slice(wb.as_slice());
    out
}

/// An unsecured (session 0) message as a peer without a session would send it.
pub fn craft_plain(src_node: u64, ctr: u32, exch_flags: u8, opcode: u8, exch_id: u16, proto_id: u16, payload: &[u8]) -> Vec<u8> {
    let mut v = vec![0x04u8, 0, 0, 0];
    v.extend_from_slice(&ctr.to_le_bytes());
    v.extend_from_slice(&src_node.to_le_bytes());
    v.push(exch_flags);
    v.push(opcode);
    v.extend_from_slice(&exch_id.to_le_bytes());
    v.extend_from_slice(&proto_id.to_le_bytes());
    v.extend_from_slice(payload);
    v
}
