//! Shared machinery: CLI context, violation reporting (replay files, known findings),
//! evidence writer, small deterministic helpers.

use std::collections::BTreeMap;
use std::hash::{Hash, Hasher};
use std::path::PathBuf;
use std::time::Instant;

use serde_json::{json, Value};

pub mod e2;
pub mod vclock;
pub mod imdrv;
pub mod kv;
pub mod rng;
pub mod sim;
pub mod nodes;
pub mod certw;
pub mod commdrv;
pub mod creds;
pub mod wire;
pub mod e1;

pub const VERIF_DIR: &str = "/verif";

#[derive(Clone, Copy, PartialEq, Eq, Debug)]
pub enum Tier {
    Quick,
    Thorough,
}

impl Tier {
    pub fn as_str(&self) -> &'static str {
        match self {
            Tier::Quick => "quick",
            Tier::Thorough => "thorough",
        }
    }
}

pub struct Ctx {
    pub prop: String,
    /// tier that selects the catalogs
    pub tier: Tier,
    /// tier named on the command line (what the evidence reports)
    pub label: Tier,
    pub seed: u64,
    pub replay: Option<PathBuf>,
    pub start: Instant,
    pub extra: Vec<String>,
}

/// Deterministic 64-bit digest (SipHash with fixed keys).
impl Ctx {
    /// The thorough tier was asked for on the command line (extended sweeps of the checks whose quick tier
    /// already runs the complete catalog).
    pub fn deep(&self) -> bool {
        self.label == Tier::Thorough
    }
}

pub fn digest<T: Hash>(t: &T) -> u64 {
    #[allow(deprecated)]
    let mut h = std::hash::SipHasher::new_with_keys(0x5eed, 0xfeed);
    t.hash(&mut h);
    h.finish()
}

pub fn hex(b: &[u8]) -> String {
    let mut s = String::with_capacity(b.len() * 2);
    for x in b {
        s.push_str(&format!("{:02x}", x));
    }
    s
}

pub fn unhex(s: &str) -> Vec<u8> {
    (0..s.len() / 2)
        .map(|i| u8::from_str_radix(&s[2 * i..2 * i + 2], 16).unwrap())
        .collect()
}

/// One violation class found by a check.
#[derive(Clone, Debug)]
pub struct Violation {
    /// Canonical signature of the failing input/history *class*; matched against known findings.
    pub signature: String,
    /// Human description of the first (minimal) witness.
    pub what: String,
    /// Harness-specific replay data of the first witness.
    pub replay: Value,
    /// Number of witnesses in this class.
    pub count: u64,
}

#[derive(Default)]
pub struct Report {
    /// signature -> violation (first witness kept: enumeration orders are simplest-first)
    pub violations: BTreeMap<String, Violation>,
}

impl Report {
    pub fn new() -> Self {
        Self::default()
    }

    pub fn violation(&mut self, signature: impl Into<String>, what: impl Into<String>, replay: Value) {
        let signature = signature.into();
        let e = self.violations.entry(signature.clone()).or_insert_with(|| Violation {
            signature,
            what: what.into(),
            replay,
            count: 0,
        });
        e.count += 1;
    }

    /// (signature, description) of every class
    pub fn classes(&self) -> Vec<(String, String)> {
        self.violations.values().map(|v| (v.signature.clone(), v.what.clone())).collect()
    }

    pub fn merge(&mut self, other: Report) {
        for (k, v) in other.violations {
            match self.violations.get_mut(&k) {
                Some(e) => e.count += v.count,
                None => {
                    self.violations.insert(k, v);
                }
            }
        }
    }
}

pub struct Evidence {
    pub level: &'static str,
    pub coverage: serde_json::Map<String, Value>,
    pub assumptions: Vec<String>,
}

impl Evidence {
    pub fn new(level: &'static str) -> Self {
        Self {
            level,
            coverage: serde_json::Map::new(),
            assumptions: Vec::new(),
        }
    }
    pub fn set(&mut self, k: &str, v: Value) -> &mut Self {
        self.coverage.insert(k.to_string(), v);
        self
    }
    pub fn assume(&mut self, s: &str) -> &mut Self {
        self.assumptions.push(s.to_string());
        self
    }
}

struct Known {
    signature: String,
    what: String,
}

fn load_known(prop: &str) -> Vec<Known> {
    let path = format!("{}/known_findings.json", VERIF_DIR);
    let Ok(s) = std::fs::read_to_string(&path) else {
        return Vec::new();
    };
    let v: Value = match serde_json::from_str(&s) {
        Ok(v) => v,
        Err(e) => {
            eprintln!("MACHINERY: cannot parse {}: {}", path, e);
            std::process::exit(2);
        }
    };
    let mut out = Vec::new();
    if let Some(a) = v.get("findings").and_then(|f| f.as_array()) {
        for f in a {
            if f.get("property").and_then(|p| p.as_str()) == Some(prop) {
                out.push(Known {
                    signature: f["signature"].as_str().unwrap_or("").to_string(),
                    what: f["what"].as_str().unwrap_or("").to_string(),
                });
            }
        }
    }
    out
}

/// Finish a check: print verdict lines, write replay files and the evidence file.
/// Returns the process exit code (0 held / only known findings, 1 new violation).
pub fn finish(ctx: &Ctx, report: Report, mut ev: Evidence) -> i32 {
    let known = load_known(&ctx.prop);
    let mut new_violations = 0u64;
    let mut known_hits = 0u64;
    // MC_OUT_DIR: development runs write their replays and evidence elsewhere
    let out_dir = std::env::var("MC_OUT_DIR").unwrap_or_else(|_| VERIF_DIR.to_string());
    let replay_dir = format!("{}/replays", out_dir);
    let _ = std::fs::create_dir_all(&replay_dir);
    let mut viol_list = Vec::new();
    for v in report.violations.values() {
        if let Some(k) = known.iter().find(|k| k.signature == v.signature) {
            println!(
                "KNOWN-FINDING: property={} signature={} {} (witnesses this run: {}; first: {})",
                ctx.prop, k.signature, k.what, v.count, v.what
            );
            known_hits += 1;
            viol_list.push(json!({"signature": v.signature, "known": true, "count": v.count, "first": v.what}));
            continue;
        }
        new_violations += 1;
        let path = format!(
            "{}/{}-{:016x}.json",
            replay_dir,
            ctx.prop,
            digest(&v.signature)
        );
        let doc = json!({
            "property": ctx.prop,
            "signature": v.signature,
            "what": v.what,
            "witnesses_in_class": v.count,
            "replay": v.replay,
        });
        if let Err(e) = std::fs::write(&path, serde_json::to_string_pretty(&doc).unwrap()) {
            eprintln!("MACHINERY: cannot write replay {}: {}", path, e);
        }
        println!("  signature={} witnesses={} first: {}", v.signature, v.count, v.what);
        println!("VIOLATION property={} replay={}", ctx.prop, path);
        viol_list.push(json!({"signature": v.signature, "known": false, "count": v.count, "first": v.what, "replay": path}));
    }
    ev.coverage.insert("violation_classes".into(), Value::Array(viol_list));
    ev.coverage.insert("known_findings_hit".into(), json!(known_hits));
    let wall = ctx.start.elapsed().as_secs_f64();
    let doc = json!({
        "property_id": ctx.prop,
        "tier": ctx.label.as_str(),
        "seed": ctx.seed,
        "level": ev.level,
        "coverage": Value::Object(ev.coverage),
        "assumptions": ev.assumptions,
        "wall_s": wall,
        "violations": new_violations,
    });
    let evdir = format!("{}/evidence", out_dir);
    let _ = std::fs::create_dir_all(&evdir);
    let evpath = format!("{}/{}.json", evdir, ctx.prop);
    if ctx.replay.is_none() {
        if let Err(e) = std::fs::write(&evpath, serde_json::to_string_pretty(&doc).unwrap()) {
            eprintln!("MACHINERY: cannot write evidence {}: {}", evpath, e);
            return 2;
        }
    }
    println!(
        "{} tier={} wall={:.1}s new_violation_classes={} known_findings_hit={}",
        ctx.prop,
        ctx.label.as_str(),
        wall,
        new_violations,
        known_hits
    );
    if new_violations > 0 {
        1
    } else {
        0
    }
}

thread_local! {
    static LAST_PANIC: std::cell::RefCell<Option<(String, u32, String)>> = const { std::cell::RefCell::new(None) };
}

/// A panic observed inside the subject.
#[derive(Clone, Debug)]
pub struct Panic {
    pub file: String,
    pub line: u32,
    pub msg: String,
}

impl Panic {
    /// Stable class for signatures: kind of panic + source file (no line numbers: they move).
    pub fn class(&self) -> String {
        let f = self.file.rsplit("rs-matter/src/").next().unwrap_or(&self.file);
        format!("{}@{}", panic_class(&self.msg), f)
    }
}

impl std::fmt::Display for Panic {
    fn fmt(&self, f: &mut std::fmt::Formatter<'_>) -> std::fmt::Result {
        write!(f, "panic at {}:{}: {}", self.file, self.line, self.msg)
    }
}

/// Run `f`, converting a panic into `Err(Panic)`. Used around every call into the subject.
pub fn catch<R>(f: impl FnOnce() -> R) -> Result<R, Panic> {
    match std::panic::catch_unwind(std::panic::AssertUnwindSafe(f)) {
        Ok(r) => Ok(r),
        Err(e) => {
            let payload = if let Some(s) = e.downcast_ref::<&str>() {
                s.to_string()
            } else if let Some(s) = e.downcast_ref::<String>() {
                s.clone()
            } else {
                "panic".to_string()
            };
            let (file, line, msg) = LAST_PANIC
                .with(|l| l.borrow_mut().take())
                .unwrap_or_else(|| ("?".into(), 0, payload.clone()));
            Err(Panic { file, line, msg })
        }
    }
}

/// Silence the default panic hook (panics are observations here) and record location + message.
pub fn quiet_panics() {
    std::panic::set_hook(Box::new(|info| {
        let (file, line) = info
            .location()
            .map(|l| (l.file().to_string(), l.line()))
            .unwrap_or(("?".into(), 0));
        let msg = if let Some(s) = info.payload().downcast_ref::<&str>() {
            s.to_string()
        } else if let Some(s) = info.payload().downcast_ref::<String>() {
            s.clone()
        } else {
            "panic".to_string()
        };
        if std::env::var_os("MC_SHOW_PANICS").is_some() {
            eprintln!("panic at {}:{}: {}", file, line, msg);
        }
        LAST_PANIC.with(|l| *l.borrow_mut() = Some((file, line, msg)));
    }));
}

/// Classify a panic message into a stable short class for signatures.
pub fn panic_class(msg: &str) -> &'static str {
    if msg.contains("add with overflow") {
        "add-overflow"
    } else if msg.contains("subtract with overflow") {
        "sub-overflow"
    } else if msg.contains("multiply with overflow") {
        "mul-overflow"
    } else if msg.contains("shift") && msg.contains("overflow") {
        "shift-overflow"
    } else if msg.contains("divide by zero") || msg.contains("remainder with a divisor of zero") {
        "div-by-zero"
    } else if msg.contains("overflow") {
        "arith-overflow"
    } else if msg.contains("out of range") || msg.contains("out of bounds") || msg.contains("index") {
        "oob"
    } else if msg.contains("unwrap") || msg.contains("expect") {
        "unwrap"
    } else {
        "panic"
    }
}
