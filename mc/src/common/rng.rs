//! Deterministic RNG (SplitMix64) implementing `CryptoRngCore`, optionally scripted so that the
//! first draws return chosen values (used to place random counters next to boundaries).

use std::cell::RefCell;
use std::collections::VecDeque;
use std::rc::Rc;

use rand_core::{CryptoRng, RngCore};

#[derive(Clone)]
pub struct SeededRng {
    state: Rc<RefCell<(u64, VecDeque<u32>)>>,
}

impl SeededRng {
    pub fn new(seed: u64) -> Self {
        Self { state: Rc::new(RefCell::new((seed, VecDeque::new()))) }
    }

    /// Make the next `next_u32` calls return these values (in order) before falling back.
    pub fn script_u32(&self, v: &[u32]) {
        self.state.borrow_mut().1.extend(v.iter().copied());
    }

    fn step(&self) -> u64 {
        let mut s = self.state.borrow_mut();
        s.0 = s.0.wrapping_add(0x9E37_79B9_7F4A_7C15);
        let mut z = s.0;
        z = (z ^ (z >> 30)).wrapping_mul(0xBF58_476D_1CE4_E5B9);
        z = (z ^ (z >> 27)).wrapping_mul(0x94D0_49BB_1331_11EB);
        z ^ (z >> 31)
    }
}

impl RngCore for SeededRng {
    fn next_u32(&mut self) -> u32 {
        if let Some(v) = self.state.borrow_mut().1.pop_front() {
            return v;
        }
        self.step() as u32
    }

    fn next_u64(&mut self) -> u64 {
        self.step()
    }

    fn fill_bytes(&mut self, dest: &mut [u8]) {
        for chunk in dest.chunks_mut(8) {
            let v = self.step().to_le_bytes();
            chunk.copy_from_slice(&v[..chunk.len()]);
        }
    }

    fn try_fill_bytes(&mut self, dest: &mut [u8]) -> Result<(), rand_core::Error> {
        self.fill_bytes(dest);
        Ok(())
    }
}

impl CryptoRng for SeededRng {}
