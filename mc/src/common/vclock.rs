//! Virtual clock: a thread-local embassy time driver. Time never advances by itself; the
//! explorer moves it. `Instant::now()` inside rs-matter is a pure function of the decisions.

use std::cell::RefCell;
use std::task::Waker;

struct Clk {
    now: u64,
    timers: Vec<(u64, Waker)>,
}

thread_local! {
    static CLK: RefCell<Clk> = RefCell::new(Clk { now: 1_000_000, timers: Vec::new() });
}

struct VDriver;

impl embassy_time_driver::Driver for VDriver {
    fn now(&self) -> u64 {
        CLK.with(|c| c.borrow().now)
    }

    fn schedule_wake(&self, at: u64, waker: &Waker) {
        CLK.with(|c| {
            let mut c = c.borrow_mut();
            if at <= c.now {
                drop(c);
                waker.wake_by_ref();
                return;
            }
            if let Some(e) = c.timers.iter_mut().find(|(_, w)| w.will_wake(waker)) {
                if at < e.0 {
                    e.0 = at;
                }
            } else {
                c.timers.push((at, waker.clone()));
            }
        })
    }
}

embassy_time_driver::time_driver_impl!(static DRIVER: VDriver = VDriver);

/// Ticks are microseconds (embassy default tick rate 1 MHz).
pub const TICKS_PER_MS: u64 = 1000;

pub fn reset(start_us: u64) {
    CLK.with(|c| {
        let mut c = c.borrow_mut();
        c.now = start_us;
        c.timers.clear();
    })
}

pub fn now() -> u64 {
    CLK.with(|c| c.borrow().now)
}

pub fn now_ms() -> u64 {
    now() / TICKS_PER_MS
}

/// Earliest pending alarm (absolute ticks), if any.
pub fn next_deadline() -> Option<u64> {
    CLK.with(|c| c.borrow().timers.iter().map(|(at, _)| *at).min())
}

/// Move the clock forward to `t` (never backwards) and wake every alarm that is due.
pub fn advance_to(t: u64) {
    let due: Vec<Waker> = CLK.with(|c| {
        let mut c = c.borrow_mut();
        if t > c.now {
            c.now = t;
        }
        let now = c.now;
        let mut due = Vec::new();
        let mut i = 0;
        while i < c.timers.len() {
            if c.timers[i].0 <= now {
                due.push(c.timers.swap_remove(i).1);
            } else {
                i += 1;
            }
        }
        due
    });
    for w in due {
        w.wake();
    }
}

pub fn advance_by_ms(ms: u64) {
    advance_to(now() + ms * TICKS_PER_MS);
}

/// Drop every alarm registered with `waker` (used before re-polling a root future that
/// re-registers all of its pending timers, and when a node is torn down).
pub fn forget(waker: &Waker) {
    CLK.with(|c| c.borrow_mut().timers.retain(|(_, w)| !w.will_wake(waker)))
}
