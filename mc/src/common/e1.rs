//! E1: stateless deviation-bounded DFS (iterative context bounding) over the environment's
//! decisions. An execution = one freshly built closed system driven to its horizon; at every
//! choice point the enabled actions are listed in canonical order (index 0 = default); a schedule
//! is the list of chosen indices; executions are explored for every schedule whose number of
//! non-default choices is within the bound.

use rayon::prelude::*;
use std::sync::atomic::{AtomicU64, Ordering};
use std::sync::Mutex;

/// One execution's trace of choice points: (number of enabled actions, chosen index).
pub type Trace = Vec<(usize, usize)>;

pub struct Outcome<O> {
    pub trace: Trace,
    /// observation digest (for the determinism guard and distinct-outcome counting)
    pub digest: u64,
    pub result: O,
}

pub struct Stats {
    pub executions: u64,
    pub choice_points: u64,
    pub distinct_outcomes: usize,
    pub max_trace_len: usize,
    pub determinism_checks: u64,
    pub capped: bool,
}

/// `run(prefix)` must replay `prefix` (panicking / returning Err on a not-enabled choice) and then
/// take the default at every later point. Returns the full trace.
pub fn explore<O: Send>(
    bound: usize,
    max_executions: u64,
    determinism_every: u64,
    run: impl Fn(&[usize]) -> Result<Outcome<O>, String> + Sync,
    on_outcome: impl Fn(&[usize], &Outcome<O>) + Sync,
) -> Result<Stats, String> {
    let executions = AtomicU64::new(0);
    let choice_points = AtomicU64::new(0);
    let det_checks = AtomicU64::new(0);
    let max_len = AtomicU64::new(0);
    let outcomes: Mutex<std::collections::HashSet<u64>> = Mutex::new(Default::default());
    let error: Mutex<Option<String>> = Mutex::new(None);
    let capped = std::sync::atomic::AtomicBool::new(false);

    // level-synchronous: frontier of prefixes with k deviations
    let mut frontier: Vec<Vec<usize>> = vec![vec![]];
    for level in 0..=bound {
        // no more children than could still be executed (the frontier is materialised)
        let budget = max_executions.saturating_sub(executions.load(Ordering::SeqCst).saturating_add(frontier.len() as u64));
        let produced = AtomicU64::new(0);
        let next: Vec<Vec<usize>> = frontier
            .par_iter()
            .flat_map_iter(|prefix| {
                let mut children = Vec::new();
                if error.lock().unwrap().is_some() {
                    return children;
                }
                let n = executions.fetch_add(1, Ordering::SeqCst);
                if n >= max_executions {
                    capped.store(true, Ordering::SeqCst);
                    return children;
                }
                let out = match run(prefix) {
                    Ok(o) => o,
                    Err(e) => {
                        *error.lock().unwrap() = Some(format!("prefix {:?}: {}", prefix, e));
                        return children;
                    }
                };
                if determinism_every > 0 && n % determinism_every == 0 {
                    det_checks.fetch_add(1, Ordering::SeqCst);
                    match run(prefix) {
                        Ok(o2) => {
                            if o2.digest != out.digest || o2.trace != out.trace {
                                *error.lock().unwrap() = Some(format!("machinery nondeterminism: prefix {:?} gave two different observations", prefix));
                                return children;
                            }
                        }
                        Err(e) => {
                            *error.lock().unwrap() = Some(format!("prefix {:?} (second run): {}", prefix, e));
                            return children;
                        }
                    }
                }
                choice_points.fetch_add(out.trace.len() as u64, Ordering::SeqCst);
                max_len.fetch_max(out.trace.len() as u64, Ordering::SeqCst);
                outcomes.lock().unwrap().insert(out.digest);
                on_outcome(prefix, &out);
                // children: deviate at any point after the prefix
                let upto = if level < bound { out.trace.len() } else { 0 };
                for i in prefix.len()..upto {
                    let (enabled, _) = out.trace[i];
                    if enabled > 1 && produced.fetch_add(enabled as u64 - 1, Ordering::SeqCst) >= budget {
                        capped.store(true, Ordering::SeqCst);
                        break;
                    }
                    for alt in 1..enabled {
                        let mut p: Vec<usize> = out.trace[..i].iter().map(|c| c.1).collect();
                        p.push(alt);
                        children.push(p);
                    }
                }
                children
            })
            .collect();
        if let Some(e) = error.lock().unwrap().clone() {
            return Err(e);
        }
        frontier = next;
        if frontier.is_empty() {
            break;
        }
    }
    let distinct = outcomes.lock().unwrap().len();
    Ok(Stats {
        executions: executions.load(Ordering::SeqCst).min(max_executions),
        choice_points: choice_points.load(Ordering::SeqCst),
        distinct_outcomes: distinct,
        max_trace_len: max_len.load(Ordering::SeqCst) as usize,
        determinism_checks: det_checks.load(Ordering::SeqCst),
        capped: capped.load(Ordering::SeqCst),
    })
}
