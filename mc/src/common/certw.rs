//! Harness-side Matter operational certificate writer: every field, name attribute and extension
//! is a parameter, so single-defect chains can be produced (the repo's own generators only emit
//! well-formed profiles). The to-be-signed DER comes from the repo's `CertRef::as_asn1` (the same
//! conversion the verifier uses), the signature from the real backend.

use rs_matter::cert::CertRef;
use rs_matter::crypto::{CanonPkcPublicKey, CanonPkcSecretKey, CanonPkcSignature, Crypto, Digest, PublicKey, SecretKey, SigningSecretKey};
use rs_matter::error::Error;
use rs_matter::tlv::{TLVElement, TLVTag, TLVWrite};
use rs_matter::utils::storage::WriteBuf;

pub const DN_NODE_ID: u8 = 17;
pub const DN_ICA_ID: u8 = 19;
pub const DN_ROOT_CA_ID: u8 = 20;
pub const DN_FABRIC_ID: u8 = 21;
pub const DN_NOC_CAT: u8 = 22;

pub const KU_DIGITAL_SIGNATURE: u16 = 0x0001;
pub const KU_KEY_CERT_SIGN: u16 = 0x0020;
pub const KU_CRL_SIGN: u16 = 0x0040;

/// DER `Extension` with OID 2.5.29.99, empty value
pub const FUTURE_NON_CRITICAL: &[u8] = &[0x30, 0x0A, 0x06, 0x03, 0x55, 0x1D, 0x63, 0x01, 0x01, 0x00, 0x04, 0x00];
pub const FUTURE_CRITICAL: &[u8] = &[0x30, 0x0A, 0x06, 0x03, 0x55, 0x1D, 0x63, 0x01, 0x01, 0xFF, 0x04, 0x00];

#[derive(Clone, Debug, PartialEq, Eq)]
pub struct CertSpec {
    pub serial: Vec<u8>,
    pub issuer: Vec<(u8, u64)>,
    pub not_before: u32,
    pub not_after: u32,
    pub subject: Vec<(u8, u64)>,
    pub pubkey: Vec<u8>,
    pub basic: Option<(bool, Option<u8>)>,
    pub key_usage: Option<u16>,
    pub eku: Option<Vec<u8>>,
    pub skid: Option<Vec<u8>>,
    pub akid: Option<Vec<u8>>,
    /// one `future-extensions` element per entry (each a DER blob of one or more X.509 extensions)
    pub future: Vec<Vec<u8>>,
}

pub struct KeyPair {
    pub secret: CanonPkcSecretKey,
    pub public: Vec<u8>,
    pub key_id: Vec<u8>,
}

pub fn key_id<C: Crypto>(crypto: &C, pubkey: &[u8]) -> Result<Vec<u8>, Error> {
    let mut h = crypto.hash1()?;
    h.update(pubkey)?;
    let mut out = rs_matter::crypto::CryptoSensitive::<20>::new();
    h.finish(&mut out)?;
    Ok(out.access().to_vec())
}

pub fn keypair<C: Crypto>(crypto: &C) -> Result<KeyPair, Error> {
    let k = crypto.generate_secret_key()?;
    let mut secret = CanonPkcSecretKey::new();
    k.write_canon(&mut secret)?;
    let mut public = CanonPkcPublicKey::new();
    k.pub_key()?.write_canon(&mut public)?;
    let public = public.access().to_vec();
    let key_id = key_id(crypto, &public)?;
    Ok(KeyPair { secret, public, key_id })
}

fn write_dn(tw: &mut WriteBuf<'_>, tag: u8, dn: &[(u8, u64)]) -> Result<(), Error> {
    tw.start_list(&TLVTag::Context(tag))?;
    for (t, v) in dn {
        tw.u64(&TLVTag::Context(*t), *v)?;
    }
    tw.end_container()
}

/// The certificate without its signature field (closed structure).
pub fn encode_tbs(spec: &CertSpec) -> Result<Vec<u8>, Error> {
    let mut buf = vec![0u8; 1024];
    let mut tw = WriteBuf::new(&mut buf);
    tw.start_struct(&TLVTag::Anonymous)?;
    tw.str(&TLVTag::Context(1), &spec.serial)?;
    tw.u8(&TLVTag::Context(2), 1)?;
    write_dn(&mut tw, 3, &spec.issuer)?;
    tw.u32(&TLVTag::Context(4), spec.not_before)?;
    tw.u32(&TLVTag::Context(5), spec.not_after)?;
    write_dn(&mut tw, 6, &spec.subject)?;
    tw.u8(&TLVTag::Context(7), 1)?;
    tw.u8(&TLVTag::Context(8), 1)?;
    tw.str(&TLVTag::Context(9), &spec.pubkey)?;
    tw.start_list(&TLVTag::Context(10))?;
    if let Some((ca, path_len)) = spec.basic {
        tw.start_struct(&TLVTag::Context(1))?;
        tw.bool(&TLVTag::Context(1), ca)?;
        if let Some(p) = path_len {
            tw.u8(&TLVTag::Context(2), p)?;
        }
        tw.end_container()?;
    }
    if let Some(ku) = spec.key_usage {
        tw.u16(&TLVTag::Context(2), ku)?;
    }
    if let Some(eku) = &spec.eku {
        tw.start_array(&TLVTag::Context(3))?;
        for e in eku {
            tw.u8(&TLVTag::Anonymous, *e)?;
        }
        tw.end_container()?;
    }
    if let Some(k) = &spec.skid {
        tw.str(&TLVTag::Context(4), k)?;
    }
    if let Some(k) = &spec.akid {
        tw.str(&TLVTag::Context(5), k)?;
    }
    for f in &spec.future {
        tw.str(&TLVTag::Context(6), f)?;
    }
    tw.end_container()?;
    tw.end_container()?;
    Ok(tw.as_slice().to_vec())
}

/// Sign `spec` with `signer` and return the complete Matter-TLV certificate.
pub fn sign<C: Crypto>(crypto: &C, spec: &CertSpec, signer: &CanonPkcSecretKey) -> Result<Vec<u8>, Error> {
    let tbs = encode_tbs(spec)?;
    let mut asn1 = vec![0u8; 2048];
    let len = CertRef::new(TLVElement::new(&tbs)).as_asn1(&mut asn1)?;
    let key = crypto.secret_key(signer.reference())?;
    let mut sig = CanonPkcSignature::new();
    key.sign(&asn1[..len], &mut sig)?;
    Ok(with_signature(&tbs, sig.access()))
}

pub fn with_signature(tbs: &[u8], sig: &[u8]) -> Vec<u8> {
    let mut out = tbs[..tbs.len() - 1].to_vec();
    out.extend_from_slice(&[0x30, 0x0b, sig.len() as u8]);
    out.extend_from_slice(sig);
    out.push(0x18);
    out
}

/// Offset of the signature bytes inside a complete certificate produced by `sign`.
pub fn signature_offset(cert: &[u8]) -> usize {
    cert.len() - 1 - 64
}

pub fn rcac_spec(kp: &KeyPair, ca_id: u64, fabric_id: Option<u64>) -> CertSpec {
    let mut dn = vec![(DN_ROOT_CA_ID, ca_id)];
    if let Some(f) = fabric_id {
        dn.push((DN_FABRIC_ID, f));
    }
    CertSpec {
        serial: vec![0x01],
        issuer: dn.clone(),
        not_before: 1,
        not_after: 0,
        subject: dn,
        pubkey: kp.public.clone(),
        basic: Some((true, None)),
        key_usage: Some(KU_KEY_CERT_SIGN | KU_CRL_SIGN),
        eku: None,
        skid: Some(kp.key_id.clone()),
        akid: Some(kp.key_id.clone()),
        future: Vec::new(),
    }
}

pub fn icac_spec(kp: &KeyPair, parent: &CertSpec, parent_kp: &KeyPair, ca_id: u64, fabric_id: Option<u64>) -> CertSpec {
    let mut dn = vec![(DN_ICA_ID, ca_id)];
    if let Some(f) = fabric_id {
        dn.push((DN_FABRIC_ID, f));
    }
    CertSpec {
        serial: vec![0x02],
        issuer: parent.subject.clone(),
        not_before: 1,
        not_after: 0,
        subject: dn,
        pubkey: kp.public.clone(),
        basic: Some((true, Some(0))),
        key_usage: Some(KU_KEY_CERT_SIGN | KU_CRL_SIGN),
        eku: None,
        skid: Some(kp.key_id.clone()),
        akid: Some(parent_kp.key_id.clone()),
        future: Vec::new(),
    }
}

pub fn noc_spec(kp: &KeyPair, parent: &CertSpec, parent_kp: &KeyPair, node_id: u64, fabric_id: u64, cats: &[u32]) -> CertSpec {
    let mut dn = vec![(DN_NODE_ID, node_id), (DN_FABRIC_ID, fabric_id)];
    for c in cats {
        dn.push((DN_NOC_CAT, *c as u64));
    }
    CertSpec {
        serial: vec![0x03],
        issuer: parent.subject.clone(),
        not_before: 1,
        not_after: 0,
        subject: dn,
        pubkey: kp.public.clone(),
        basic: Some((false, None)),
        key_usage: Some(KU_DIGITAL_SIGNATURE),
        eku: Some(vec![1, 2]),
        skid: Some(kp.key_id.clone()),
        akid: Some(parent_kp.key_id.clone()),
        future: Vec::new(),
    }
}
