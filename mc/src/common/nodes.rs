//! Node fixtures: fresh `Matter` objects, deterministic crypto, pre-established secure sessions.

use core::num::NonZeroU8;

use rs_matter::crypto::{default_crypto, CanonAeadKey, Crypto};
use rs_matter::dm::devices::test::{DAC_PRIVKEY, TEST_DEV_ATT, TEST_DEV_COMM, TEST_DEV_DET};
use rs_matter::error::Error;
use rs_matter::transport::network::Address;
use rs_matter::transport::session::{NocCatIds, ReservedSession, SessionMode};
use rs_matter::{Matter, MATTER_PORT};

use super::rng::SeededRng;

pub const NODE_A: u64 = 0x0000_0000_0000_A001;
pub const NODE_B: u64 = 0x0000_0000_0000_B002;

pub fn new_matter() -> Box<Matter<'static>> {
    Box::new(Matter::new(&TEST_DEV_DET, TEST_DEV_COMM, &TEST_DEV_ATT, MATTER_PORT))
}

/// The real RustCrypto backend over a deterministic RNG.
pub fn crypto(rng: SeededRng) -> impl Crypto + 'static {
    default_crypto(rng, DAC_PRIVKEY)
}

pub fn key(byte: u8) -> CanonAeadKey {
    let mut k = CanonAeadKey::new();
    k.load_from_array(&[byte; 16]);
    k
}

#[derive(Clone, Copy, Debug, PartialEq, Eq, Hash)]
pub enum SessKind {
    Case,
    Pase,
}

/// Install one half of a pre-established secure session (the public `ReservedSession` recipe the
/// repo's own e2e tests use).
#[allow(clippy::too_many_arguments)]
pub fn install_session(
    matter: &Matter<'_>,
    rng: SeededRng,
    kind: SessKind,
    local_node: u64,
    peer_node: u64,
    local_sess: u16,
    peer_sess: u16,
    peer_addr: Address,
    dec: &CanonAeadKey,
    enc: &CanonAeadKey,
) -> Result<(), Error> {
    let c = crypto(rng);
    let mut session = ReservedSession::reserve_now(matter, &c)?;
    let mode = match kind {
        SessKind::Case => SessionMode::Case { fab_idx: NonZeroU8::new(1).unwrap(), cat_ids: NocCatIds::default() },
        SessKind::Pase => SessionMode::Pase { fab_idx: 0 },
    };
    session.update(local_node, peer_node, peer_sess, local_sess, peer_addr, mode, Some(dec.reference()), Some(enc.reference()), None, None)?;
    session.complete();
    Ok(())
}

/// Add an (empty) fabric with index 1 so that CASE-mode sessions have a fabric to point at.
pub fn add_fabric(matter: &Matter<'_>) {
    matter.with_state(|state| {
        state.fabrics.add_with_post_init(|_| Ok(())).unwrap();
    });
}

/// Give fabric `fab_idx` group key sets: `groups` = (group id, key set id, epoch key byte).
#[allow(dead_code)]
pub fn add_group_keys(matter: &Matter<'_>, fab_idx: NonZeroU8, groups: &[(u16, u16, u8)]) {
    use rs_matter::fabric::GroupKeyMapping;
    use rs_matter::group_keys::{GroupEpochKeyEntry, GroupKeySet};
    matter.with_state(|state| {
        let f = state.fabrics.fabric_mut(fab_idx).unwrap();
        for (group_id, key_set_id, key_byte) in groups {
            let mut epoch_key = CanonAeadKey::new();
            epoch_key.load_from_array(&[*key_byte; 16]);
            let mut epoch_keys = rs_matter::utils::storage::Vec::new();
            epoch_keys.push(GroupEpochKeyEntry { epoch_key, epoch_start_time: 0 }).unwrap();
            f.groups_mut().key_set_add(GroupKeySet { group_key_set_id: *key_set_id, group_key_security_policy: 0, epoch_keys }).unwrap();
            f.groups_mut().key_map_add(GroupKeyMapping { group_id: *group_id, group_key_set_id: *key_set_id }).unwrap();
        }
    })
}

/// Like `install_session` for a CASE session on fabric `fab`.
#[allow(dead_code, clippy::too_many_arguments)]
pub fn install_session_fab(
    matter: &Matter<'_>,
    rng: SeededRng,
    fab: u8,
    local_node: u64,
    peer_node: u64,
    local_sess: u16,
    peer_sess: u16,
    peer_addr: Address,
    dec: &CanonAeadKey,
    enc: &CanonAeadKey,
) -> Result<(), Error> {
    let c = crypto(rng);
    let mut session = ReservedSession::reserve_now(matter, &c)?;
    let mode = SessionMode::Case { fab_idx: NonZeroU8::new(fab).unwrap(), cat_ids: NocCatIds::default() };
    session.update(local_node, peer_node, peer_sess, local_sess, peer_addr, mode, Some(dec.reference()), Some(enc.reference()), None, None)?;
    session.complete();
    Ok(())
}
