//! RecKv: in-memory key-value store that records every mutating operation and can inject
//! failures. A "crash at op n" is reproduced by rebuilding a map from the first n log entries.

use std::cell::RefCell;
use std::collections::BTreeMap;
use std::rc::Rc;

use rs_matter::error::{Error, ErrorCode};
use rs_matter::persist::KvBlobStore;

#[derive(Clone, Debug, PartialEq, Eq, Hash)]
pub enum KvOp {
    Store(u16, Vec<u8>),
    Remove(u16),
}

#[derive(Default)]
pub struct KvState {
    pub map: BTreeMap<u16, Vec<u8>>,
    /// every mutating operation that was *applied*
    pub log: Vec<KvOp>,
    /// mutating operations attempted (applied or failed)
    pub attempts: usize,
    /// fail the mutating operation with this attempt index (0-based)
    pub fail_attempt: Option<usize>,
    /// fail every mutating operation
    pub fail_all: bool,
    pub failures: usize,
    pub loads: usize,
}

#[derive(Clone, Default)]
pub struct RecKv(pub Rc<RefCell<KvState>>);

impl RecKv {
    pub fn new() -> Self {
        Self::default()
    }

    pub fn from_map(map: BTreeMap<u16, Vec<u8>>) -> Self {
        let kv = Self::default();
        kv.0.borrow_mut().map = map;
        kv
    }

    /// The map a restarted node would see if the power failed after the first `n` applied ops,
    /// starting from `initial`.
    pub fn map_at(initial: &BTreeMap<u16, Vec<u8>>, log: &[KvOp], n: usize) -> BTreeMap<u16, Vec<u8>> {
        let mut m = initial.clone();
        for op in &log[..n] {
            match op {
                KvOp::Store(k, v) => {
                    m.insert(*k, v.clone());
                }
                KvOp::Remove(k) => {
                    m.remove(k);
                }
            }
        }
        m
    }

    pub fn map(&self) -> BTreeMap<u16, Vec<u8>> {
        self.0.borrow().map.clone()
    }

    pub fn log_len(&self) -> usize {
        self.0.borrow().log.len()
    }

    pub fn fail_next(&self) {
        let mut s = self.0.borrow_mut();
        s.fail_attempt = Some(s.attempts);
    }

    /// the n-th store / remove operation from now fails (1 = the next one)
    pub fn fail_nth(&self, n: usize) {
        let mut s = self.0.borrow_mut();
        s.fail_attempt = Some(s.attempts + n - 1);
    }

    pub fn set_fail_all(&self, on: bool) {
        self.0.borrow_mut().fail_all = on;
    }

    fn should_fail(s: &mut KvState) -> bool {
        let idx = s.attempts;
        s.attempts += 1;
        if s.fail_all || s.fail_attempt == Some(idx) {
            s.failures += 1;
            true
        } else {
            false
        }
    }
}

impl KvBlobStore for RecKv {
    fn load<'a>(&mut self, key: u16, buf: &'a mut [u8]) -> Result<Option<&'a [u8]>, Error> {
        let mut s = self.0.borrow_mut();
        s.loads += 1;
        match s.map.get(&key) {
            None => Ok(None),
            Some(v) => {
                if v.len() > buf.len() {
                    return Err(ErrorCode::NoSpace.into());
                }
                buf[..v.len()].copy_from_slice(v);
                Ok(Some(&buf[..v.len()]))
            }
        }
    }

    fn store(&mut self, key: u16, data: &[u8], _buf: &mut [u8]) -> Result<(), Error> {
        let mut s = self.0.borrow_mut();
        if Self::should_fail(&mut s) {
            return Err(ErrorCode::StdIoError.into());
        }
        s.map.insert(key, data.to_vec());
        s.log.push(KvOp::Store(key, data.to_vec()));
        Ok(())
    }

    fn remove(&mut self, key: u16, _buf: &mut [u8]) -> Result<(), Error> {
        let mut s = self.0.borrow_mut();
        if Self::should_fail(&mut s) {
            return Err(ErrorCode::StdIoError.into());
        }
        s.map.remove(&key);
        s.log.push(KvOp::Remove(key));
        Ok(())
    }
}
