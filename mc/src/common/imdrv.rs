//! Interaction Model driver: a device node that runs the real `InteractionModel` over a fully
//! parameterised, instrumented data model (`TestDm`), and harness-side request encoders /
//! response decoders for the client end (independent of the repo's own IM client).

use std::cell::RefCell;
use std::rc::Rc;

use rs_matter::dm::{Access, AsyncHandler, Attribute, Cluster, Command, DeviceType, Endpoint, InvokeContext, InvokeReply, MatchContext, Metadata, Node, Quality, ReadContext, ReadReply, Reply, WriteContext};
use rs_matter::error::{Error, ErrorCode};
use rs_matter::tlv::{TLVElement, TLVTag, TLVWrite};
use rs_matter::transport::exchange::{Exchange, MessageMeta};
use rs_matter::utils::storage::WriteBuf;

pub const PROTO_IM: u16 = 1;
pub const OP_STATUS: u8 = 1;
pub const OP_READ_REQ: u8 = 2;
pub const OP_SUBSCRIBE_REQ: u8 = 3;
pub const OP_SUBSCRIBE_RESP: u8 = 4;
pub const OP_REPORT_DATA: u8 = 5;
pub const OP_WRITE_REQ: u8 = 6;
pub const OP_WRITE_RESP: u8 = 7;
pub const OP_INVOKE_REQ: u8 = 8;
pub const OP_INVOKE_RESP: u8 = 9;
pub const OP_TIMED_REQ: u8 = 10;
/// a client gives up after this many chunks of one answer
pub const MAX_CHUNKS: usize = 300;

// ------------------------------------------------------------------------------------ data model

#[derive(Clone, Debug, PartialEq, Eq)]
pub enum Val {
    U32(u32),
    Bytes(Vec<u8>),
    /// a list of octet strings
    List(Vec<Vec<u8>>),
    /// a fabric-scoped list: (fabric index, value); a fabric-filtered read shows the requester's entries only
    FabricList(Vec<(u8, u32)>),
    /// an attribute whose handler fails every read (with the general failure code / with a constraint error)
    Failing(bool),
}

#[derive(Clone, Debug)]
pub struct AttrSpec {
    pub id: u32,
    pub access: Access,
    pub quality: Quality,
    pub value: Val,
}

#[derive(Clone, Debug)]
pub struct CmdSpec {
    pub id: u32,
    pub access: Access,
    pub resp: Option<u32>,
}

#[derive(Clone, Debug)]
pub struct EventSpec {
    pub id: u32,
    pub access: Access,
}

#[derive(Clone, Debug, Default)]
pub struct ClusterSpec {
    pub id: u32,
    pub attrs: Vec<AttrSpec>,
    pub cmds: Vec<CmdSpec>,
    pub events: Vec<EventSpec>,
}

#[derive(Clone, Debug)]
pub struct EndpointSpec {
    pub id: u16,
    pub device_type: u16,
    pub clusters: Vec<ClusterSpec>,
}

#[derive(Clone, Debug, Default)]
pub struct NodeSpec {
    pub endpoints: Vec<EndpointSpec>,
}

impl NodeSpec {
    pub fn attr(&self, ep: u16, cl: u32, attr: u32) -> Option<&AttrSpec> {
        self.endpoints.iter().find(|e| e.id == ep)?.clusters.iter().find(|c| c.id == cl)?.attrs.iter().find(|a| a.id == attr)
    }
    pub fn attr_mut(&mut self, ep: u16, cl: u32, attr: u32) -> Option<&mut AttrSpec> {
        self.endpoints.iter_mut().find(|e| e.id == ep)?.clusters.iter_mut().find(|c| c.id == cl)?.attrs.iter_mut().find(|a| a.id == attr)
    }
    pub fn cmd(&self, ep: u16, cl: u32, cmd: u32) -> Option<&CmdSpec> {
        self.endpoints.iter().find(|e| e.id == ep)?.clusters.iter().find(|c| c.id == cl)?.cmds.iter().find(|a| a.id == cmd)
    }
}

/// What the instrumented handlers saw.
#[derive(Clone, Debug, PartialEq, Eq)]
pub enum Op {
    Read { ep: u16, cl: u32, attr: u32, list_index: Option<Option<u16>>, fab_idx: u8, fab_filter: bool },
    Write { ep: u16, cl: u32, attr: u32, fab_idx: u8, data: Vec<u8> },
    Invoke { ep: u16, cl: u32, cmd: u32, fab_idx: u8, data: Vec<u8> },
}

fn always_attr(_: &Attribute, _: u16, _: u32) -> bool {
    true
}
fn always_cmd(_: &Command, _: u16, _: u32) -> bool {
    true
}
fn always_event(_: &rs_matter::dm::Event, _: u16, _: u32) -> bool {
    true
}

#[derive(Clone)]
pub struct TestDm {
    pub spec: Rc<RefCell<NodeSpec>>,
    pub log: Rc<RefCell<Vec<Op>>>,
    pub dataver: Rc<RefCell<u32>>,
    /// called before every handler read (lets a harness change the node between chunks)
    pub on_read: Rc<RefCell<Option<Box<dyn FnMut(&mut NodeSpec, &Op)>>>>,
}

impl TestDm {
    pub fn new(spec: NodeSpec) -> Self {
        Self { spec: Rc::new(RefCell::new(spec)), log: Rc::new(RefCell::new(Vec::new())), dataver: Rc::new(RefCell::new(0x1000)), on_read: Rc::new(RefCell::new(None)) }
    }

    fn with_cluster<R>(&self, ep: u16, cl: u32, f: impl FnOnce(&Cluster<'_>) -> R) -> Option<R> {
        let spec = self.spec.borrow();
        let c = spec.endpoints.iter().find(|e| e.id == ep)?.clusters.iter().find(|c| c.id == cl)?;
        let (attrs, cmds, events) = cluster_meta(c);
        let cluster = Cluster::new(c.id, 1, 0, &attrs, &cmds, &events, always_attr, always_cmd, always_event);
        Some(f(&cluster))
    }
}

fn cluster_meta(c: &ClusterSpec) -> (Vec<Attribute>, Vec<Command>, Vec<rs_matter::dm::Event>) {
    let mut attrs: Vec<Attribute> = c.attrs.iter().map(|a| Attribute::new(a.id, a.access, a.quality)).collect();
    attrs.extend_from_slice(&[rs_matter::dm::GENERATED_COMMAND_LIST, rs_matter::dm::ACCEPTED_COMMAND_LIST, rs_matter::dm::EVENT_LIST, rs_matter::dm::ATTRIBUTE_LIST, rs_matter::dm::FEATURE_MAP, rs_matter::dm::CLUSTER_REVISION]);
    let cmds: Vec<Command> = c.cmds.iter().map(|x| Command::new(x.id, x.resp, x.access)).collect();
    let events: Vec<rs_matter::dm::Event> = c.events.iter().map(|x| rs_matter::dm::Event::new(x.id, x.access)).collect();
    (attrs, cmds, events)
}

impl Metadata for TestDm {
    fn access<F, R>(&self, f: F) -> R
    where
        F: FnOnce(&Node<'_>) -> R,
    {
        let spec = self.spec.borrow();
        // build the metadata tree for the current composition
        let metas: Vec<Vec<(Vec<Attribute>, Vec<Command>, Vec<rs_matter::dm::Event>)>> = spec.endpoints.iter().map(|e| e.clusters.iter().map(cluster_meta).collect()).collect();
        let dts: Vec<[DeviceType; 1]> = spec.endpoints.iter().map(|e| [DeviceType { dtype: e.device_type, drev: 1 }]).collect();
        let clusters: Vec<Vec<Cluster<'_>>> = spec
            .endpoints
            .iter()
            .zip(metas.iter())
            .map(|(e, m)| e.clusters.iter().zip(m.iter()).map(|(c, (a, k, ev))| Cluster::new(c.id, 1, 0, a, k, ev, always_attr, always_cmd, always_event)).collect())
            .collect();
        let endpoints: Vec<Endpoint<'_>> = spec.endpoints.iter().zip(clusters.iter()).zip(dts.iter()).map(|((e, c), d)| Endpoint::new(e.id, d, c)).collect();
        let node = Node::new(&endpoints);
        f(&node)
    }
}

impl AsyncHandler for TestDm {
    fn read_awaits(&self, _ctx: impl ReadContext) -> bool {
        false
    }
    fn write_awaits(&self, _ctx: impl WriteContext) -> bool {
        false
    }
    fn invoke_awaits(&self, _ctx: impl InvokeContext) -> bool {
        false
    }

    async fn read(&self, ctx: impl ReadContext, reply: impl ReadReply) -> Result<(), Error> {
        let a = ctx.attr();
        let li = a.list_index.clone().map(|n| n.into_option());
        let op = Op::Read { ep: a.endpoint_id, cl: a.cluster_id, attr: a.attr_id, list_index: li, fab_idx: a.fab_idx, fab_filter: a.fab_filter };
        if let Some(cb) = self.on_read.borrow_mut().as_mut() {
            cb(&mut self.spec.borrow_mut(), &op);
        }
        self.log.borrow_mut().push(op);
        let Some(mut writer) = reply.with_dataver(*self.dataver.borrow())? else {
            return Ok(());
        };
        if a.is_system() {
            return match self.with_cluster(a.endpoint_id, a.cluster_id, |c| c.read(a, writer)) {
                Some(r) => r,
                None => Err(ErrorCode::ClusterNotFound.into()),
            };
        }
        let value = self.spec.borrow().attr(a.endpoint_id, a.cluster_id, a.attr_id).map(|s| s.value.clone()).ok_or(ErrorCode::AttributeNotFound)?;
        match value {
            Val::Failing(constraint) => Err(if constraint { ErrorCode::ConstraintError } else { ErrorCode::Failure }.into()),
            Val::U32(v) => writer.set(v),
            Val::Bytes(b) => {
                let tag = writer.tag();
                writer.writer().str(tag, &b)?;
                writer.complete()
            }
            Val::List(items) => {
                let tag = writer.tag();
                {
                    let mut tw = writer.writer();
                    match li {
                        None => {
                            tw.start_array(tag)?;
                            for it in &items {
                                tw.str(&TLVTag::Anonymous, it)?;
                            }
                            tw.end_container()?;
                        }
                        Some(Some(i)) => {
                            let it = items.get(i as usize).ok_or(ErrorCode::ConstraintError)?;
                            tw.str(tag, it)?;
                        }
                        // the empty list that precedes the items of a chunked list
                        Some(None) => {
                            tw.start_array(tag)?;
                            tw.end_container()?;
                        }
                    }
                }
                writer.complete()
            }
            Val::FabricList(items) => {
                let tag = writer.tag();
                let shown: Vec<&(u8, u32)> = items.iter().filter(|(f, _)| !a.fab_filter || *f == a.fab_idx).collect();
                {
                    let mut tw = writer.writer();
                    match li {
                        None => {
                            tw.start_array(tag)?;
                            for (f, v) in &shown {
                                tw.start_struct(&TLVTag::Anonymous)?;
                                tw.u32(&TLVTag::Context(1), *v)?;
                                tw.u8(&TLVTag::Context(0xFE), *f)?;
                                tw.end_container()?;
                            }
                            tw.end_container()?;
                        }
                        Some(Some(i)) => {
                            let (f, v) = shown.get(i as usize).ok_or(ErrorCode::ConstraintError)?;
                            tw.start_struct(tag)?;
                            tw.u32(&TLVTag::Context(1), *v)?;
                            tw.u8(&TLVTag::Context(0xFE), *f)?;
                            tw.end_container()?;
                        }
                        Some(None) => {
                            tw.start_array(tag)?;
                            tw.end_container()?;
                        }
                    }
                }
                writer.complete()
            }
        }
    }

    async fn write(&self, ctx: impl WriteContext) -> Result<(), Error> {
        let a = ctx.attr();
        let data = ctx.data().raw_value().map(|v| v.to_vec()).unwrap_or_default();
        self.log.borrow_mut().push(Op::Write { ep: a.endpoint_id, cl: a.cluster_id, attr: a.attr_id, fab_idx: a.fab_idx, data });
        a.check_dataver(*self.dataver.borrow())?;
        if let Ok(v) = ctx.data().u32() {
            if let Some(s) = self.spec.borrow_mut().attr_mut(a.endpoint_id, a.cluster_id, a.attr_id) {
                if matches!(s.value, Val::U32(_)) {
                    s.value = Val::U32(v);
                }
            }
        }
        *self.dataver.borrow_mut() += 1;
        Ok(())
    }

    async fn invoke(&self, ctx: impl InvokeContext, reply: impl InvokeReply) -> Result<(), Error> {
        let c = ctx.cmd();
        let data = ctx.data().raw_value().map(|v| v.to_vec()).unwrap_or_default();
        self.log.borrow_mut().push(Op::Invoke { ep: c.endpoint_id, cl: c.cluster_id, cmd: c.cmd_id, fab_idx: c.fab_idx, data });
        let resp = self.spec.borrow().cmd(c.endpoint_id, c.cluster_id, c.cmd_id).and_then(|s| s.resp);
        if let Some(resp) = resp {
            let mut writer = reply.with_command(resp)?;
            let tag = writer.tag();
            {
                let mut tw = writer.writer();
                tw.start_struct(tag)?;
                tw.u32(&TLVTag::Context(0), c.cmd_id)?;
                tw.end_container()?;
            }
            writer.complete()?;
        }
        Ok(())
    }

    fn bump_dataver(&self, _ctx: impl MatchContext) {
        *self.dataver.borrow_mut() += 1;
    }
}

// ------------------------------------------------------------------------------------ client side

#[derive(Clone, Copy, Debug, PartialEq, Eq, Hash, PartialOrd, Ord)]
pub struct Path {
    pub ep: Option<u16>,
    pub cl: Option<u32>,
    pub leaf: Option<u32>,
}

impl Path {
    pub fn new(ep: Option<u16>, cl: Option<u32>, leaf: Option<u32>) -> Self {
        Self { ep, cl, leaf }
    }
}

fn write_attr_path(tw: &mut WriteBuf<'_>, tag: &TLVTag, p: &Path, list_index: Option<Option<u16>>) -> Result<(), Error> {
    tw.start_list(tag)?;
    if let Some(e) = p.ep {
        tw.u16(&TLVTag::Context(2), e)?;
    }
    if let Some(c) = p.cl {
        tw.u32(&TLVTag::Context(3), c)?;
    }
    if let Some(a) = p.leaf {
        tw.u32(&TLVTag::Context(4), a)?;
    }
    match list_index {
        Some(Some(i)) => tw.u16(&TLVTag::Context(5), i)?,
        Some(None) => tw.null(&TLVTag::Context(5))?,
        None => {}
    }
    tw.end_container()
}

pub fn read_request(paths: &[Path], fabric_filtered: bool, dataver_filters: &[(u16, u32, u32)]) -> Vec<u8> {
    let mut buf = vec![0u8; 2048];
    let mut tw = WriteBuf::new(&mut buf);
    tw.start_struct(&TLVTag::Anonymous).unwrap();
    tw.start_array(&TLVTag::Context(0)).unwrap();
    for p in paths {
        write_attr_path(&mut tw, &TLVTag::Anonymous, p, None).unwrap();
    }
    tw.end_container().unwrap();
    tw.bool(&TLVTag::Context(3), fabric_filtered).unwrap();
    if !dataver_filters.is_empty() {
        tw.start_array(&TLVTag::Context(4)).unwrap();
        for (ep, cl, ver) in dataver_filters {
            tw.start_struct(&TLVTag::Anonymous).unwrap();
            tw.start_list(&TLVTag::Context(0)).unwrap();
            tw.u16(&TLVTag::Context(1), *ep).unwrap();
            tw.u32(&TLVTag::Context(2), *cl).unwrap();
            tw.end_container().unwrap();
            tw.u32(&TLVTag::Context(1), *ver).unwrap();
            tw.end_container().unwrap();
        }
        tw.end_container().unwrap();
    }
    tw.u8(&TLVTag::Context(0xFF), 12).unwrap();
    tw.end_container().unwrap();
    tw.as_slice().to_vec()
}

fn write_event_path(tw: &mut WriteBuf<'_>, p: &Path) -> Result<(), Error> {
    tw.start_list(&TLVTag::Anonymous)?;
    if let Some(e) = p.ep {
        tw.u16(&TLVTag::Context(1), e)?;
    }
    if let Some(c) = p.cl {
        tw.u32(&TLVTag::Context(2), c)?;
    }
    if let Some(a) = p.leaf {
        tw.u32(&TLVTag::Context(3), a)?;
    }
    tw.end_container()
}

fn write_event_part(tw: &mut WriteBuf<'_>, paths_tag: u8, filters_tag: u8, event_paths: &[Path], event_min: Option<u64>) -> Result<(), Error> {
    if !event_paths.is_empty() {
        tw.start_array(&TLVTag::Context(paths_tag))?;
        for p in event_paths {
            write_event_path(tw, p)?;
        }
        tw.end_container()?;
    }
    if let Some(m) = event_min {
        tw.start_array(&TLVTag::Context(filters_tag))?;
        tw.start_struct(&TLVTag::Anonymous)?;
        tw.u64(&TLVTag::Context(1), m)?;
        tw.end_container()?;
        tw.end_container()?;
    }
    Ok(())
}

/// ReadRequest with attribute and event paths and an optional minimum event number.
pub fn read_request_ev(attr_paths: &[Path], event_paths: &[Path], event_min: Option<u64>, fabric_filtered: bool) -> Vec<u8> {
    let mut buf = vec![0u8; 2048];
    let mut tw = WriteBuf::new(&mut buf);
    tw.start_struct(&TLVTag::Anonymous).unwrap();
    if !attr_paths.is_empty() {
        tw.start_array(&TLVTag::Context(0)).unwrap();
        for p in attr_paths {
            write_attr_path(&mut tw, &TLVTag::Anonymous, p, None).unwrap();
        }
        tw.end_container().unwrap();
    }
    write_event_part(&mut tw, 1, 2, event_paths, event_min).unwrap();
    tw.bool(&TLVTag::Context(3), fabric_filtered).unwrap();
    tw.u8(&TLVTag::Context(0xFF), 12).unwrap();
    tw.end_container().unwrap();
    tw.as_slice().to_vec()
}

/// SubscribeRequest with attribute and event paths.
pub fn subscribe_request_ev(min_s: u16, max_s: u16, attr_paths: &[Path], event_paths: &[Path], event_min: Option<u64>, fabric_filtered: bool) -> Vec<u8> {
    let mut buf = vec![0u8; 2048];
    let mut tw = WriteBuf::new(&mut buf);
    tw.start_struct(&TLVTag::Anonymous).unwrap();
    tw.bool(&TLVTag::Context(0), false).unwrap();
    tw.u16(&TLVTag::Context(1), min_s).unwrap();
    tw.u16(&TLVTag::Context(2), max_s).unwrap();
    if !attr_paths.is_empty() {
        tw.start_array(&TLVTag::Context(3)).unwrap();
        for p in attr_paths {
            write_attr_path(&mut tw, &TLVTag::Anonymous, p, None).unwrap();
        }
        tw.end_container().unwrap();
    }
    write_event_part(&mut tw, 4, 5, event_paths, event_min).unwrap();
    tw.bool(&TLVTag::Context(7), fabric_filtered).unwrap();
    tw.u8(&TLVTag::Context(0xFF), 12).unwrap();
    tw.end_container().unwrap();
    tw.as_slice().to_vec()
}

/// (path, optional data version condition, value TLV written with the given writer)
pub fn write_request(items: &[(Path, Option<u32>, u32)], timed: bool) -> Vec<u8> {
    write_request_chunk(items, timed, false)
}

/// One message of a (possibly chunked) write: `more` is the MoreChunkedMessages flag.
pub fn write_request_chunk(items: &[(Path, Option<u32>, u32)], timed: bool, more: bool) -> Vec<u8> {
    let mut buf = vec![0u8; 2048];
    let mut tw = WriteBuf::new(&mut buf);
    tw.start_struct(&TLVTag::Anonymous).unwrap();
    tw.bool(&TLVTag::Context(0), false).unwrap();
    tw.bool(&TLVTag::Context(1), timed).unwrap();
    tw.start_array(&TLVTag::Context(2)).unwrap();
    for (p, ver, v) in items {
        tw.start_struct(&TLVTag::Anonymous).unwrap();
        if let Some(ver) = ver {
            tw.u32(&TLVTag::Context(0), *ver).unwrap();
        }
        write_attr_path(&mut tw, &TLVTag::Context(1), p, None).unwrap();
        tw.u32(&TLVTag::Context(2), *v).unwrap();
        tw.end_container().unwrap();
    }
    tw.end_container().unwrap();
    tw.bool(&TLVTag::Context(3), more).unwrap();
    tw.u8(&TLVTag::Context(0xFF), 12).unwrap();
    tw.end_container().unwrap();
    tw.as_slice().to_vec()
}

pub fn invoke_request(items: &[Path], timed: bool) -> Vec<u8> {
    let mut buf = vec![0u8; 2048];
    let mut tw = WriteBuf::new(&mut buf);
    tw.start_struct(&TLVTag::Anonymous).unwrap();
    tw.bool(&TLVTag::Context(0), false).unwrap();
    tw.bool(&TLVTag::Context(1), timed).unwrap();
    tw.start_array(&TLVTag::Context(2)).unwrap();
    for (k, p) in items.iter().enumerate() {
        tw.start_struct(&TLVTag::Anonymous).unwrap();
        tw.start_list(&TLVTag::Context(0)).unwrap();
        if let Some(e) = p.ep {
            tw.u16(&TLVTag::Context(0), e).unwrap();
        }
        if let Some(c) = p.cl {
            tw.u32(&TLVTag::Context(1), c).unwrap();
        }
        if let Some(a) = p.leaf {
            tw.u32(&TLVTag::Context(2), a).unwrap();
        }
        tw.end_container().unwrap();
        tw.start_struct(&TLVTag::Context(1)).unwrap();
        tw.u8(&TLVTag::Context(0), k as u8).unwrap();
        tw.end_container().unwrap();
        if items.len() > 1 {
            tw.u16(&TLVTag::Context(2), k as u16).unwrap();
        }
        tw.end_container().unwrap();
    }
    tw.end_container().unwrap();
    tw.u8(&TLVTag::Context(0xFF), 12).unwrap();
    tw.end_container().unwrap();
    tw.as_slice().to_vec()
}

pub fn timed_request(timeout_ms: u16) -> Vec<u8> {
    let mut buf = vec![0u8; 32];
    let mut tw = WriteBuf::new(&mut buf);
    tw.start_struct(&TLVTag::Anonymous).unwrap();
    tw.u16(&TLVTag::Context(0), timeout_ms).unwrap();
    tw.u8(&TLVTag::Context(0xFF), 12).unwrap();
    tw.end_container().unwrap();
    tw.as_slice().to_vec()
}

pub fn status_response(status: u8) -> Vec<u8> {
    let mut buf = vec![0u8; 32];
    let mut tw = WriteBuf::new(&mut buf);
    tw.start_struct(&TLVTag::Anonymous).unwrap();
    tw.u8(&TLVTag::Context(0), status).unwrap();
    tw.u8(&TLVTag::Context(0xFF), 12).unwrap();
    tw.end_container().unwrap();
    tw.as_slice().to_vec()
}

/// One element of a decoded answer.
#[derive(Clone, Debug, PartialEq, Eq, PartialOrd, Ord)]
pub enum Item {
    /// attribute data: path, list index (None = whole value, Some(None) = append marker), data version, raw TLV value
    Data { ep: u16, cl: u32, attr: u32, list_index: Option<Option<u16>>, dataver: Option<u32>, value: Vec<u8> },
    /// attribute / command status
    Status { ep: Option<u16>, cl: Option<u32>, leaf: Option<u32>, status: u16 },
    /// command response data
    CmdData { ep: u16, cl: u32, cmd: u32, value: Vec<u8> },
    /// event data; the payload fields of the harness's events: serial (tag 0), filler (tag 1), fabric index (tag 254)
    Event { ep: u16, cl: u32, ev: u32, number: u64, priority: u8, serial: Option<u32>, filler: Option<Vec<u8>>, fab: Option<u8> },
    /// event status
    EventStatus { ep: Option<u16>, cl: Option<u32>, ev: Option<u32>, status: u16 },
}

fn path_of(e: &TLVElement, ep_tag: u8, cl_tag: u8, leaf_tag: u8) -> (Option<u16>, Option<u32>, Option<u32>, Option<Option<u16>>) {
    let mut ep = None;
    let mut cl = None;
    let mut leaf = None;
    let mut li = None;
    if let Ok(list) = e.list() {
        for f in list.iter().flatten() {
            match f.try_ctx() {
                Ok(Some(t)) if t == ep_tag => ep = f.u16().ok(),
                Ok(Some(t)) if t == cl_tag => cl = f.u32().ok(),
                Ok(Some(t)) if t == leaf_tag => leaf = f.u32().ok(),
                Ok(Some(5)) if ep_tag == 2 => li = Some(f.u16().ok()),
                _ => {}
            }
        }
    }
    (ep, cl, leaf, li)
}

/// `find_ctx` yields an empty element when the tag is absent: turn that into `None`
fn find<'a>(s: &rs_matter::tlv::TLVSequence<'a>, ctx: u8) -> Option<TLVElement<'a>> {
    match s.find_ctx(ctx) {
        Ok(e) if !e.is_empty() => Some(e),
        _ => None,
    }
}

fn status_of(e: &TLVElement) -> u16 {
    e.structure().ok().and_then(|s| find(&s, 0)).and_then(|x| x.u16().ok()).unwrap_or(0xffff)
}

/// Decode one ReportData message: (items, more_chunks, suppress_response, subscription id).
pub fn decode_report(payload: &[u8]) -> Result<(Vec<Item>, bool, bool, Option<u32>), String> {
    let root = TLVElement::new(payload);
    let s = root.structure().map_err(|e| format!("report is not a structure: {:?}", e.code()))?;
    let mut items = Vec::new();
    let (mut more, mut suppress, mut sub) = (false, false, None);
    for f in s.iter() {
        let f = f.map_err(|e| format!("report element: {:?}", e.code()))?;
        match f.try_ctx().map_err(|e| format!("{:?}", e.code()))? {
            Some(0) => sub = f.u32().ok(),
            Some(1) => {
                for ib in f.array().map_err(|e| format!("attribute reports: {:?}", e.code()))?.iter() {
                    let ib = ib.map_err(|e| format!("attribute report: {:?}", e.code()))?;
                    let st = ib.structure().map_err(|e| format!("attribute report ib: {:?}", e.code()))?;
                    if let Some(status_ib) = find(&st, 0) {
                        let sst = status_ib.structure().map_err(|e| format!("{:?}", e.code()))?;
                        let (ep, cl, leaf, _) = path_of(&sst.find_ctx(0).map_err(|e| format!("status path: {:?}", e.code()))?, 2, 3, 4);
                        let status = status_of(&sst.find_ctx(1).map_err(|e| format!("status ib: {:?}", e.code()))?);
                        items.push(Item::Status { ep, cl, leaf, status });
                    } else if let Some(data_ib) = find(&st, 1) {
                        let dst = data_ib.structure().map_err(|e| format!("{:?}", e.code()))?;
                        let dataver = find(&dst, 0).and_then(|x| x.u32().ok());
                        let (ep, cl, leaf, li) = path_of(&dst.find_ctx(1).map_err(|e| format!("data path: {:?}", e.code()))?, 2, 3, 4);
                        let value = dst.find_ctx(2).map_err(|e| format!("data value: {:?}", e.code()))?;
                        let raw = value.raw_value().map_err(|e| format!("{:?}", e.code()))?.to_vec();
                        // keep the element type with the value: control byte without the tag bits
                        let mut v = vec![value.control().map_err(|e| format!("{:?}", e.code()))?.value_type as u8];
                        v.extend_from_slice(&raw);
                        items.push(Item::Data { ep: ep.ok_or("data without endpoint")?, cl: cl.ok_or("data without cluster")?, attr: leaf.ok_or("data without attribute")?, list_index: li, dataver, value: v });
                    } else {
                        return Err("attribute report with neither status nor data".into());
                    }
                }
            }
            Some(2) => {
                for ib in f.array().map_err(|e| format!("event reports: {:?}", e.code()))?.iter() {
                    let ib = ib.map_err(|e| format!("event report: {:?}", e.code()))?;
                    let st = ib.structure().map_err(|e| format!("event report ib: {:?}", e.code()))?;
                    if let Some(status_ib) = find(&st, 0) {
                        let sst = status_ib.structure().map_err(|e| format!("{:?}", e.code()))?;
                        let (ep, cl, ev, _) = path_of(&sst.find_ctx(0).map_err(|e| format!("event status path: {:?}", e.code()))?, 1, 2, 3);
                        let status = status_of(&sst.find_ctx(1).map_err(|e| format!("event status ib: {:?}", e.code()))?);
                        items.push(Item::EventStatus { ep, cl, ev, status });
                    } else if let Some(data_ib) = find(&st, 1) {
                        let dst = data_ib.structure().map_err(|e| format!("{:?}", e.code()))?;
                        let (ep, cl, ev, _) = path_of(&dst.find_ctx(0).map_err(|e| format!("event path: {:?}", e.code()))?, 1, 2, 3);
                        let number = find(&dst, 1).and_then(|x| x.u64().ok()).ok_or("event without number")?;
                        let priority = find(&dst, 2).and_then(|x| x.u8().ok()).ok_or("event without priority")?;
                        let data = find(&dst, 7).ok_or("event without data")?;
                        let ds = data.structure().map_err(|e| format!("event data: {:?}", e.code()))?;
                        let serial = find(&ds, 0).and_then(|x| x.u32().ok());
                        let filler = find(&ds, 1).and_then(|x| x.str().ok().map(|b| b.to_vec()));
                        let fab = find(&ds, 0xFE).and_then(|x| x.u8().ok());
                        items.push(Item::Event { ep: ep.ok_or("event without endpoint")?, cl: cl.ok_or("event without cluster")?, ev: ev.ok_or("event without id")?, number, priority, serial, filler, fab });
                    } else {
                        return Err("event report with neither status nor data".into());
                    }
                }
            }
            Some(3) => more = f.bool().unwrap_or(false),
            Some(4) => suppress = f.bool().unwrap_or(false),
            _ => {}
        }
    }
    Ok((items, more, suppress, sub))
}

pub fn decode_write_response(payload: &[u8]) -> Result<Vec<Item>, String> {
    let root = TLVElement::new(payload);
    let s = root.structure().map_err(|e| format!("{:?}", e.code()))?;
    let mut items = Vec::new();
    if let Some(arr) = find(&s, 0) {
        for ib in arr.array().map_err(|e| format!("{:?}", e.code()))?.iter() {
            let ib = ib.map_err(|e| format!("{:?}", e.code()))?;
            let st = ib.structure().map_err(|e| format!("{:?}", e.code()))?;
            let (ep, cl, leaf, _) = path_of(&st.find_ctx(0).map_err(|e| format!("{:?}", e.code()))?, 2, 3, 4);
            let status = status_of(&st.find_ctx(1).map_err(|e| format!("{:?}", e.code()))?);
            items.push(Item::Status { ep, cl, leaf, status });
        }
    }
    Ok(items)
}

pub fn decode_invoke_response(payload: &[u8]) -> Result<Vec<Item>, String> {
    let root = TLVElement::new(payload);
    let s = root.structure().map_err(|e| format!("{:?}", e.code()))?;
    let mut items = Vec::new();
    if let Some(arr) = find(&s, 1) {
        for ib in arr.array().map_err(|e| format!("{:?}", e.code()))?.iter() {
            let ib = ib.map_err(|e| format!("{:?}", e.code()))?;
            let st = ib.structure().map_err(|e| format!("{:?}", e.code()))?;
            if let Some(cd) = find(&st, 0) {
                let c = cd.structure().map_err(|e| format!("{:?}", e.code()))?;
                let (ep, cl, leaf, _) = path_of(&c.find_ctx(0).map_err(|e| format!("{:?}", e.code()))?, 0, 1, 2);
                let value = find(&c, 1).and_then(|v| v.raw_value().ok().map(|x| x.to_vec())).unwrap_or_default();
                items.push(Item::CmdData { ep: ep.ok_or("no ep")?, cl: cl.ok_or("no cluster")?, cmd: leaf.ok_or("no cmd")?, value });
            } else if let Some(sd) = find(&st, 1) {
                let c = sd.structure().map_err(|e| format!("{:?}", e.code()))?;
                let (ep, cl, leaf, _) = path_of(&c.find_ctx(0).map_err(|e| format!("{:?}", e.code()))?, 0, 1, 2);
                let status = status_of(&c.find_ctx(1).map_err(|e| format!("{:?}", e.code()))?);
                items.push(Item::Status { ep, cl, leaf, status });
            }
        }
    }
    Ok(items)
}

/// The outcome of one client interaction.
#[derive(Clone, Debug, Default)]
pub struct Answer {
    /// decoded items of all chunks, in order
    pub items: Vec<Item>,
    /// raw payload of every answer message (ReportData chunks / the response), with its opcode
    pub messages: Vec<(u8, Vec<u8>)>,
    /// a StatusResponse answered the request instead (its status)
    pub status_response: Option<u16>,
    pub error: Option<String>,
}

fn status_response_code(payload: &[u8]) -> u16 {
    TLVElement::new(payload).structure().ok().and_then(|s| find(&s, 0)).and_then(|x| x.u16().ok()).unwrap_or(0xffff)
}

async fn recv_msg(ex: &mut Exchange<'_>) -> Result<(u16, u8, Vec<u8>), Error> {
    let rx = ex.recv().await?;
    let m = rx.meta();
    Ok((m.proto_id, m.proto_opcode, rx.payload().to_vec()))
}

/// Send a ReadRequest and collect every chunk of the answer.
pub async fn do_read(ex: &mut Exchange<'_>, req: &[u8]) -> Answer {
    let mut ans = Answer::default();
    let r: Result<(), Error> = async {
        ex.send(MessageMeta::new(PROTO_IM, OP_READ_REQ, true), req).await?;
        loop {
            if ans.messages.len() >= MAX_CHUNKS {
                ans.error = Some(format!("more than {} chunks", MAX_CHUNKS));
                break;
            }
            let (_, op, payload) = recv_msg(ex).await?;
            ans.messages.push((op, payload.clone()));
            match op {
                OP_REPORT_DATA => match decode_report(&payload) {
                    Ok((items, more, suppress, _)) => {
                        ans.items.extend(items);
                        if more || !suppress {
                            ex.send(MessageMeta::new(PROTO_IM, OP_STATUS, true), &status_response(0)).await?;
                        }
                        if !more {
                            if suppress {
                                ex.acknowledge().await?;
                            }
                            break;
                        }
                    }
                    Err(e) => {
                        ans.error = Some(format!("undecodable report: {}", e));
                        break;
                    }
                },
                OP_STATUS => {
                    ans.status_response = Some(status_response_code(&payload));
                    ex.acknowledge().await?;
                    break;
                }
                other => {
                    ans.error = Some(format!("unexpected opcode {}", other));
                    break;
                }
            }
        }
        Ok(())
    }
    .await;
    if let Err(e) = r {
        ans.error = Some(format!("{:?}", e.code()));
    }
    ans
}

/// Send a (Timed +) Write / Invoke request and decode the response.
pub async fn do_request(ex: &mut Exchange<'_>, timed_ms: Option<u16>, delay_after_timed_ms: u64, opcode: u8, req: &[u8]) -> Answer {
    let mut ans = Answer::default();
    let r: Result<(), Error> = async {
        if let Some(t) = timed_ms {
            ex.send(MessageMeta::new(PROTO_IM, OP_TIMED_REQ, true), &timed_request(t)).await?;
            let (_, op, payload) = recv_msg(ex).await?;
            if op != OP_STATUS || status_response_code(&payload) != 0 {
                ans.messages.push((op, payload.clone()));
                ans.status_response = Some(status_response_code(&payload));
                return Ok(());
            }
            if delay_after_timed_ms > 0 {
                embassy_time::Timer::after(embassy_time::Duration::from_millis(delay_after_timed_ms)).await;
            }
        }
        ex.send(MessageMeta::new(PROTO_IM, opcode, true), req).await?;
        let (_, op, payload) = recv_msg(ex).await?;
        ans.messages.push((op, payload.clone()));
        match op {
            OP_WRITE_RESP => match decode_write_response(&payload) {
                Ok(items) => ans.items = items,
                Err(e) => ans.error = Some(e),
            },
            OP_INVOKE_RESP => match decode_invoke_response(&payload) {
                Ok(items) => ans.items = items,
                Err(e) => ans.error = Some(e),
            },
            OP_STATUS => ans.status_response = Some(status_response_code(&payload)),
            other => ans.error = Some(format!("unexpected opcode {}", other)),
        }
        ex.acknowledge().await?;
        Ok(())
    }
    .await;
    if let Err(e) = r {
        ans.error = Some(format!("{:?}", e.code()));
    }
    ans
}

/// A chunked write on one exchange: an optional TimedRequest, then every chunk (sent after its delay)
/// with the answer to each handed to `each`; stops at the first answer that is not a WriteResponse.
pub async fn do_write_chunks(ex: &mut Exchange<'_>, timed_ms: Option<u16>, chunks: &[(u64, Vec<u8>)], mut each: impl FnMut(Answer)) -> Option<String> {
    let r: Result<(), Error> = async {
        if let Some(t) = timed_ms {
            ex.send(MessageMeta::new(PROTO_IM, OP_TIMED_REQ, true), &timed_request(t)).await?;
            let (_, op, payload) = recv_msg(ex).await?;
            if op != OP_STATUS || status_response_code(&payload) != 0 {
                let mut ans = Answer::default();
                ans.messages.push((op, payload.clone()));
                ans.status_response = Some(status_response_code(&payload));
                each(ans);
                return Ok(());
            }
        }
        for (delay, req) in chunks {
            if *delay > 0 {
                embassy_time::Timer::after(embassy_time::Duration::from_millis(*delay)).await;
            }
            ex.send(MessageMeta::new(PROTO_IM, OP_WRITE_REQ, true), req).await?;
            let (_, op, payload) = recv_msg(ex).await?;
            let mut ans = Answer::default();
            ans.messages.push((op, payload.clone()));
            let mut stop = false;
            match op {
                OP_WRITE_RESP => match decode_write_response(&payload) {
                    Ok(items) => ans.items = items,
                    Err(e) => ans.error = Some(e),
                },
                OP_STATUS => {
                    ans.status_response = Some(status_response_code(&payload));
                    stop = true;
                }
                other => {
                    ans.error = Some(format!("unexpected opcode {}", other));
                    stop = true;
                }
            }
            each(ans);
            if stop {
                break;
            }
        }
        ex.acknowledge().await?;
        Ok(())
    }
    .await;
    r.err().map(|e| format!("{:?}", e.code()))
}

/// SubscribeRequest; collects the priming chunks and the SubscribeResponse.
pub async fn do_subscribe(ex: &mut Exchange<'_>, req: &[u8]) -> Answer {
    let mut ans = Answer::default();
    let r: Result<(), Error> = async {
        ex.send(MessageMeta::new(PROTO_IM, OP_SUBSCRIBE_REQ, true), req).await?;
        loop {
            if ans.messages.len() >= MAX_CHUNKS {
                ans.error = Some("endless priming report".into());
                break;
            }
            let (op, payload) = {
                let rx = ex.recv().await?;
                (rx.meta().proto_opcode, rx.payload().to_vec())
            };
            ans.messages.push((op, payload.clone()));
            match op {
                OP_REPORT_DATA => match decode_report(&payload) {
                    Ok((items, _, _, _)) => {
                        ans.items.extend(items);
                        ex.send(MessageMeta::new(PROTO_IM, OP_STATUS, true), &status_response(0)).await?;
                    }
                    Err(e) => {
                        ans.error = Some(format!("undecodable report: {}", e));
                        break;
                    }
                },
                OP_SUBSCRIBE_RESP => {
                    ex.acknowledge().await?;
                    break;
                }
                OP_STATUS => {
                    ans.status_response = Some(rs_matter::tlv::TLVElement::new(&payload).structure().ok().and_then(|s| s.find_ctx(0).ok()).and_then(|x| x.u16().ok()).unwrap_or(0xffff));
                    ex.acknowledge().await?;
                    break;
                }
                other => {
                    ans.error = Some(format!("unexpected opcode {}", other));
                    break;
                }
            }
        }
        Ok(())
    }
    .await;
    if let Err(e) = r {
        ans.error = Some(format!("{:?}", e.code()));
    }
    ans
}

