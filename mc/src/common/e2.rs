//! E2: explicit-state BFS. A state is an operation history; real objects are rebuilt by
//! replaying the history, the digest is computed from the real object's projection.

use std::collections::{HashSet, VecDeque};
use std::hash::Hash;

pub struct Stats {
    pub states: u64,
    pub transitions: u64,
    pub max_depth: usize,
    pub frontier_left: usize,
}

/// Generic BFS over histories.
///
/// * `build(hist)` replays `hist` on fresh real objects and returns the live system;
/// * `ops(sys)` enumerates the enabled operations in that state (simplest first);
/// * `step(sys, op)` applies one op on the live system and *checks the oracle*, returning
///   false when the branch must not be extended (e.g. after a violation);
/// * `key(sys)` is the canonical projection used for deduplication.
pub fn bfs<S, O: Clone, K: Hash + Eq>(
    roots: Vec<Vec<O>>,
    max_depth: usize,
    mut build: impl FnMut(&[O]) -> S,
    mut ops: impl FnMut(&S) -> Vec<O>,
    mut step: impl FnMut(&mut S, &O, &[O]) -> bool,
    mut key: impl FnMut(&S) -> K,
) -> Stats {
    let mut seen: HashSet<K> = HashSet::new();
    let mut frontier: VecDeque<(Vec<O>, usize)> = VecDeque::new();
    let mut stats = Stats {
        states: 0,
        transitions: 0,
        max_depth: 0,
        frontier_left: 0,
    };
    for r in roots {
        let s = build(&r);
        if seen.insert(key(&s)) {
            stats.states += 1;
            frontier.push_back((r, 0));
        }
    }
    while let Some((hist, depth)) = frontier.pop_front() {
        if depth >= max_depth {
            stats.frontier_left += 1;
            continue;
        }
        let base = build(&hist);
        let enabled = ops(&base);
        drop(base);
        for op in enabled {
            let mut s = build(&hist);
            stats.transitions += 1;
            let cont = step(&mut s, &op, &hist);
            if !cont {
                continue;
            }
            let k = key(&s);
            if seen.insert(k) {
                stats.states += 1;
                let mut h = hist.clone();
                h.push(op.clone());
                if depth + 1 > stats.max_depth {
                    stats.max_depth = depth + 1;
                }
                frontier.push_back((h, depth + 1));
            }
        }
    }
    stats
}
